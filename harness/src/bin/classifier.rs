//! Component `classifier`: `WeakLinkFilter::classify` on REAL `SrtlaConnection`s, tick after tick (C17).
//!
//! Op: `tick <link>;<link>;…` (`tick -` = empty slice); a link is
//! `id,connected,bps_bits,kalman,fast_bits,slow_bits,masd_bits,min_bits` (f64 bit patterns in decimal,
//! `kalman` = `-` for an uninitialised filter or the bits of a finite value). The harness keeps the
//! connection objects across ticks (keyed by conn_id), writes those fields into them, orders them as in
//! the op and calls the real `classify`. Links not named in a tick are dropped (IP-list reload).
//! Observation: `sel=<ms> est=<ms> links=[id:weak:Reason:share:threshold:rtt_ms:qb;…]` where `rtt_ms`
//! and `qb` are read back through the real accessors (`get_smooth_rtt_ms() as u32`,
//! `queue_building_suspected()`).

use std::collections::HashMap;

use srtla_core::connection::SrtlaConnection;
use srtla_core::selection::classifier::{ClassificationResult, WeakLinkFilter, WeakReason};
use srtla_core::utils::verif_clock;
use verif_harness::util::*;
use verif_harness::{Component, Mon, Rng, Tier};

#[derive(Clone, Debug)]
struct L {
    id: u64,
    c: bool,
    bps: f64,
    kal: Option<f64>,
    fast: f64,
    slow: f64,
    masd: f64,
    min: f64,
}

impl L {
    fn healthy(id: u64, bps: f64) -> L {
        L { id, c: true, bps, kal: Some(30.0), fast: 30.0, slow: 30.0, masd: 0.0, min: 30.0 }
    }

    fn rtt(mut self, ms: f64) -> L {
        self.kal = Some(ms);
        self
    }

    fn qb(mut self, on: bool) -> L {
        // gradient = fast - slow; trip = max(3*masd, 0.05*min)
        self.fast = if on { self.slow + 50.0 } else { self.slow };
        self
    }

    fn show(&self) -> String {
        format!(
            "{},{},{},{},{},{},{},{}",
            self.id,
            show_bool(self.c),
            self.bps.to_bits(),
            match self.kal {
                None => "-".to_string(),
                Some(x) => x.to_bits().to_string(),
            },
            self.fast.to_bits(),
            self.slow.to_bits(),
            self.masd.to_bits(),
            self.min.to_bits()
        )
    }

    fn parse(s: &str) -> Option<L> {
        let f: Vec<&str> = s.split(',').collect();
        if f.len() != 8 {
            return None;
        }
        let nat = |x: &str| -> Option<u64> {
            if x.is_empty() || !x.bytes().all(|b| b.is_ascii_digit()) {
                return None;
            }
            x.parse::<u64>().ok()
        };
        let bits = |x: &str| nat(x).map(f64::from_bits);
        let c = match f[1] {
            "1" => true,
            "0" => false,
            _ => return None,
        };
        let kal = if f[3] == "-" {
            None
        } else {
            let x = bits(f[3])?;
            if !x.is_finite() {
                return None;
            }
            Some(x)
        };
        Some(L { id: nat(f[0])?, c, bps: bits(f[2])?, kal, fast: bits(f[4])?, slow: bits(f[5])?, masd: bits(f[6])?, min: bits(f[7])? })
    }
}

fn tick_op(ls: &[L]) -> String {
    if ls.is_empty() {
        return "tick -".into();
    }
    let v: Vec<String> = ls.iter().map(|l| l.show()).collect();
    format!("tick {}", v.join(";"))
}

/// Ghost history of one link, kept by the harness (model-independent).
#[derive(Clone, Default, Debug)]
struct Ghost {
    /// the link was connected and the tick was above the floor at the previous tick
    classified_prev: bool,
    /// the delay signal (RTT over the chosen tier, or queue building) was present at the previous tick
    delay_prev: bool,
    /// the previous verdict was weak
    weak_prev: bool,
    /// consecutive share-weak verdicts (LowShare/NoTraffic) up to and including the previous tick
    run: u32,
}

/// Probation owed to a link after its 15th consecutive share-weak verdict: the verdicts of the next
/// `left` ticks must be not-weak. Survives bypass and disconnected ticks (and absence during a bypass
/// tick); only a classified tick whose slice does not contain the link at all cancels it (the link
/// was removed: it has no "next verdicts").
#[derive(Clone, Debug)]
struct Due {
    left: u32,
    /// a bypass / disconnected tick happened inside the window
    interrupted: bool,
}

struct Classifier {
    rt: tokio::runtime::Runtime,
    filter: WeakLinkFilter,
    pool: Vec<SrtlaConnection>,
    ghost: HashMap<u64, Ghost>,
    due: HashMap<u64, Due>,
    prev_ids: Vec<u64>,
}

fn reason_name(r: WeakReason) -> &'static str {
    match r {
        WeakReason::Healthy => "Healthy",
        WeakReason::HighRtt => "HighRtt",
        WeakReason::QueueBuilding => "QueueBuilding",
        WeakReason::NoTraffic => "NoTraffic",
        WeakReason::LowShare => "LowShare",
        WeakReason::Bypassed => "Bypassed",
    }
}

const RTTS: [f64; 16] = [
    0.0, 30.0, 100.0, 166.0, 167.0, 1666.0, 1667.0, 1999.0, 2000.0, 2001.0, 2499.0, 2500.0, 2501.0, 2999.0, 3000.0, 3001.0,
];

impl Classifier {
    fn new() -> Self {
        verif_clock::set(Some(1_000_000));
        Classifier {
            rt: tokio::runtime::Builder::new_current_thread().enable_all().build().unwrap(),
            filter: WeakLinkFilter::new(),
            pool: Vec::new(),
            ghost: HashMap::new(),
            due: HashMap::new(),
            prev_ids: Vec::new(),
        }
    }

    fn fresh_conn(&self) -> SrtlaConnection {
        self.rt.block_on(srtla_core::test_helpers::create_test_connection())
    }

    fn monitors(&mut self, specs: &[L], conns: &[SrtlaConnection], res: &ClassificationResult, mon: &mut Mon) {
        if res.per_link.len() != conns.len() {
            mon.fail("C17", "shape", format!("{} verdicts for {} links", res.per_link.len(), conns.len()));
            return;
        }
        let n_conn = conns.iter().filter(|c| c.connected).count() as u32;
        let total = conns.iter().filter(|c| c.connected).fold(0.0f64, |a, c| a + c.bitrate.current_bitrate_bps.max(0.0));
        let below = total < 100_000.0 || n_conn == 0;
        if below {
            mon.count("tick:bypass");
            if self.ghost.values().any(|g| g.weak_prev) {
                mon.count("bypass-clears-weak");
                mon.nontrivial();
            }
        } else {
            mon.count("tick:classified");
        }
        let mut next: HashMap<u64, Ghost> = HashMap::new();
        let mut armed: Vec<u64> = Vec::new();
        for (i, e) in res.per_link.iter().enumerate() {
            let c = &conns[i];
            let id = c.conn_id;
            if e.conn_id != id {
                mon.fail("C17", "shape", format!("verdict {i} is for {} but link {i} is {}", e.conn_id, id));
            }
            mon.count(&format!("reason:{}", reason_name(e.reason)));
            if e.weak {
                mon.nontrivial();
            }
            let bps = c.bitrate.current_bitrate_bps.max(0.0);
            let classified = c.connected && !below;
            let rtt_ms = c.get_smooth_rtt_ms() as u32;
            let signal = classified && (rtt_ms > res.selected_delay_ms || c.queue_building_suspected());
            let g = self.ghost.get(&id).cloned().unwrap_or_default();
            let due = self.due.get(&id).cloned();
            let g_due = due.as_ref().map(|d| d.left).unwrap_or(0);
            let was_absent = !self.ghost.contains_key(&id);
            let enter = if n_conn > 0 { 250 / n_conn } else { 0 };
            let leave = if n_conn > 0 { 750 / n_conn } else { 0 };

            // --- never weak while disconnected
            if !c.connected && e.weak {
                mon.fail("C17", "weak-while-disconnected", format!("link {id} disconnected but weak ({:?})", e.reason));
            }
            // --- never weak (and always Bypassed) below the 100 kbit/s floor
            if below && (e.weak || e.reason != WeakReason::Bypassed) {
                mon.fail("C17", "weak-below-floor", format!("total {total} bps / {n_conn} connected: link {id} got weak={} {:?}", e.weak, e.reason));
            }
            // --- a delay verdict needs the signal now and at the immediately preceding tick
            let delay_reason = matches!(e.reason, WeakReason::HighRtt | WeakReason::QueueBuilding);
            if e.weak && delay_reason {
                mon.count("delay-weak");
                if !(signal && g.classified_prev && g.delay_prev) {
                    mon.fail(
                        "C17",
                        "delay-single-tick",
                        format!("link {id} weak {:?} with signal now={signal}, previous tick classified={} signal={}", e.reason, g.classified_prev, g.delay_prev),
                    );
                }
                let want = if rtt_ms > res.selected_delay_ms { WeakReason::HighRtt } else { WeakReason::QueueBuilding };
                if signal && e.reason != want {
                    mon.fail("C17", "delay-single-tick:reason", format!("link {id} reason {:?} but the live signal is {:?}", e.reason, want));
                }
            }
            if !e.weak && delay_reason {
                mon.fail("C17", "delay-single-tick:not-weak-delay-reason", format!("link {id} not weak with reason {:?}", e.reason));
            }
            if signal && !g.delay_prev {
                mon.count("delay-signal-first-tick");
            }
            if !signal && g.delay_prev && !g.weak_prev {
                mon.count("delay-blip-filtered");
            }
            // --- share value (what the thresholds are compared with)
            if classified {
                let chk = if total > 0.0 { ((bps * 1000.0) / total).clamp(0.0, 1000.0) as u32 } else { 0 };
                if e.share_permille != chk {
                    mon.fail("C17", "enter-threshold:share-value", format!("link {id} share {} but bps/total gives {chk}", e.share_permille));
                }
            }
            // --- entering / staying for low share
            let share_weak = e.weak && matches!(e.reason, WeakReason::LowShare | WeakReason::NoTraffic);
            if e.weak && e.reason == WeakReason::LowShare {
                if !g.weak_prev {
                    if e.share_permille + 1 == enter {
                        mon.count("enter:just-below");
                    }
                    if !(e.share_permille < enter) {
                        mon.fail("C17", "enter-threshold", format!("link {id} freshly LowShare with share {} >= {enter} (n={n_conn})", e.share_permille));
                    }
                    if e.threshold_permille != enter {
                        mon.fail("C17", "enter-threshold:reported", format!("link {id} fresh, reported threshold {} != {enter}", e.threshold_permille));
                    }
                } else {
                    if e.share_permille >= enter {
                        mon.count("stay:hysteresis-band");
                    }
                    if e.share_permille + 1 == leave {
                        mon.count("stay:just-below-leave");
                    }
                    if !(e.share_permille < leave) {
                        mon.fail("C17", "leave-threshold:lowshare-above-leave", format!("link {id} LowShare with share {} >= {leave}", e.share_permille));
                    }
                }
            }
            if classified && !e.weak && !g.weak_prev && g_due == 0 && e.share_permille == enter && bps != 0.0 {
                mon.count("enter:at-threshold-not-weak");
            }
            // --- leaving needs share >= leave threshold
            if g.weak_prev && classified && bps != 0.0 && e.share_permille < leave && g_due == 0 && !e.weak {
                mon.fail(
                    "C17",
                    "leave-threshold",
                    format!("link {id} was weak, share {} < {leave} (n={n_conn}), not in probation, but reported not weak", e.share_permille),
                );
            }
            if g.weak_prev && classified && !e.weak && g_due == 0 {
                mon.count("left-weak");
                if e.share_permille == leave {
                    mon.count("leave:at-threshold");
                }
            }
            // --- probation: after the 15th consecutive share-weak verdict the next three verdicts are not-weak
            if let Some(d) = &due {
                if e.weak {
                    if d.interrupted {
                        mon.fail(
                            "C17",
                            "probation-cut-short",
                            format!(
                                "link {id} weak ({:?}) although only {} of the 3 verdicts after its 15th consecutive share-weak verdict have passed (a bypass / disconnected tick inside the window dropped the probation counter)",
                                e.reason,
                                3 - d.left
                            ),
                        );
                    } else {
                        mon.fail("C17", "probation-missing", format!("link {id} weak ({:?}) with {} probation verdicts still owed", e.reason, d.left));
                    }
                } else {
                    mon.count("probation-tick");
                    if !classified {
                        mon.count("probation-tick:unclassified");
                    }
                    if d.left == 1 {
                        mon.count("probation-window-complete");
                        if d.interrupted {
                            mon.count("probation-window-complete:interrupted");
                        }
                    }
                }
            }
            let mut ng = Ghost { classified_prev: classified, delay_prev: signal, weak_prev: e.weak, run: 0 };
            if share_weak {
                ng.run = g.run + 1;
                if ng.run > 15 {
                    mon.fail("C17", "probation-missing:run", format!("link {id}: {} consecutive share-weak verdicts", ng.run));
                }
                if ng.run == 15 {
                    mon.count("probation-armed");
                    ng.run = 0;
                    armed.push(id);
                }
            }
            if was_absent && !self.prev_ids.is_empty() {
                mon.count("link-joined");
            }
            next.insert(id, ng);
        }
        let _ = specs;
        for id in &self.prev_ids {
            if !next.contains_key(id) {
                mon.count("link-left");
            }
        }
        // advance the probation windows by one tick
        let present: HashMap<u64, bool> = conns.iter().map(|c| (c.conn_id, c.connected && !below)).collect();
        let mut nd: HashMap<u64, Due> = HashMap::new();
        for (id, d) in self.due.iter() {
            if d.left <= 1 {
                continue;
            }
            match present.get(id) {
                Some(true) => {
                    nd.insert(*id, Due { left: d.left - 1, interrupted: d.interrupted });
                }
                Some(false) => {
                    nd.insert(*id, Due { left: d.left - 1, interrupted: true });
                }
                None => {
                    if below {
                        nd.insert(*id, Due { left: d.left - 1, interrupted: true });
                    } else {
                        mon.count("probation-cancelled:link-removed");
                    }
                }
            }
        }
        for id in armed {
            nd.insert(id, Due { left: 3, interrupted: false });
        }
        self.due = nd;
        self.ghost = next;
    }
}

// ------------------------------------------------------------------ generator

fn weird_f(rng: &mut Rng) -> f64 {
    match rng.below(14) {
        0 => f64::NAN,
        1 => f64::INFINITY,
        2 => f64::NEG_INFINITY,
        3 => -0.0,
        4 => -1.0,
        5 => 1e308,
        6 => 5e-324,
        7 => 1e17,
        8 => 0.0,
        9 => 4294967295.5,
        10 => 4294967296.0,
        11 => 99_999.99999999999,
        12 => f64::from_bits(rng.next_u64()),
        _ => rng.below(10_000_000) as f64,
    }
}

fn split_total(total_k: u64, n: usize, victim: usize, p: u64) -> Vec<f64> {
    // victim gets p permille of total = total_k*1000; the rest is split over the others (exact integers)
    let total = total_k * 1000;
    let v = total_k * p.min(1000);
    let rest = total - v;
    let mut out = vec![0.0; n];
    if n == 1 {
        out[0] = total as f64;
        return out;
    }
    let each = rest / (n as u64 - 1);
    let mut extra = rest - each * (n as u64 - 1);
    for (i, o) in out.iter_mut().enumerate() {
        if i == victim {
            *o = v as f64;
        } else {
            *o = (each + extra) as f64;
            extra = 0;
        }
    }
    out
}

impl Component for Classifier {
    fn rule(&self) -> &'static str {
        "classifier: a case is a history of 20-70 `tick` ops over 0-6 links (mostly 1-4) run on the real WeakLinkFilter with \
         persistent SrtlaConnection objects; scenarios: starved link for >=20 ticks (probation cycles, optionally interrupted \
         by a bypass blip / disconnect / absence / delay verdict), probation windows with bypassed / disconnected / removed ticks inside, victim share placed at, just below and just above \
         floor(250/n) and floor(750/n) permille with exactly representable totals, RTT / queue-building signal held for \
         exactly 1, 2 or 3 ticks around the 2000/2500/3000 ms tier boundaries, totals at 99 999 / 100 000 / 100 001 bit/s, \
         link churn (join, leave, reorder, disconnect), weird floats (NaN, inf, negative, -0.0, huge, subnormal) and \
         duplicate ids, plus malformed ops. Non-trivial: at least one weak verdict, or a bypass tick that cleared a weak link."
    }

    fn gen_case(&mut self, rng: &mut Rng, tier: Tier, idx: usize) -> Vec<String> {
        let mut ops = Vec::new();
        // the real event loop: a handful of scenarios per run (each costs about a second of wall time)
        let every = if matches!(tier, Tier::Quick) { 100 } else { 40 };
        if idx % every == 17 {
            let sc = verif_harness::looptrace::generate(rng, false);
            return vec![format!("looptrace {}", sc.render())];
        }
        let scenario = rng.below(19);
        match scenario {
            0 | 1 | 2 => {
                // starved link, long run
                let n = rng.range(2, 4) as usize;
                let victim = rng.below(n as u64) as usize;
                let len = rng.range(20, 70) as usize;
                let perturb_at = rng.range(13, 19) as usize;
                let perturb = rng.below(7);
                let recover_at = if rng.chance(1, 2) { rng.range(16, len as u64) as usize } else { usize::MAX };
                let tiny = rng.chance(1, 3);
                for t in 0..len {
                    let mut ls: Vec<L> = (0..n)
                        .map(|i| {
                            let bps = if i == victim {
                                if t >= recover_at {
                                    2_000_000.0
                                } else if tiny {
                                    1000.0
                                } else {
                                    0.0
                                }
                            } else {
                                1_000_000.0 + (rng.below(4) * 500_000) as f64
                            };
                            L::healthy(10 + i as u64, bps)
                        })
                        .collect();
                    if t == perturb_at || (perturb == 6 && t == perturb_at + 1) {
                        match perturb {
                            0 => {}
                            1 => {
                                for l in ls.iter_mut() {
                                    l.bps = if l.bps > 0.0 { 20_000.0 } else { 0.0 };
                                }
                            }
                            2 => ls[victim].c = false,
                            3 => {
                                ls.remove(victim);
                            }
                            4 | 6 => ls[victim] = ls[victim].clone().qb(true),
                            _ => ls.swap(0, n - 1),
                        }
                    }
                    if perturb == 4 && t + 1 == perturb_at {
                        ls[victim] = ls[victim].clone().qb(true);
                    }
                    ops.push(tick_op(&ls));
                }
            }
            3 | 4 | 5 | 6 => {
                // thresholds: victim share at / around floor(250/n) and floor(750/n)
                let n = rng.range(1, 4) as usize;
                let victim = rng.below(n as u64) as usize;
                let total_k = rng.range(100, 9000);
                let len = rng.range(20, 40) as usize;
                let enter = 250 / n as u64;
                let leave = 750 / n as u64;
                let mut p = 1000 / n as u64;
                for _ in 0..len {
                    if rng.chance(2, 3) {
                        p = match rng.below(12) {
                            0 => enter.saturating_sub(1),
                            1 => enter,
                            2 => enter + 1,
                            3 => leave.saturating_sub(1),
                            4 => leave,
                            5 => leave + 1,
                            6 => 0,
                            7 => rng.below(enter + 1),
                            8 => enter + rng.below(leave - enter + 1),
                            9 => 1000 / n as u64,
                            10 => 1,
                            _ => rng.below(1001),
                        };
                    }
                    let bps = split_total(total_k, n, victim, p);
                    let mut ls: Vec<L> = (0..n).map(|i| L::healthy(20 + i as u64, bps[i])).collect();
                    if rng.chance(1, 25) {
                        ls[victim].c = false;
                    }
                    if rng.chance(1, 30) && n > 1 {
                        // off-by-one bit/s below the exact share
                        ls[victim].bps = (ls[victim].bps - 1.0).max(0.0);
                        ls[(victim + 1) % n].bps += 1.0;
                    }
                    ops.push(tick_op(&ls));
                }
            }
            7 | 8 | 9 => {
                // delay blips of exactly 1, 2, 3 ticks around the tier boundaries
                let n = rng.range(2, 4) as usize;
                let victim = rng.below(n as u64) as usize;
                let len = rng.range(20, 36) as usize;
                let use_qb = rng.chance(1, 3);
                // victim carries <= 14% so that >85% fits the best tier (2000 ms when the budget is capped)
                let vshare = *rng.pick(&[100u64, 140, 149, 150, 151, 200, 400, 500]);
                let base_rtt = *rng.pick(&[30.0, 100.0, 1999.0, 2000.0]);
                let hi_rtt = *rng.pick(&[2001.0, 2001.0, 2400.0, 2500.0, 2501.0, 3000.0, 3001.0, 6000.0, 2000.9]);
                let mut blips: Vec<(usize, usize)> = Vec::new();
                let mut t = rng.range(1, 4) as usize;
                while t < len {
                    let d = rng.range(1, 3) as usize;
                    blips.push((t, d));
                    t += d + rng.range(1, 4) as usize;
                }
                for t in 0..len {
                    let on = blips.iter().any(|(s, d)| t >= *s && t < *s + *d);
                    let bps = split_total(3000, n, victim, vshare);
                    let mut ls: Vec<L> = (0..n).map(|i| L::healthy(30 + i as u64, bps[i])).collect();
                    for (i, l) in ls.iter_mut().enumerate() {
                        if i != victim && i == (victim + 1) % n {
                            *l = l.clone().rtt(*rng.pick(&[30.0, 1700.0, 1999.0, 2000.0]));
                        }
                    }
                    ls[victim] = ls[victim].clone().rtt(base_rtt);
                    if on {
                        if use_qb {
                            ls[victim] = ls[victim].clone().qb(true);
                        } else {
                            ls[victim] = ls[victim].clone().rtt(hi_rtt);
                        }
                    }
                    if rng.chance(1, 40) {
                        ls[victim].c = false;
                    }
                    ops.push(tick_op(&ls));
                }
            }
            10 | 11 => {
                // totals crossing the 100 kbit/s floor
                let n = rng.range(1, 4) as usize;
                let len = rng.range(20, 32) as usize;
                for _ in 0..len {
                    let total: u64 = match rng.below(8) {
                        0 => 99_999,
                        1 => 100_000,
                        2 => 100_001,
                        3 => 0,
                        4 => 50_000,
                        _ => 2_000_000,
                    };
                    let mut ls: Vec<L> = Vec::new();
                    let mut left = total;
                    for i in 0..n {
                        let b = if i + 1 == n {
                            left
                        } else {
                            match rng.below(4) {
                                0 => 0,
                                1 => left / 50,
                                _ => left / (n as u64 - i as u64),
                            }
                        };
                        left -= b;
                        ls.push(L::healthy(40 + i as u64, b as f64));
                    }
                    if rng.chance(1, 10) {
                        let k = rng.below(n as u64) as usize;
                        ls[k].c = false;
                    }
                    if rng.chance(1, 10) {
                        for l in ls.iter_mut() {
                            l.c = false;
                        }
                    }
                    ops.push(tick_op(&ls));
                }
            }
            12 | 13 | 14 => {
                // churn
                let len = rng.range(20, 40) as usize;
                let ids = rng.range(1, 6);
                for _ in 0..len {
                    let mut ls: Vec<L> = Vec::new();
                    for id in 0..ids {
                        if !rng.chance(17, 20) {
                            continue;
                        }
                        let bps = match rng.below(6) {
                            0 => 0.0,
                            1 => rng.below(30_000) as f64,
                            2 => 60_000.0,
                            _ => rng.below(5_000_000) as f64,
                        };
                        let mut l = L::healthy(50 + id, bps).rtt(*rng.pick(&RTTS));
                        if rng.chance(1, 5) {
                            l = l.qb(true);
                        }
                        if rng.chance(1, 12) {
                            l.kal = None;
                        }
                        if rng.chance(1, 10) {
                            l.c = false;
                        }
                        ls.push(l);
                    }
                    if rng.chance(1, 4) && ls.len() > 1 {
                        let a = rng.below(ls.len() as u64) as usize;
                        let b = rng.below(ls.len() as u64) as usize;
                        ls.swap(a, b);
                    }
                    ops.push(tick_op(&ls));
                }
            }
            16 | 17 | 18 => {
                // probation windows with bypassed / disconnected / removed ticks inside them
                let n = rng.range(2, 4) as usize;
                let victim = rng.below(n as u64) as usize;
                let lead = rng.below(3) as usize; // healthy ticks before the starvation starts
                let len = lead + 15 + 3 + rng.range(2, 22) as usize;
                let tiny = rng.chance(1, 3);
                // what happens on each tick of the first window (and, shifted, on later ticks)
                let plan: Vec<u64> = (0..len).map(|_| rng.below(8)).collect();
                for t in 0..len {
                    let starving = t >= lead;
                    let mut ls: Vec<L> = (0..n)
                        .map(|i| {
                            let bps = if i == victim && starving {
                                if tiny { 1000.0 } else { 0.0 }
                            } else {
                                1_000_000.0 + (rng.below(4) * 500_000) as f64
                            };
                            L::healthy(70 + i as u64, bps)
                        })
                        .collect();
                    if t >= lead + 15 {
                        match plan[t] {
                            0 | 1 => {
                                // bypass tick
                                for l in ls.iter_mut() {
                                    l.bps = if l.bps > 1000.0 { 20_000.0 } else { l.bps };
                                }
                            }
                            2 | 3 => ls[victim].c = false,
                            4 => {
                                // removed while the tick is bypassed
                                for l in ls.iter_mut() {
                                    l.bps = if l.bps > 1000.0 { 20_000.0 } else { l.bps };
                                }
                                ls.remove(victim);
                            }
                            5 if rng.chance(1, 3) => {
                                ls.remove(victim);
                            }
                            _ => {}
                        }
                    }
                    ops.push(tick_op(&ls));
                }
            }
            _ => {
                // weird floats, duplicate ids, malformed ops
                let len = rng.range(20, 30) as usize;
                for _ in 0..len {
                    if rng.chance(1, 12) {
                        ops.push(
                            match rng.below(6) {
                                0 => "tick",
                                1 => "tick 1,1,0",
                                2 => "tick 1,2,0,-,0,0,0,0",
                                3 => "tick 1,1,x,-,0,0,0,0",
                                4 => "tock -",
                                _ => "tick 1,1,0,9218868437227405312,0,0,0,0",
                            }
                            .to_string(),
                        );
                        continue;
                    }
                    let n = rng.below(5) as usize;
                    let mut ls: Vec<L> = Vec::new();
                    for i in 0..n {
                        let id = if rng.chance(1, 15) { 60 } else { 60 + i as u64 };
                        let mut l = L::healthy(id, if rng.chance(1, 2) { weird_f(rng) } else { rng.below(3_000_000) as f64 });
                        if rng.chance(1, 2) {
                            let k = weird_f(rng);
                            l.kal = if k.is_finite() { Some(k) } else { None };
                        }
                        if rng.chance(1, 3) {
                            l.fast = weird_f(rng);
                            l.slow = weird_f(rng);
                            l.masd = weird_f(rng);
                            l.min = weird_f(rng);
                        }
                        if rng.chance(1, 10) {
                            l.c = false;
                        }
                        ls.push(l);
                    }
                    if rng.chance(1, 20) {
                        ls.push(L::healthy(u64::MAX, 1e6));
                    }
                    ops.push(tick_op(&ls));
                }
            }
        }
        ops
    }

    fn start_case(&mut self) {
        self.filter = WeakLinkFilter::new();
        self.pool.clear();
        self.ghost.clear();
        self.due.clear();
        self.prev_ids.clear();
    }

    fn exec(&mut self, toks: &[&str], mon: &mut Mon) -> String {
        match toks {
            ["tick", ls] => {
                let specs: Vec<L> = if *ls == "-" {
                    Vec::new()
                } else {
                    let mut v = Vec::new();
                    for s in ls.split(';') {
                        match L::parse(s) {
                            Some(l) => v.push(l),
                            None => return "bad-op".into(),
                        }
                    }
                    v
                };
                {
                    // duplicate conn_ids are outside the model's input domain (see Model/Classifier.lean)
                    let mut ids: Vec<u64> = specs.iter().map(|s| s.id).collect();
                    ids.sort_unstable();
                    ids.dedup();
                    if ids.len() != specs.len() {
                        mon.count("duplicate-ids-refused");
                        return "bad-op".into();
                    }
                }
                // build the slice in op order from the persistent objects
                let mut old: Vec<SrtlaConnection> = std::mem::take(&mut self.pool);
                let mut conns: Vec<SrtlaConnection> = Vec::with_capacity(specs.len());
                for s in &specs {
                    let mut c = match old.iter().position(|c| c.conn_id == s.id) {
                        Some(i) => old.remove(i),
                        None => {
                            let mut c = self.fresh_conn();
                            c.conn_id = s.id;
                            c
                        }
                    };
                    c.connected = s.c;
                    c.bitrate.current_bitrate_bps = s.bps;
                    c.rtt.kalman_rtt.reset();
                    if let Some(x) = s.kal {
                        c.rtt.kalman_rtt.update(x);
                    }
                    c.rtt.rtt_min_fast_ms = s.fast;
                    c.rtt.rtt_min_slow_ms = s.slow;
                    c.rtt.rtt_masd_ms = s.masd;
                    c.rtt.rtt_min_ms = s.min;
                    conns.push(c);
                }
                drop(old);
                let mut ids: Vec<u64> = specs.iter().map(|s| s.id).collect();
                let ids_in_order = ids.clone();
                ids.sort_unstable();
                if !self.prev_ids.is_empty() && ids_in_order.len() > 1 && {
                    let mut a = self.prev_ids.clone();
                    a.sort_unstable();
                    a == ids && self.prev_ids != ids_in_order
                } {
                    mon.count("reordered");
                }

                let res = self.filter.classify(&conns);

                self.monitors(&specs, &conns, &res, mon);
                self.prev_ids = ids_in_order;

                let links: Vec<String> = res
                    .per_link
                    .iter()
                    .zip(conns.iter())
                    .map(|(e, c)| {
                        format!(
                            "{}:{}:{}:{}:{}:{}:{}",
                            e.conn_id,
                            show_bool(e.weak),
                            reason_name(e.reason),
                            e.share_permille,
                            e.threshold_permille,
                            c.get_smooth_rtt_ms() as u32,
                            show_bool(c.queue_building_suspected())
                        )
                    })
                    .collect();
                self.pool = conns;
                format!("sel={} est={} links=[{}]", res.selected_delay_ms, res.estimated_max_delay_ms, links.join(";"))
            }
            ["looptrace", rest @ ..] => {
                // the REAL event loop end to end (see verif_harness::looptrace): C17 clauses on the per-tick
                // verdicts it publishes, across real reloads, late joiners and reconnects. Monitor only.
                let Some(sc) = verif_harness::looptrace::Scenario::parse(rest) else { return "bad-op".into() };
                match verif_harness::looptrace::run(&sc) {
                    Err(why) => mon.count(why),
                    Ok(trace) => {
                        mon.count("looptrace-scenario");
                        mon.count(&format!("looptrace-reloads-sent-{}", trace.ticks.last().map(|t| t.reloads_sent).unwrap_or(0)));
                        if trace.ticks.iter().any(|t| t.links.iter().any(|l| l.weak)) {
                            mon.count("looptrace-with-weak-verdict");
                            mon.nontrivial();
                        }
                        verif_harness::looptrace::monitors_c17(&trace.ticks, &sc, mon);
                    }
                }
                "looptrace-ok".into()
            }
            _ => "bad-op".into(),
        }
    }
}

fn main() {
    verif_harness::run_main("classifier", Box::new(Classifier::new()));
}
