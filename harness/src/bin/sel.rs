//! Component `sel`: state injection into REAL `SrtlaConnection`s and selection passes through the
//! real `select_connection_idx`, `apply_stall_gate`, classic selector and best-quality override
//! filter (C03, C04, C10, C11, C12, C13).
//!
//! Ops (same op, same output line in `lean/Srtla/Drv/Sel.lean`):
//!   `new n now` | `set i k=v..` (model fields) | `aux i k=v..` (real-only fields, model ignores them)
//!   `select last now cfg` | `select2 last now cfg` (decision + idempotence + stability)
//!   `offbase last now cfg` (two guard-off decisions on the links AND on a history-free clone)
//!   `gate now cfg` (bare `apply_stall_gate`) | `classic now` | `bestq now` | `factors now`
//! State line per link: every `SLink` field incl. the IEEE bits of srtt / rtt_min / measured bitrate.
//!
//! Monitors (on the REAL code, independent of the model):
//!   C03 blackout, gated-without-alternative
//!   C04 out-of-range, ineligible-selected, override-ineligible, timeout-copy-not-refreshed
//!       ("timed out" judged against the CONFIGURED window of the pass, `timed_out_oracle`)
//!   C11 softcap-range, quality-range, score-not-finite, capped-selected, unscored-selected,
//!       left-without-10pct, factor-not-applied-to-held-link, not-idempotent, not-stable
//!   C12 frame (every non-guard field, `frame()`), off-not-cleared, counter-decreased,
//!       off-differs-from-baseline (every guard-off pass + `offbase`), harness-clone-infidelity
//!   C13 latch-engaged-illegally, never-proved-latched, latch-released-early, pull-released-unheard
//!       (temporal, ghost history; counted only as `c13-ood:<sig>` outside timed traces),
//!       held-not-gated, held-in-rotation (rotation: latched/pulled link next to a healthy one)
//! C03/C04/C11 monitors are guarded by `in_domain()` (the properties' stated domain); out-of-domain
//! states are generated for the correspondence only.

use srtla_core::config_snapshot::ConfigSnapshot;
use srtla_core::connection::batch_send::BatchRegime;
use srtla_core::connection::verif_hooks::VerifPrivate;
use srtla_core::connection::{LinkPhase, SrtlaConnection};
use srtla_core::mode::SchedulingMode;
use srtla_core::priority::select_best_quality_eligible_idx;
use srtla_core::selection::enhanced::{in_flight_cap_exceeded, in_flight_cap_packets};
use srtla_core::selection::verif_hooks as selhooks;
use srtla_core::selection::{calculate_quality_multiplier, select_connection_idx};
use verif_harness::util::*;
use verif_harness::{Component, Mon, Rng, Tier};

/// Ghost history per link for the C13 temporal monitors (independent of the model).
#[derive(Clone, Default)]
struct Ghost {
    /// start of the current uninterrupted run of fresh proof over the selects seen while latched
    fresh_run_start: Option<u64>,
    /// `last_received` when the silence pull engaged
    lr_at_pull: Option<Option<u64>>,
}

struct Sel {
    rt: tokio::runtime::Runtime,
    links: Vec<SrtlaConnection>,
    ghost: Vec<Ghost>,
    /// largest selection clock seen in this case; C13 quantifies over TIMED traces (monotone clock)
    max_now: u64,
    clock_monotone: bool,
    /// configured liveness window of the most recent pass of this case (the `bestq` op carries no cfg;
    /// in the shell the override runs right after `select_connection_idx` under the same snapshot)
    last_cto: Option<u64>,
}

/// Canonical float printing: IEEE bits, every NaN as the canonical quiet NaN (Lean's `Float.toBits`
/// canonicalises NaN payloads, so both sides print 0x7ff8000000000000).
fn fb(x: f64) -> u64 {
    if x.is_nan() { 0x7ff8_0000_0000_0000 } else { x.to_bits() }
}

fn show_phase(p: &LinkPhase) -> String {
    match p {
        LinkPhase::Registering => "reg".into(),
        LinkPhase::Warming { rtt_probes, entered_ms } => format!("warm:{rtt_probes}:{entered_ms}"),
        LinkPhase::Live => "live".into(),
        LinkPhase::Degraded => "deg".into(),
    }
}

fn parse_phase(s: &str) -> Option<LinkPhase> {
    let p: Vec<&str> = s.split(':').collect();
    match p.as_slice() {
        ["reg"] => Some(LinkPhase::Registering),
        ["live"] => Some(LinkPhase::Live),
        ["deg"] => Some(LinkPhase::Degraded),
        ["warm", a, b] => Some(LinkPhase::Warming { rtt_probes: a.parse().ok()?, entered_ms: b.parse().ok()? }),
        _ => None,
    }
}

fn show_link(c: &SrtlaConnection) -> String {
    let p = c.verif_private();
    format!(
        "{} c={} ph={} w={} inf={} q={} lr={} ls={} proof={} est={} grace={} cto={} gated={} lat={} rec={} gev={} pc={} pulled={} mark={} pulls={} weak={} ld={} cct={} qm={} qat={} nakc={} lnak={} burst={} srtt={} rttmin={} br={}",
        c.conn_id,
        show_bool(c.connected),
        show_phase(&c.phase),
        c.window,
        c.in_flight_packets,
        c.batch_sender.queued_count(),
        show_opt(c.last_received),
        show_opt(c.last_sent),
        c.last_ack_or_rtt_sample_ms,
        c.reconnection.connection_established_ms,
        c.reconnection.startup_grace_deadline_ms,
        p.conn_timeout_ms,
        show_bool(p.stall_gated),
        p.stall_latched_since_ms,
        p.stall_recovery_since_ms,
        p.stall_gate_events,
        p.stall_probe_counter,
        show_bool(p.silence_pulled),
        show_opt(p.silence_pull_heard_mark),
        p.silence_pulls,
        show_bool(c.weak),
        show_bool(c.loss_degraded),
        c.cc_target_bps,
        fb(p.quality_multiplier),
        p.quality_calculated_ms,
        c.congestion.nak_count,
        c.congestion.last_nak_time_ms,
        c.congestion.nak_burst_count,
        fb(c.get_smooth_rtt_ms()),
        fb(c.get_rtt_min_ms()),
        fb(c.bitrate.current_bitrate_bps)
    )
}

/// C12 frame: EVERY field of the real `SrtlaConnection` except the ones a routing decision is
/// allowed to change, i.e. exactly the `VerifPrivate` set: the guard's own flags / stamps / counters
/// (`stall_gated`, `stall_latched_since_ms`, `stall_recovery_since_ms`, `stall_gate_events`,
/// `stall_probe_counter`, `silence_pulled`, `silence_pull_heard_mark`, `silence_pulls`), the cached
/// timeout copy (`conn_timeout_ms`) and the quality cache (`quality_cache.*`).
///
/// `SrtlaConnection` has no `Debug`, so the fields are enumerated by hand in declaration order
/// (connection/mod.rs `pub struct SrtlaConnection`); the sub-structs (`RttTracker` incl. its Kalman
/// filter and sample windows, `CongestionControl`, `BitrateTracker`, `ReconnectionState`,
/// `BatchSender` incl. queued datagram bytes / sequence numbers / queue times / last flush / regime)
/// are dumped whole through their own `Debug`.  A field added to the struct must be added here.
fn frame(c: &SrtlaConnection) -> Vec<(&'static str, String)> {
    vec![
        ("conn_id", c.conn_id.to_string()),
        ("local_ip", c.local_ip.to_string()),
        ("label", c.label.clone()),
        ("connected", c.connected.to_string()),
        ("window", c.window.to_string()),
        ("in_flight_packets", c.in_flight_packets.to_string()),
        ("packet_log", format!("{:?}", c.verif_packet_log())),
        ("highest_acked_seq", c.verif_highest_acked_seq().to_string()),
        ("last_received", format!("{:?}", c.last_received)),
        ("last_sent", format!("{:?}", c.last_sent)),
        ("last_keepalive_sent", format!("{:?}", c.verif_last_keepalive_sent())),
        ("last_ack_or_rtt_sample_ms", c.last_ack_or_rtt_sample_ms.to_string()),
        ("rtt", format!("{:?}", c.rtt)),
        ("congestion", format!("{:?}", c.congestion)),
        ("bitrate", format!("{:?}", c.bitrate)),
        ("reconnection", format!("{:?}", c.reconnection)),
        ("batch_sender", format!("{:?}", c.batch_sender)),
        ("phase", format!("{:?}", c.phase)),
        ("weak", c.weak.to_string()),
        ("cc_backing_off", c.cc_backing_off.to_string()),
        ("cc_target_bps", c.cc_target_bps.to_string()),
        ("loss_degraded", c.loss_degraded.to_string()),
    ]
}

fn frame_diff(a: &[(&'static str, String)], b: &[(&'static str, String)]) -> Vec<String> {
    a.iter()
        .zip(b.iter())
        .filter(|(x, y)| x != y)
        .map(|(x, y)| format!("{}: {} -> {}", x.0, x.1, y.1))
        .collect()
}

/// "The same links with no stall history at all" (C12): a separately constructed connection with
/// every frame field copied and the guard's state zeroed; the quality cache and the cached timeout
/// (no stall history) are copied.
fn history_free_clone(c: &SrtlaConnection) -> SrtlaConnection {
    let mut d = SrtlaConnection::new_registering(c.conn_id, c.label.clone(), c.local_ip, 0);
    d.connected = c.connected;
    d.window = c.window;
    d.in_flight_packets = c.in_flight_packets;
    d.packet_log = c.packet_log.clone();
    d.highest_acked_seq = c.highest_acked_seq;
    d.last_received = c.last_received;
    d.last_sent = c.last_sent;
    d.last_keepalive_sent = c.last_keepalive_sent;
    d.last_ack_or_rtt_sample_ms = c.last_ack_or_rtt_sample_ms;
    d.rtt = c.rtt.clone();
    d.congestion = c.congestion.clone();
    d.bitrate = c.bitrate.clone();
    d.reconnection = c.reconnection.clone();
    // `drain` on the empty queue only re-arms `last_flush_ms`
    let _ = d.batch_sender.drain(c.batch_sender.verif_last_flush_ms());
    for (data, seq, t) in c.batch_sender.verif_queue() {
        d.batch_sender.queue_packet(&data, seq, t);
    }
    d.batch_sender.set_regime(c.batch_sender.regime());
    d.phase = c.phase;
    d.weak = c.weak;
    d.cc_backing_off = c.cc_backing_off;
    d.cc_target_bps = c.cc_target_bps;
    d.loss_degraded = c.loss_degraded;
    let p = c.verif_private();
    d.verif_set_private(VerifPrivate {
        stall_gated: false,
        stall_latched_since_ms: 0,
        stall_recovery_since_ms: 0,
        stall_gate_events: 0,
        stall_probe_counter: 0,
        silence_pulled: false,
        silence_pull_heard_mark: None,
        silence_pulls: 0,
        conn_timeout_ms: p.conn_timeout_ms,
        quality_multiplier: p.quality_multiplier,
        quality_calculated_ms: p.quality_calculated_ms,
    });
    d
}

fn has_stall_history(p: &VerifPrivate) -> bool {
    p.stall_gated
        || p.stall_latched_since_ms != 0
        || p.stall_recovery_since_ms != 0
        || p.stall_gate_events != 0
        || p.stall_probe_counter != 0
        || p.silence_pulled
        || p.silence_pull_heard_mark.is_some()
        || p.silence_pulls != 0
}

/// State captured before a pass of the real code.
struct Snap {
    frames: Vec<Vec<(&'static str, String)>>,
    privs: Vec<VerifPrivate>,
    lr: Vec<Option<u64>>,
}

fn parse_cfg(toks: &[&str]) -> Option<ConfigSnapshot> {
    Some(ConfigSnapshot {
        mode: if kv_bool(toks, "classic")? { SchedulingMode::Classic } else { SchedulingMode::Enhanced },
        quality_enabled: kv_bool(toks, "quality")?,
        stall_deselect: kv_bool(toks, "stall")?,
        stall_min_in_flight: kv_parse(toks, "minif")?,
        stall_ack_stale_ms: kv_parse(toks, "ceil")?,
        conn_timeout_ms: kv_parse(toks, "cto")?,
    })
}

/// Independent rendering of `clamp(4 x smoothed RTT, 1000 ms, ceiling)` (ceiling when no RTT).
fn eff_window(c: &SrtlaConnection, ceiling: u64) -> u64 {
    let srtt = c.get_smooth_rtt_ms();
    if srtt <= 0.0 {
        ceiling
    } else {
        ((srtt as u64).saturating_mul(4)).max(1000).min(ceiling)
    }
}

/// Independent "timed out" oracle against a CONFIGURED liveness window `cto` (not the link's cached
/// copy).  Connected link: silent for at least `cto`; a link that has never received is not timed
/// out.  Disconnected link: due for (re-)registration, i.e. timed out, unless it was never established
/// and its startup grace has not expired (semantics after /repo fix 5d44106).
fn timed_out_oracle(c: &SrtlaConnection, now: u64, cto: u64) -> bool {
    if !c.connected {
        !(c.reconnection.connection_established_ms == 0 && now < c.reconnection.startup_grace_deadline_ms)
    } else {
        match c.last_received {
            Some(lr) => now.saturating_sub(lr) >= cto,
            None => false,
        }
    }
}

impl Sel {
    fn new() -> Self {
        Sel {
            rt: tokio::runtime::Builder::new_current_thread().enable_all().build().unwrap(),
            links: Vec::new(),
            ghost: Vec::new(),
            max_now: 0,
            clock_monotone: true,
            last_cto: None,
        }
    }

    fn show(&self) -> String {
        self.links.iter().map(show_link).collect::<Vec<_>>().join(" | ")
    }

    fn set_field(&mut self, i: usize, k: &str, v: &str) -> Option<()> {
        let c = self.links.get_mut(i)?;
        let mut p = c.verif_private();
        let opt_u64 = |v: &str| -> Option<Option<u64>> { if v == "-" { Some(None) } else { v.parse().ok().map(Some) } };
        let b = |v: &str| -> Option<bool> {
            match v {
                "1" => Some(true),
                "0" => Some(false),
                _ => None,
            }
        };
        let f = |v: &str| -> Option<f64> { v.parse::<u64>().ok().map(f64::from_bits) };
        let mut stall_key = false;
        match k {
            "c" => c.connected = b(v)?,
            "ph" => c.phase = parse_phase(v)?,
            "w" => c.window = v.parse().ok()?,
            "inf" => c.in_flight_packets = v.parse().ok()?,
            "q" => {
                let n: i32 = v.parse().ok()?;
                c.batch_sender.reset();
                for _ in 0..n.max(0) {
                    c.batch_sender.queue_packet(&[0u8; 4], None, 0);
                }
            }
            "lr" => c.last_received = opt_u64(v)?,
            "ls" => c.last_sent = opt_u64(v)?,
            "proof" => c.last_ack_or_rtt_sample_ms = v.parse().ok()?,
            "est" => c.reconnection.connection_established_ms = v.parse().ok()?,
            "grace" => c.reconnection.startup_grace_deadline_ms = v.parse().ok()?,
            "cto" => p.conn_timeout_ms = v.parse().ok()?,
            "gated" => {
                p.stall_gated = b(v)?;
                stall_key = true
            }
            "lat" => {
                p.stall_latched_since_ms = v.parse().ok()?;
                stall_key = true
            }
            "rec" => {
                p.stall_recovery_since_ms = v.parse().ok()?;
                stall_key = true
            }
            "gev" => p.stall_gate_events = v.parse().ok()?,
            "pc" => p.stall_probe_counter = v.parse().ok()?,
            "pulled" => {
                p.silence_pulled = b(v)?;
                stall_key = true
            }
            "mark" => {
                p.silence_pull_heard_mark = opt_u64(v)?;
                stall_key = true
            }
            "pulls" => p.silence_pulls = v.parse().ok()?,
            "weak" => c.weak = b(v)?,
            "ld" => c.loss_degraded = b(v)?,
            "cct" => c.cc_target_bps = v.parse().ok()?,
            "srtt" => {
                let x = f(v)?;
                c.rtt.kalman_rtt.reset();
                c.rtt.kalman_rtt.update(x);
            }
            "rttmin" => c.rtt.rtt_min_ms = f(v)?,
            "br" => c.bitrate.current_bitrate_bps = f(v)?,
            "qm" => p.quality_multiplier = f(v)?,
            "qat" => p.quality_calculated_ms = v.parse().ok()?,
            "nakc" => c.congestion.nak_count = v.parse().ok()?,
            "lnak" => c.congestion.last_nak_time_ms = v.parse().ok()?,
            "burst" => c.congestion.nak_burst_count = v.parse().ok()?,
            _ => return None,
        }
        if matches!(k, "cto" | "gated" | "lat" | "rec" | "gev" | "pc" | "pulled" | "mark" | "pulls" | "qm" | "qat") {
            c.verif_set_private(p);
        }
        if k == "cto" {
            // an injected copy is not the product of a pass: `bestq` right after it has no configured
            // window to be judged against (in the shell the override always follows a pass)
            self.last_cto = None;
        }
        if stall_key {
            // injected guard state: the ghost history no longer describes this link
            self.ghost[i] = Ghost::default();
            let p = self.links[i].verif_private();
            if p.silence_pulled {
                self.ghost[i].lr_at_pull = Some(p.silence_pull_heard_mark);
            }
            if p.stall_latched_since_ms != 0 && p.stall_recovery_since_ms != 0 {
                self.ghost[i].fresh_run_start = Some(p.stall_recovery_since_ms);
            }
        }
        Some(())
    }

    /// `aux`: fields of the real connection that the model's `SLink` does not have.  They make the
    /// C12 frame non-trivial (non-default values that a routing call could clobber) and, through the
    /// correspondence, show that the real selectors do not read them (the model ignores the op).
    fn set_aux(&mut self, i: usize, k: &str, v: &str) -> Option<()> {
        let c = self.links.get_mut(i)?;
        let opt_u64 = |v: &str| -> Option<Option<u64>> { if v == "-" { Some(None) } else { v.parse().ok().map(Some) } };
        let b = |v: &str| -> Option<bool> {
            match v {
                "1" => Some(true),
                "0" => Some(false),
                _ => None,
            }
        };
        let f = |v: &str| -> Option<f64> { v.parse::<u64>().ok().map(f64::from_bits) };
        match k {
            "ka" => c.verif_set_last_keepalive_sent(opt_u64(v)?),
            "log" => {
                let n: u32 = v.parse().ok()?;
                c.packet_log.clear();
                for j in 0..n.min(256) {
                    c.packet_log.insert(1000 + j as i32, 5 + j as u64);
                }
            }
            "hack" => c.highest_acked_seq = v.parse().ok()?,
            "cbo" => c.cc_backing_off = b(v)?,
            "fr" => c.congestion.fast_recovery_mode = b(v)?,
            "frs" => c.congestion.fast_recovery_start_ms = v.parse().ok()?,
            "lwi" => c.congestion.last_window_increase_ms = v.parse().ok()?,
            "cack" => c.congestion.consecutive_acks_without_nak = v.parse().ok()?,
            "nbs" => c.congestion.nak_burst_start_time_ms = v.parse().ok()?,
            "jit" => c.rtt.rtt_jitter_ms = f(v)?,
            "wka" => c.rtt.waiting_for_keepalive_response = b(v)?,
            "lks" => c.rtt.last_keepalive_sent_ms = v.parse().ok()?,
            "lrm" => c.rtt.last_rtt_measurement_ms = v.parse().ok()?,
            "rmf" => c.rtt.rtt_min_fast_ms = f(v)?,
            "rms" => c.rtt.rtt_min_slow_ms = f(v)?,
            "lra" => c.reconnection.last_reconnect_attempt_ms = v.parse().ok()?,
            "rfc" => c.reconnection.reconnect_failure_count = v.parse().ok()?,
            "bst" => c.bitrate.bytes_sent_total = v.parse().ok()?,
            "bsw" => c.bitrate.bytes_sent_window = v.parse().ok()?,
            "lru" => c.bitrate.last_rate_update_ms = v.parse().ok()?,
            "regime" => c.batch_sender.set_regime(match v {
                "0" => BatchRegime::LowActivity,
                "1" => BatchRegime::Normal,
                "2" => BatchRegime::HighLoad,
                _ => return None,
            }),
            _ => return None,
        }
        Some(())
    }

    fn snap(&self) -> Snap {
        Snap {
            frames: self.links.iter().map(frame).collect(),
            privs: self.links.iter().map(|c| c.verif_private()).collect(),
            lr: self.links.iter().map(|c| c.last_received).collect(),
        }
    }

    /// Preconditions under which C03/C04/C11 quantify (the property's stated domain).
    fn in_domain(&self) -> bool {
        self.links.iter().all(|c| {
            let q = c.verif_private().quality_multiplier;
            (1000..=60000).contains(&c.window)
                && c.in_flight_packets >= 0
                && q.is_finite()
                && (0.35..=1.1 * 1.03 + 1e-9).contains(&q)
                && c.bitrate.current_bitrate_bps.is_finite()
                && c.bitrate.current_bitrate_bps >= 0.0
        })
    }

    /// Real select + all per-select monitors. Returns the decision.
    fn do_select(&mut self, last: Option<usize>, now: u64, cfg: &ConfigSnapshot, mon: &mut Mon, op: &str) -> Option<usize> {
        let s = self.snap();
        // C12 "off means baseline": with the guard off, the same decision on a history-free clone
        let mut base: Option<Vec<SrtlaConnection>> = if !cfg.stall_deselect {
            let v: Vec<SrtlaConnection> = self.links.iter().map(history_free_clone).collect();
            for (i, d) in v.iter().enumerate() {
                let df = frame_diff(&s.frames[i], &frame(d));
                if !df.is_empty() {
                    mon.fail("C12", "harness-clone-infidelity", format!("history-free clone of link {i} differs from the original: {df:?}"));
                }
            }
            Some(v)
        } else {
            None
        };
        let res = select_connection_idx(&mut self.links, last, now, cfg);
        if let Some(b) = base.as_mut() {
            let rb = select_connection_idx(b, last, now, cfg);
            mon.count("off-baseline-checked");
            if s.privs.iter().any(has_stall_history) {
                mon.count("off-baseline-checked-with-history");
            }
            if rb != res {
                mon.fail(
                    "C12",
                    "off-differs-from-baseline",
                    format!("guard off: decision {res:?} on links with stall history {:?}, but {rb:?} on the same links with no stall history ({op})", s.privs),
                );
            }
        }
        self.after_pass(&s, Some((last, res)), now, cfg, mon, op);
        res
    }

    /// Monitors after a pass of the real code.  `decision` = `(last, result)` of a selection, `None`
    /// for a bare `apply_stall_gate` pass.
    fn after_pass(&mut self, s: &Snap, decision: Option<(Option<usize>, Option<usize>)>, now: u64, cfg: &ConfigSnapshot, mon: &mut Mon, op: &str) {
        let n = self.links.len();
        let before_priv = &s.privs;
        let before_lr = &s.lr;
        let domain = self.in_domain();
        // "timed out" is judged against the CONFIGURED liveness window of this pass, not against the
        // link's cached copy (which the pass is supposed to have refreshed, see `timeout-copy-not-refreshed`)
        let cto = cfg.conn_timeout_ms;
        self.last_cto = Some(cto);
        if now < self.max_now {
            self.clock_monotone = false;
            mon.count("clock-went-backwards");
        }
        self.max_now = self.max_now.max(now);

        // ---- C12: routing never touches liveness / accounting; guard off clears everything
        for i in 0..n {
            let df = frame_diff(&s.frames[i], &frame(&self.links[i]));
            if !df.is_empty() {
                mon.fail("C12", "frame", format!("routing changed non-guard state of link {i}: {df:?} ({op})"));
            }
            let p = self.links[i].verif_private();
            if !cfg.stall_deselect && (p.stall_gated || p.silence_pulled || p.stall_latched_since_ms != 0 || p.stall_recovery_since_ms != 0) {
                mon.fail("C12", "off-not-cleared", format!("guard off but link {i} keeps stall state {p:?}"));
            }
            if p.stall_gate_events < before_priv[i].stall_gate_events || p.silence_pulls < before_priv[i].silence_pulls {
                mon.fail("C12", "counter-decreased", format!("stall counters of link {i} went backwards"));
            }
        }

        // ---- C04 (mechanism behind "not timed out"): every pass, guard on or off, refreshes each link's
        // cached liveness window from the configuration (clause (a) of C08_timeout_copy)
        for i in 0..n {
            let copy = self.links[i].verif_private().conn_timeout_ms;
            if copy != cto {
                mon.fail(
                    "C04",
                    "timeout-copy-not-refreshed",
                    format!("after the pass link {i} caches conn_timeout_ms={copy} (before the pass: {}) but the configuration says {cto} (guard {}) ({op})", before_priv[i].conn_timeout_ms, if cfg.stall_deselect { "on" } else { "off" }),
                );
            }
            if before_priv[i].conn_timeout_ms != cto {
                mon.count(if cfg.stall_deselect { "timeout-copy-differed-guard-on" } else { "timeout-copy-differed-guard-off" });
                // silence age strictly between the stale copy and the configured window: the two disagree
                if let (true, Some(lr)) = (self.links[i].connected, self.links[i].last_received) {
                    let age = now.saturating_sub(lr);
                    let (lo, hi) = (cto.min(before_priv[i].conn_timeout_ms), cto.max(before_priv[i].conn_timeout_ms));
                    if lo <= age && age < hi {
                        mon.count(if cto < before_priv[i].conn_timeout_ms { "timeout-copy-stale-says-alive" } else { "timeout-copy-stale-says-dead" });
                    }
                }
            }
        }

        // ---- C13 rotation: a latched / pulled link is out of rotation while a healthy link exists
        if cfg.stall_deselect {
            let healthy: Vec<usize> = (0..n)
                .filter(|j| {
                    let c = &self.links[*j];
                    let p = c.verif_private();
                    c.connected && !timed_out_oracle(c, now, cto) && c.is_schedulable() && p.stall_latched_since_ms == 0 && !p.silence_pulled
                })
                .collect();
            for i in 0..n {
                let p = self.links[i].verif_private();
                let held = p.stall_latched_since_ms != 0 || p.silence_pulled;
                if !held {
                    continue;
                }
                if healthy.is_empty() {
                    // the exception C03 requires: with no healthy alternative the held link stays eligible
                    mon.count("held-without-healthy-alternative");
                    continue;
                }
                mon.count("held-next-to-healthy");
                if !self.links[i].stall_gated {
                    mon.fail("C13", "held-not-gated", format!("link {i} is latched/pulled ({p:?}) while links {healthy:?} are healthy, but it is not stall-gated ({op})"));
                }
                if let Some((_, Some(r))) = decision {
                    if r == i {
                        mon.fail("C13", "held-in-rotation", format!("link {i} is latched/pulled ({p:?}) while links {healthy:?} are healthy, and was selected ({op})"));
                    }
                }
            }
        }

        if let Some((last, res)) = decision {
        // ---- C03 / C04
        let usable: Vec<usize> = (0..n)
            .filter(|i| {
                let c = &self.links[*i];
                c.is_schedulable() && c.connected && !timed_out_oracle(c, now, cto)
            })
            .collect();
        if domain {
            if !usable.is_empty() && res.is_none() {
                mon.fail("C03", "blackout", format!("usable links {usable:?} but select returned None ({op})"));
            }
            if !usable.is_empty() {
                mon.count("usable-exists");
                mon.nontrivial();
            }
            if let Some(r) = res {
                match self.links.get(r) {
                    None => mon.fail("C04", "out-of-range", format!("select returned index {r} of {n}")),
                    Some(c) => {
                        if !c.is_schedulable() || timed_out_oracle(c, now, cto) || c.stall_gated || !c.connected {
                            mon.fail(
                                "C04",
                                "ineligible-selected",
                                format!("select chose link {r}: schedulable={} timed_out(configured {cto})={} gated={} connected={} last_received={:?} ({op})", c.is_schedulable(), timed_out_oracle(c, now, cto), c.stall_gated, c.connected, c.last_received),
                            );
                        }
                    }
                }
            }
            // a gated link exists only next to a healthy alternative
            let any_gated = self.links.iter().any(|c| c.stall_gated);
            if any_gated {
                mon.count("some-link-gated");
                let alt = self.links.iter().any(|c| {
                    let p = c.verif_private();
                    c.connected && c.is_schedulable() && !timed_out_oracle(c, now, cto) && p.stall_latched_since_ms == 0 && !p.silence_pulled
                });
                if !alt {
                    mon.fail("C03", "gated-without-alternative", format!("a link is stall-gated but no healthy alternative exists ({op})"));
                }
            }
        }

        // ---- C11 (enhanced only): independent recomputation of the score table
        if domain && cfg.mode == SchedulingMode::Enhanced {
            let quality = cfg.quality_enabled;
            let any_unc = self.links.iter().any(|c| {
                c.connected && !timed_out_oracle(c, now, cto) && c.is_schedulable() && !c.weak && !c.loss_degraded && !c.stall_gated && !in_flight_cap_exceeded(c)
            });
            let mut scored: Vec<Option<f64>> = Vec::with_capacity(n);
            for c in &self.links {
                let skipped = timed_out_oracle(c, now, cto) || !c.is_schedulable() || c.stall_gated || !c.connected || (any_unc && in_flight_cap_exceeded(c));
                if skipped {
                    scored.push(None);
                    continue;
                }
                let gate = if any_unc && (c.weak || c.loss_degraded) { 0.02 } else { 1.0 };
                let weight = match c.phase {
                    LinkPhase::Registering => 0.0,
                    LinkPhase::Warming { .. } => 0.8,
                    _ => 1.0,
                };
                let base = c.get_score() as f64 * weight;
                let cap = selhooks::cc_soft_cap_multiplier(c);
                if !(0.1..=1.0).contains(&cap) {
                    mon.fail("C11", "softcap-range", format!("soft-cap factor {cap} outside [0.1,1]"));
                }
                let s = if quality {
                    let q = c.verif_private().quality_multiplier; // refreshed by the pass for scored links
                    if !(0.35..=1.1 * 1.03 + 1e-12).contains(&q) || !q.is_finite() {
                        mon.fail("C11", "quality-range", format!("quality multiplier {q} outside [0.35, 1.133]"));
                    }
                    base * q * cap * gate
                } else {
                    base * cap * gate
                };
                if !s.is_finite() {
                    mon.fail("C11", "score-not-finite", format!("score {s}"));
                }
                scored.push(Some(s));
            }
            if let Some(r) = res {
                if any_unc && in_flight_cap_exceeded(&self.links[r]) {
                    mon.fail("C11", "capped-selected", format!("link {r} is over its in-flight cap while an unconstrained link exists ({op})"));
                }
                if scored.get(r).copied().flatten().is_none() {
                    mon.fail("C11", "unscored-selected", format!("link {r} was skipped by the scoring rules but selected ({op})"));
                }
            }
            if let Some(l) = last {
                if res != Some(l) {
                    if let Some(Some(sl)) = scored.get(l) {
                        mon.count("left-scored-last");
                        mon.nontrivial();
                        let better = scored.iter().flatten().any(|s| *s >= *sl * 1.10);
                        if !better {
                            mon.fail(
                                "C11",
                                "left-without-10pct",
                                format!("left previously selected link {l} (score {sl}) for {res:?} but no link scores >= 1.10x it; scores {scored:?} ({op})"),
                            );
                        }
                    }
                } else {
                    mon.count("stayed-on-last");
                    // "competes at 2% / 80% of its score": a held link whose score carries a gate or
                    // warming factor must lose the hysteresis comparison on that factored score.
                    let c = &self.links[l];
                    let factored = (any_unc && (c.weak || c.loss_degraded)) || matches!(c.phase, LinkPhase::Warming { .. });
                    if let (true, Some(Some(sl))) = (factored, scored.get(l)) {
                        mon.count("stayed-on-factored-last");
                        let best_other = scored
                            .iter()
                            .enumerate()
                            .filter(|(i, _)| *i != l)
                            .filter_map(|(_, s)| *s)
                            .fold(f64::NEG_INFINITY, f64::max);
                        if best_other > *sl && best_other >= *sl * 1.10 {
                            mon.fail(
                                "C11",
                                "factor-not-applied-to-held-link",
                                format!("stayed on link {l} (weak={} loss_degraded={} phase={:?}, factored score {sl}) although another link scores {best_other} >= 1.10x that; scores {scored:?} ({op})", c.weak, c.loss_degraded, c.phase),
                            );
                        }
                    }
                }
            }
        }

        } // decision monitors

        // ---- C13: temporal monitors with ghost history
        let ceil = cfg.stall_ack_stale_ms;
        for i in 0..n {
            let c = &self.links[i];
            let p = c.verif_private();
            let b = &before_priv[i];
            let win = eff_window(c, ceil);
            let proof = c.last_ack_or_rtt_sample_ms;
            if !cfg.stall_deselect {
                self.ghost[i] = Ghost::default();
                continue;
            }
            // C13 quantifies over TIMED traces: a monotone clock, and stamps taken from that clock
            // (never in the future of `now`).  Outside that domain the checks still run but are only
            // counted (`c13-ood:<sig>`), never reported as violations.
            let stamps_ok = proof <= now
                && before_lr[i].is_none_or(|x| x <= now)
                && b.stall_latched_since_ms <= now
                && b.stall_recovery_since_ms <= now
                && b.silence_pull_heard_mark.is_none_or(|x| x <= now);
            let dom13 = self.clock_monotone && stamps_ok;
            if !dom13 {
                mon.count("c13-out-of-domain-link-pass");
            }
            let fail13 = |mon: &mut Mon, sig: &str, desc: String| {
                if dom13 {
                    mon.fail("C13", sig, desc);
                } else {
                    mon.count(&format!("c13-ood:{sig}"));
                }
            };
            // engage
            if b.stall_latched_since_ms == 0 && p.stall_latched_since_ms != 0 {
                mon.count("latch-engaged");
                mon.nontrivial();
                let age_ok = proof != 0 && now.saturating_sub(proof) >= win;
                let load_ok = c.in_flight_packets >= cfg.stall_min_in_flight || p.silence_pulled;
                // `C13_engage_only_if_pass`: the link is connected in every engaging pass (a pull that
                // survives the pull update of the pass belongs to a connected link)
                if !c.connected || !age_ok || !load_ok {
                    fail13(
                        mon,
                        "latch-engaged-illegally",
                        format!("link {i} latched at {now}: connected={} proof={proof} window={win} in_flight={} min={} pulled={} ({op})", c.connected, c.in_flight_packets, cfg.stall_min_in_flight, p.silence_pulled),
                    );
                }
                if proof == 0 {
                    fail13(mon, "never-proved-latched", format!("link {i} latched without ever producing delivery proof"));
                }
                if p.silence_pulled && c.in_flight_packets < cfg.stall_min_in_flight {
                    mon.count("latch-engaged-by-pull-escalation");
                }
                self.ghost[i].fresh_run_start = None;
            }
            // ghost run of fresh proof while latched (before looking at a release)
            let was_latched = b.stall_latched_since_ms != 0;
            if was_latched {
                let fresh = proof != 0 && now.saturating_sub(proof) < win;
                if fresh {
                    if self.ghost[i].fresh_run_start.is_none() {
                        self.ghost[i].fresh_run_start = Some(now);
                    }
                } else {
                    self.ghost[i].fresh_run_start = None;
                }
            }
            // release
            if was_latched && p.stall_latched_since_ms == 0 {
                mon.count("latch-released");
                mon.nontrivial();
                let dwell = win.saturating_mul(2);
                match self.ghost[i].fresh_run_start {
                    Some(t0) if now.saturating_sub(t0) >= dwell => {}
                    other => fail13(
                        mon,
                        "latch-released-early",
                        format!("link {i} un-latched at {now}: fresh-proof run start {other:?}, window {win} (needs >= {dwell} of continuous fresh proof) ({op})"),
                    ),
                }
                self.ghost[i].fresh_run_start = None;
            }
            // silence pull
            if !b.silence_pulled && p.silence_pulled {
                mon.count("pull-engaged");
                self.ghost[i].lr_at_pull = Some(before_lr[i]);
            }
            if b.silence_pulled && !p.silence_pulled {
                mon.count("pull-released");
                mon.nontrivial();
                let heard = match self.ghost[i].lr_at_pull {
                    Some(at) => c.last_received != at,
                    None => true,
                };
                if !heard && c.connected {
                    fail13(mon, "pull-released-unheard", format!("link {i}: silence pull released at {now} but last_received {:?} never moved and the link is connected ({op})", c.last_received));
                }
                self.ghost[i].lr_at_pull = None;
            }
        }
    }
}

fn f64_bits(x: f64) -> u64 {
    fb(x)
}

/// The model's `score` divides with Lean's `Int./` (floor), Rust's `i32 /` truncates: they differ on
/// NEGATIVE windows (never reachable: windows live in 1000..=60000).  Recorded as a finding about the
/// model in `corpus/sel/neg-window.ops.out-of-domain`; kept out of the generated stream until the
/// model uses `Int.tdiv`.
const NEG_WINDOWS_IN_STREAM: bool = false;

const NAN_BITS: u64 = 0x7ff8_0000_0000_0001; // a NaN with a payload: printing must canonicalise it

/// Generator-side description of a case class.
#[derive(Clone, Copy)]
struct Class {
    /// out-of-domain values allowed (windows outside 1000..=60000, negative in-flight, NaN / out-of-range
    /// quality cache, NaN / negative measured bitrate, negative NAK counters): correspondence only
    wild: bool,
    /// stamps in the future of `now`, clock going backwards: C13 monitors only count there
    wild_time: bool,
}

fn gen_cfg(rng: &mut Rng, k: Class) -> String {
    gen_cfg_with(rng, k, None, None)
}

/// The liveness windows used for timeout-copy skew: (configured window, stale cached copy).
const CTO_SKEW: [(u64, u64); 10] = [(2000, 5000), (5000, 12000), (1000, 5000), (2500, 5000), (5000, 60000), (5000, 2000), (12000, 5000), (5000, 1000), (60000, 5000), (30000, 1000)];

fn gen_cfg_with(rng: &mut Rng, k: Class, force_cto: Option<u64>, force_stall: Option<bool>) -> String {
    let minif: i64 = if rng.chance(1, 4) {
        *rng.pick(&[0i64, -1, -5, 1, 8, 100, i32::MIN as i64, i32::MAX as i64])
    } else {
        32
    };
    let ceil: u64 = if rng.chance(1, 2) {
        3000
    } else if k.wild && rng.chance(1, 8) {
        u64::MAX
    } else {
        *rng.pick(&[0u64, 1, 500, 999, 1000, 1001, 3000, 10000, 60000])
    };
    let cto: u64 = if rng.chance(1, 2) {
        5000
    } else if k.wild && rng.chance(1, 8) {
        *rng.pick(&[1u64, u64::MAX])
    } else {
        *rng.pick(&[0u64, 1000, 1000, 2500, 5000, 30000, 60000, 60000])
    };
    let cto = force_cto.unwrap_or(cto);
    let stall = force_stall.unwrap_or_else(|| rng.chance(4, 5));
    format!(
        "classic={} quality={} stall={} minif={minif} ceil={ceil} cto={cto}",
        if rng.chance(1, 3) { 1 } else { 0 },
        rng.below(2),
        if stall { 1 } else { 0 },
    )
}

fn gen_window(rng: &mut Rng, k: Class) -> i64 {
    if k.wild && rng.chance(1, 3) {
        if NEG_WINDOWS_IN_STREAM && rng.chance(1, 3) {
            return *rng.pick(&[-1i64, -5, -1000, i32::MIN as i64]);
        }
        return *rng.pick(&[0i64, 1, 999, 60001, 100_000, i32::MAX as i64]);
    }
    match rng.below(7) {
        0 => 1000,
        1 => 60000,
        2 => *rng.pick(&[1001i64, 1029, 1999, 2000, 12000, 59971, 59999]),
        3 | 4 => 1000 + rng.below(59001) as i64, // off the +29/+1/-100 grid
        _ => 20000,
    }
}

fn gen_inf(rng: &mut Rng, k: Class) -> i64 {
    if k.wild && rng.chance(1, 4) {
        return *rng.pick(&[-1i64, -5, -33, i32::MIN as i64]);
    }
    if rng.chance(1, 10) {
        // `in_flight + queued + 1` on the saturating_add path
        return *rng.pick(&[i32::MAX as i64, i32::MAX as i64 - 1, i32::MAX as i64 - 15, i32::MAX as i64 - 16, i32::MAX as i64 - 40, 1 << 30]);
    }
    *rng.pick(&[0i64, 0, 1, 5, 31, 32, 33, 64, 200, 20000])
}

fn gen_q(rng: &mut Rng) -> u32 {
    if rng.chance(1, 5) { *rng.pick(&[16u32, 17, 31, 32, 33, 40, 100]) } else { *rng.pick(&[0u32, 0, 0, 1, 3, 15]) }
}

/// A stamp `back` ms before `now`; in wild-time cases sometimes AFTER `now`.
fn stamp_fn(rng: &mut Rng, k: Class, now: u64, back: u64) -> u64 {
    if k.wild_time && rng.chance(1, 4) {
        now.saturating_add(*rng.pick(&[1u64, 249, 1000, 5000, 100_000]))
    } else {
        now.saturating_sub(back)
    }
}

fn gen_srtt(rng: &mut Rng) -> f64 {
    if rng.chance(1, 8) {
        // ignored by the Kalman filter (non-finite), clamped (negative), or huge (`as u64` saturates,
        // `saturating_mul(4)` saturates)
        return *rng.pick(&[f64::NAN, f64::INFINITY, f64::NEG_INFINITY, -3.0, -0.0, 1e19, 9223372036854775808.0, 18446744073709551616.0, 4.7e18, 1e300, 5e-324]);
    }
    *rng.pick(&[0.0, 0.0, 0.4, 0.99, 20.0, 49.0, 50.0, 62.0, 62.5, 124.99, 125.0, 200.0, 249.99, 250.0, 250.5, 400.0, 750.0, 2000.0, 15000.0])
}

fn gen_rttmin(rng: &mut Rng) -> u64 {
    if rng.chance(1, 6) {
        let x: f64 = *rng.pick(&[f64::NEG_INFINITY, -5.0, -0.0, 5e-324, 1e-300, 1e300, 9223372036854775808.0]);
        return if rng.chance(1, 4) { NAN_BITS } else { f64_bits(x) };
    }
    f64_bits(*rng.pick(&[200.0, 20.0, 50.0, 0.0, 0.5, 600.0, f64::INFINITY]))
}

fn gen_cct(rng: &mut Rng) -> u64 {
    if rng.chance(1, 4) {
        // tiny (cap floors at 1) and huge (cap >= 2^31, `u64 as f64` rounding above 2^53)
        return *rng.pick(&[1u64, 7, 100_000_000_000_000, 10_000_000_000_000_000, (1 << 53) + 1, 1 << 63, (1 << 63) + 1025, u64::MAX - 1024, u64::MAX]);
    }
    *rng.pick(&[100_000u64, 1_000_000, 5_000_000, 200_000_000])
}

fn gen_br(rng: &mut Rng, k: Class, cct: u64) -> u64 {
    if k.wild && rng.chance(1, 3) {
        let x: f64 = *rng.pick(&[f64::INFINITY, f64::NEG_INFINITY, -1.0, -0.0, 1e300]);
        return if rng.chance(1, 4) { NAN_BITS } else { f64_bits(x) };
    }
    let frac = *rng.pick(&[0.0, 0.5, 0.89, 0.9, 0.91, 1.0, 1.7]);
    f64_bits(cct as f64 * frac)
}

fn gen_qm(rng: &mut Rng, k: Class) -> u64 {
    if k.wild && rng.chance(1, 3) {
        let x: f64 = *rng.pick(&[f64::INFINITY, f64::NEG_INFINITY, -1.0, 0.0, 0.34, 1.2, 1e300]);
        return if rng.chance(1, 4) { NAN_BITS } else { f64_bits(x) };
    }
    f64_bits(*rng.pick(&[0.35, 0.5, 0.98, 1.0, 1.1, 1.133]))
}

fn gen_aux(rng: &mut Rng, i: usize, now: u64) -> String {
    let mut s = format!("aux {i}");
    let all: [&dyn Fn(&mut Rng) -> String; 12] = [
        &|r| format!("ka={}", if r.chance(1, 5) { "-".to_string() } else { now.saturating_sub(r.below(2000)).to_string() }),
        &|r| format!("log={} hack={}", r.below(40), r.pick(&[i32::MIN as i64, -7, 0, 999, 1005])),
        &|r| format!("cbo={}", r.below(2)),
        &|r| format!("fr={} frs={}", r.below(2), now.saturating_sub(r.below(3000))),
        &|r| format!("lwi={} cack={}", now.saturating_sub(r.below(3000)), r.pick(&[0i64, 3, 4, 100, -2])),
        &|r| format!("nbs={}", now.saturating_sub(r.below(3000))),
        &|r| format!("jit={} rmf={} rms={}", f64_bits(*r.pick(&[0.0, 3.5, 80.0])), f64_bits(*r.pick(&[20.0, 200.0])), f64_bits(*r.pick(&[20.0, 60.0, 200.0]))),
        &|r| format!("wka={} lks={} lrm={}", r.below(2), now.saturating_sub(r.below(1500)), now.saturating_sub(r.below(5000))),
        &|r| format!("lra={} rfc={}", now.saturating_sub(r.below(20000)), r.below(7)),
        &|r| format!("bst={} bsw={}", 100_000 + r.below(1_000_000), r.below(100_000)),
        &|r| format!("lru={}", now.saturating_sub(r.below(2500))),
        &|r| format!("regime={}", r.below(3)),
    ];
    for f in all.iter() {
        if rng.chance(1, 2) {
            s += " ";
            s += &f(rng);
        }
    }
    s
}

/// `stamp_fn` with the `back` argument evaluated first (it usually draws from `rng` too).
macro_rules! stamp {
    ($rng:expr, $k:expr, $now:expr, $back:expr) => {{
        let b = $back;
        stamp_fn($rng, $k, $now, b)
    }};
}

impl Component for Sel {
    fn rule(&self) -> &'static str {
        "sel: (A) state-injection cases: 0-4 real SrtlaConnections with every selection-relevant field injected \
         (phase x connected x timed-out x latched x pulled x weak x loss-degraded x capped x never-proved x \
         warming; windows at 1000 / 60000, on and off the C06 grid; in-flight + queued up to the i32 \
         saturating_add path, queued 0..100; NAK ages/bursts around 3000/30000 ms; RTT none / 0.4..15000 ms / \
         NaN / +-inf / negative / >= 2^63; rtt_min NaN / +-inf / negative / denormal / huge; CC target 1 .. u64::MAX \
         (in-flight cap >= 2^31) vs measured bitrate; quality cache fresh/stale), `aux` injection of the fields \
         the model does not have (keepalive stamp, packet log, CC/RTT/reconnect/bitrate bookkeeping, batch \
         regime), then `factors`, `select2` (decision, idempotence, stability), `bestq`, `gate`+`classic`, \
         `offbase` (guard-off decision vs history-free clone); every mode / quality / guard setting, minif in \
         {i32::MIN..i32::MAX incl. <= 0}, ceiling in {0,1,500,999,1000,1001,3000,10000,60000}, timeout in \
         {0,1000,2500,5000,30000,60000}, per-link cached timeout copies that differ from the configured one \
         (2000 vs 5000, 5000 vs 12000, ... both directions) with silence ages between the two, guard on and off, every previous index incl. out of range. 1 case in 5 is WILD \
         (windows outside 1000..=60000, negative in-flight, NaN / out-of-range quality cache, NaN / negative \
         bitrate, negative NAK counters, now near 0 or 2^63: correspondence only, C03/C04/C11 monitors off by \
         the `domain` flag), 1 in 5 has stamps in the future of `now` and a clock that goes backwards (C13 \
         temporal monitors only count there). (B) timed traces of 20-80 selects (thorough: up to 120) with \
         in-flight / window / queue changes, inbound bytes, earned proof, RTT changes, phase / weak / cap \
         changes, mid-trace injection of latch / pull / gated flags, guard toggles and `offbase`, at times on \
         the {window-1, window, 2*window-1, 2*window} grid. Non-trivial: a usable link exists, or a latch/pull \
         engaged or released, or selection left a scored previous link, or `offbase` ran on links with stall history."
    }

    fn gen_case(&mut self, rng: &mut Rng, tier: Tier, idx: usize) -> Vec<String> {
        let k = Class { wild: rng.chance(1, 5), wild_time: rng.chance(1, 5) };
        let n = if rng.chance(1, 40) { 0 } else { rng.range(1, 4) as usize };
        let t0: u64 = if k.wild && rng.chance(1, 6) {
            *rng.pick(&[0u64, 1, 40, 2500, 1 << 63, u64::MAX - 200_000])
        } else {
            rng.time_base(1_000_000, 100_000)
        };
        let mut ops = vec![format!("new {n} {t0}")];
        let pick_last = |rng: &mut Rng| -> String {
            if rng.chance(1, 4) { "-".to_string() } else { format!("{}", rng.below(n as u64 + 1)) }
        };
        if idx % 2 == 0 {
            // ---------- (A) injection
            let now = t0.saturating_add(rng.below(60_000));
            for i in 0..n {
                let mut s = format!("set {i}");
                let ph = match rng.below(8) {
                    0 => "reg".to_string(),
                    1 => format!("warm:{}:{}", rng.below(2), stamp!(rng, k, now, rng.below(6000))),
                    2 => "deg".into(),
                    _ => "live".into(),
                };
                s += &format!(" ph={ph} c={}", if rng.chance(5, 6) { 1 } else { 0 });
                s += &format!(" w={}", gen_window(rng, k));
                s += &format!(" inf={} q={}", gen_inf(rng, k), gen_q(rng));
                // receive age versus timeout
                let lr = match rng.below(9) {
                    0 => "-".to_string(),
                    1 => format!("{}", now.saturating_sub(4999)),
                    2 => format!("{}", now.saturating_sub(5000)),
                    3 => format!("{}", now.saturating_sub(60000)),
                    4 => format!("{}", now.saturating_sub(250)),
                    5 => format!("{}", stamp!(rng, k, now, *rng.pick(&[999u64, 1000, 2499, 2500, 29_999, 30_000, 59_999]))),
                    _ => format!("{}", stamp!(rng, k, now, rng.below(900))),
                };
                s += &format!(" lr={lr}");
                if rng.chance(1, 3) {
                    s += &format!(" ls={}", if rng.chance(1, 4) { "-".to_string() } else { now.saturating_sub(rng.below(3000)).to_string() });
                }
                let est = match rng.below(6) {
                    0 => 0,
                    1 => now.saturating_sub(29_999),
                    2 => now.saturating_sub(30_000),
                    3 => stamp!(rng, k, now, 35_000),
                    _ => now.saturating_sub(40_000 + rng.below(10_000)),
                };
                let grace = match rng.below(6) {
                    0 => now.saturating_add(1000),
                    1 => now,
                    2 => now.saturating_add(1),
                    3 => 0,
                    _ => t0,
                };
                s += &format!(" est={est} grace={grace}");
                // delivery proof age
                let proof = match rng.below(8) {
                    0 => 0,
                    1 => now.saturating_sub(2999),
                    2 => now.saturating_sub(3000),
                    3 => now.saturating_sub(999),
                    4 => now.saturating_sub(1000),
                    5 => stamp!(rng, k, now, *rng.pick(&[1u64, 499, 500, 1001, 9999, 10_000, 59_999, 60_000])),
                    _ => stamp!(rng, k, now, rng.below(500)),
                };
                s += &format!(" proof={proof}");
                // stall history
                if rng.chance(1, 3) {
                    let lat = stamp!(rng, k, now, rng.below(8000) + 1);
                    s += &format!(" lat={lat}");
                    if rng.chance(1, 2) {
                        s += &format!(" rec={}", stamp!(rng, k, now, *rng.pick(&[1u64, 1999, 2000, 5999, 6000, 6001, 19_999, 20_000])));
                    }
                } else if rng.chance(1, 12) {
                    // a recovery stamp without a latch (ignored by the code)
                    s += &format!(" rec={}", now.saturating_sub(100));
                }
                if rng.chance(1, 4) {
                    s += &format!(" pulled=1 mark={}", if rng.chance(1, 2) { lr.clone() } else { format!("{}", stamp!(rng, k, now, 7000)) });
                }
                if rng.chance(1, 5) {
                    s += " gated=1";
                }
                if rng.chance(1, 6) {
                    s += &format!(" gev={} pulls={} pc={}", rng.below(5), rng.below(5), rng.below(50));
                }
                s += &format!(" weak={} ld={}", if rng.chance(1, 4) { 1 } else { 0 }, if rng.chance(1, 5) { 1 } else { 0 });
                // RTT
                s += &format!(" srtt={}", f64_bits(gen_srtt(rng)));
                s += &format!(" rttmin={}", gen_rttmin(rng));
                // CC target vs measured bitrate
                if rng.chance(1, 2) {
                    let cct = gen_cct(rng);
                    s += &format!(" cct={cct} br={}", gen_br(rng, k, cct));
                } else if k.wild && rng.chance(1, 4) {
                    s += &format!(" br={}", gen_br(rng, k, 1_000_000));
                }
                // quality inputs
                if rng.chance(1, 2) {
                    let lnak = stamp!(rng, k, now, *rng.pick(&[0u64, 1, 1000, 2999, 3000, 8000, 60_000]));
                    let nakc: i64 = if k.wild && rng.chance(1, 4) { *rng.pick(&[-1i64, i32::MIN as i64]) } else { rng.range(1, 9) as i64 };
                    let burst: i64 = if k.wild && rng.chance(1, 4) { *rng.pick(&[-3i64, i32::MIN as i64]) } else { *rng.pick(&[0i64, 2, 4, 5, 9, i32::MAX as i64]) };
                    s += &format!(" nakc={nakc} lnak={lnak} burst={burst}");
                } else if rng.chance(1, 6) {
                    s += " nakc=3";
                }
                // quality cache: default, fresh, stale, stamped in the future
                match rng.below(3) {
                    0 => {}
                    1 => s += &format!(" qm={} qat={}", gen_qm(rng, k), stamp!(rng, k, now, rng.below(49))),
                    _ => s += &format!(" qm={} qat={}", gen_qm(rng, k), now.saturating_sub(50 + rng.below(5000))),
                }
                ops.push(s);
                if rng.chance(1, 2) {
                    ops.push(gen_aux(rng, i, now));
                }
            }
            ops.push(format!("factors {now}"));
            if n > 0 && rng.chance(1, 4) {
                // timeout-copy skew: the links cache a liveness window that DIFFERS from the configured one
                // (larger and smaller) and have been silent for a time between the two, guard off and on:
                // the decision must follow the configured window (the pass refreshes the copy first)
                let (cfg_cto, copy) = *rng.pick(&CTO_SKEW);
                let (lo, hi) = (cfg_cto.min(copy), cfg_cto.max(copy));
                for i in 0..n {
                    if rng.chance(3, 4) {
                        let age = *rng.pick(&[lo, lo + 1, lo / 2 + hi / 2, hi - 1, hi, lo.saturating_sub(1)]);
                        ops.push(format!("set {i} cto={copy} lr={} c=1", now.saturating_sub(age)));
                    }
                }
                let stall = rng.chance(1, 2);
                ops.push(format!("select2 {} {now} {}", pick_last(rng), gen_cfg_with(rng, k, Some(cfg_cto), Some(stall))));
                ops.push(format!("bestq {now}"));
            }
            for _ in 0..rng.range(1, 3) {
                ops.push(format!("select2 {} {now} {}", pick_last(rng), gen_cfg(rng, k)));
                ops.push(format!("bestq {now}"));
            }
            if rng.chance(1, 4) {
                ops.push(format!("gate {now} {}", gen_cfg(rng, k)));
                ops.push(format!("classic {now}"));
                ops.push(format!("bestq {now}"));
            }
            if rng.chance(1, 2) {
                // re-inject a stall history, then the guard-off decision against the history-free clone
                if n > 0 && rng.chance(1, 2) {
                    let i = rng.below(n as u64);
                    ops.push(format!("set {i} lat={} rec={} pulled={} gated={}", now.saturating_sub(rng.below(5000) + 1), if rng.chance(1, 2) { 0 } else { now.saturating_sub(rng.below(3000)) }, rng.below(2), rng.below(2)));
                }
                ops.push(format!("offbase {} {now} {}", pick_last(rng), gen_cfg(rng, k)));
            }
        } else {
            // ---------- (B) timed trace
            let mut now = t0;
            let c = gen_cfg(rng, k);
            let ceil: u64 = kv_parse(&c.split(' ').collect::<Vec<_>>(), "ceil").unwrap_or(3000);
            let mut last: Option<u64> = None;
            for i in 0..n {
                let srtt: f64 = *rng.pick(&[0.0, 20.0, 100.0, 250.0, 500.0, 2000.0]);
                let mut s = format!("set {i} srtt={} proof={} est={}", f64_bits(srtt), t0, t0.saturating_sub(40_000));
                if rng.chance(1, 3) {
                    s += &format!(" w={} q={}", gen_window(rng, k), gen_q(rng));
                }
                ops.push(s);
                if rng.chance(1, 3) {
                    ops.push(gen_aux(rng, i, now));
                }
            }
            let steps = match tier {
                Tier::Quick => rng.range(20, 80),
                Tier::Thorough => rng.range(20, 120),
            };
            // links that keep hearing from the receiver (otherwise every link times out a few steps in
            // and the rest of the trace has no usable / healthy link)
            let alive: Vec<bool> = (0..n).map(|_| rng.chance(2, 3)).collect();
            for _ in 0..steps {
                let win = ceil.clamp(1, 100_000);
                let dt = match rng.below(11) {
                    0 => win - 1,
                    1 => win,
                    2 => 2 * win - 1,
                    3 => 2 * win,
                    4 => 249,
                    5 => 250,
                    6 => 999,
                    7 => 1000,
                    8 => *rng.pick(&[0u64, 1, 4999, 5000, 30_000, 60_000]),
                    _ => rng.below(400),
                };
                if k.wild_time && rng.chance(1, 8) {
                    // the clock goes backwards
                    now = now.saturating_sub(*rng.pick(&[1u64, 250, 1000, win, 5000, 2 * win]));
                } else {
                    now = now.saturating_add(dt);
                }
                for (j, a) in alive.iter().enumerate() {
                    if *a && rng.chance(1, 2) {
                        ops.push(format!("set {j} lr={now}"));
                    }
                }
                if n > 0 {
                    let i = rng.below(n as u64);
                    match rng.below(20) {
                        0 | 1 => ops.push(format!("set {i} inf={}", rng.pick(&[0, 10, 31, 32, 50, 200]))),
                        2 | 3 => ops.push(format!("set {i} lr={}", stamp!(rng, k, now, 0))),
                        4 | 5 | 6 => ops.push(format!("set {i} proof={now} lr={now}")),
                        7 => ops.push(format!("set {i} proof={}", stamp!(rng, k, now, *rng.pick(&[0u64, 1, 500, 999, 1000, 2999, 3000])))),
                        8 => ops.push(format!("set {i} srtt={}", f64_bits(*rng.pick(&[0.0, 20.0, 100.0, 250.0, 300.0, 800.0, 2000.0])))),
                        9 => ops.push(format!("set {i} c={}", rng.below(2))),
                        10 => ops.push(format!("set {i} w={} q={} inf={}", gen_window(rng, k), gen_q(rng), gen_inf(rng, k))),
                        11 => {
                            // mid-trace injection of guard fields
                            let s = match rng.below(6) {
                                0 => format!("lat={} rec=0", stamp!(rng, k, now, rng.below(4000) + 1)),
                                1 => format!("lat={} rec={}", stamp!(rng, k, now, 4000 + rng.below(4000)), stamp!(rng, k, now, *rng.pick(&[1u64, 999, 1999, 2000, 5999, 6000]))),
                                2 => format!("pulled=1 mark={}", if rng.chance(1, 2) { "-".to_string() } else { stamp!(rng, k, now, rng.below(3000)).to_string() }),
                                3 => "lat=0 rec=0 pulled=0 gated=0".to_string(),
                                4 => "gated=1".to_string(),
                                _ => format!("gev={} pulls={} pc={}", rng.below(9), rng.below(9), rng.below(50)),
                            };
                            ops.push(format!("set {i} {s}"));
                        }
                        12 => ops.push(format!("set {i} weak={} ld={}", rng.below(2), rng.below(2))),
                        13 => ops.push(format!(
                            "set {i} ph={}",
                            match rng.below(4) {
                                0 => "reg".to_string(),
                                1 => format!("warm:{}:{}", rng.below(2), now.saturating_sub(rng.below(6000))),
                                2 => "deg".into(),
                                _ => "live".into(),
                            }
                        )),
                        14 => {
                            let cct = gen_cct(rng);
                            ops.push(format!("set {i} cct={cct} br={} rttmin={}", gen_br(rng, k, cct), gen_rttmin(rng)));
                        }
                        15 => ops.push(gen_aux(rng, i as usize, now)),
                        16 => {
                            // stale timeout copy (differs from the trace's configured window) + a silence age
                            // between the two
                            let cfg_cto: u64 = kv_parse(&c.split(' ').collect::<Vec<_>>(), "cto").unwrap_or(5000);
                            let copy = *rng.pick(&[1000u64, 2000, 2500, 5000, 12000, 30000, 60000]);
                            let (lo, hi) = (cfg_cto.min(copy), cfg_cto.max(copy));
                            let age = *rng.pick(&[lo, lo / 2 + hi / 2, hi.saturating_sub(1), hi]);
                            ops.push(format!("set {i} cto={copy} lr={}", now.saturating_sub(age)));
                        }
                        _ => {}
                    }
                }
                let this_cfg = if rng.chance(1, 25) {
                    // guard toggle / threshold change
                    gen_cfg(rng, k)
                } else {
                    c.clone()
                };
                let l = match last {
                    Some(x) => x.to_string(),
                    None => "-".into(),
                };
                match rng.below(40) {
                    0 => ops.push(format!("offbase {l} {now} {this_cfg}")),
                    1 => {
                        ops.push(format!("gate {now} {this_cfg}"));
                        ops.push(format!("classic {now}"));
                    }
                    _ => ops.push(format!("select {l} {now} {this_cfg}")),
                }
                // the harness cannot know the decision at generation time; vary `last`
                last = if rng.chance(1, 6) { None } else { Some(rng.below(n as u64 + 1)) };
            }
        }
        ops
    }

    fn start_case(&mut self) {
        self.links.clear();
        self.ghost.clear();
        self.max_now = 0;
        self.clock_monotone = true;
        self.last_cto = None;
    }

    fn exec(&mut self, toks: &[&str], mon: &mut Mon) -> String {
        let op = toks.join(" ");
        match toks {
            ["new", n, now] => {
                let (Ok(n), Ok(now)) = (n.parse::<usize>(), now.parse::<u64>()) else { return "bad-op".into() };
                let mut v = self.rt.block_on(srtla_core::test_helpers::create_test_connections(n)).into_vec();
                for (i, c) in v.iter_mut().enumerate() {
                    c.conn_id = (i + 1) as u64;
                    c.last_received = Some(now);
                    c.reconnection.connection_established_ms = now;
                    c.reconnection.startup_grace_deadline_ms = now;
                }
                self.links = v;
                self.ghost = vec![Ghost::default(); n];
                self.show()
            }
            ["set", i, rest @ ..] => {
                let Ok(i) = i.parse::<usize>() else { return "bad-op".into() };
                if i >= self.links.len() {
                    return "bad-op".into();
                }
                for t in rest {
                    let Some((k, v)) = t.split_once('=') else { return "bad-op".into() };
                    if self.set_field(i, k, v).is_none() {
                        return "bad-op".into();
                    }
                }
                self.show()
            }
            ["select", last, now, rest @ ..] | ["select2", last, now, rest @ ..] => {
                let last: Option<usize> = if *last == "-" { None } else { match last.parse() { Ok(x) => Some(x), Err(_) => return "bad-op".into() } };
                let (Ok(now), Some(cfg)) = (now.parse::<u64>(), parse_cfg(rest)) else { return "bad-op".into() };
                let r1 = self.do_select(last, now, &cfg, mon, &op);
                if toks[0] == "select" {
                    return format!("res={} | {}", show_opt(r1), self.show());
                }
                // idempotence and stability (C11), in either mode
                let r2 = self.do_select(last, now, &cfg, mon, &op);
                let r3 = self.do_select(r1.or(last), now, &cfg, mon, &op);
                if self.in_domain() {
                    if r2 != r1 {
                        mon.fail("C11", "not-idempotent", format!("re-running selection on the unchanged state: {r1:?} then {r2:?} ({op})"));
                    }
                    if r1.is_some() && r3 != r1 {
                        mon.fail("C11", "not-stable", format!("selection with last := its own result {r1:?} returned {r3:?} ({op})"));
                    }
                }
                format!("res={} res2={} res3={} | {}", show_opt(r1), show_opt(r2), show_opt(r3), self.show())
            }
            ["aux", i, rest @ ..] => {
                let Ok(i) = i.parse::<usize>() else { return "bad-op".into() };
                if i >= self.links.len() {
                    return "bad-op".into();
                }
                for t in rest {
                    let Some((k, v)) = t.split_once('=') else { return "bad-op".into() };
                    if self.set_aux(i, k, v).is_none() {
                        return "bad-op".into();
                    }
                }
                mon.count("aux-injected");
                self.show()
            }
            ["offbase", last, now, rest @ ..] => {
                // C12 "off means baseline": two consecutive guard-off decisions on the current links
                // (with whatever stall history they carry) and on a history-free clone of them.
                let last: Option<usize> = if *last == "-" { None } else { match last.parse() { Ok(x) => Some(x), Err(_) => return "bad-op".into() } };
                let (Ok(now), Some(mut cfg)) = (now.parse::<u64>(), parse_cfg(rest)) else { return "bad-op".into() };
                cfg.stall_deselect = false;
                let hist: Vec<VerifPrivate> = self.links.iter().map(|c| c.verif_private()).collect();
                let mut base: Vec<SrtlaConnection> = self.links.iter().map(history_free_clone).collect();
                let r1 = self.do_select(last, now, &cfg, mon, &op);
                let b1 = select_connection_idx(&mut base, last, now, &cfg);
                let last2 = r1.or(last);
                let r2 = self.do_select(last2, now, &cfg, mon, &op);
                let b2 = select_connection_idx(&mut base, last2, now, &cfg);
                mon.count("offbase");
                if hist.iter().any(has_stall_history) {
                    mon.count("offbase-with-history");
                    mon.nontrivial();
                }
                if r1 != b1 || r2 != b2 {
                    mon.fail(
                        "C12",
                        "off-differs-from-baseline",
                        format!("guard off: decisions {r1:?},{r2:?} on links with stall history {hist:?} but {b1:?},{b2:?} on the same links with no stall history ({op})"),
                    );
                }
                format!("res={} base={} res2={} base2={} | {}", show_opt(r1), show_opt(b1), show_opt(r2), show_opt(b2), self.show())
            }
            ["gate", now, rest @ ..] => {
                let (Ok(now), Some(cfg)) = (now.parse::<u64>(), parse_cfg(rest)) else { return "bad-op".into() };
                let s = self.snap();
                selhooks::apply_stall_gate(&mut self.links, now, &cfg);
                self.after_pass(&s, None, now, &cfg, mon, &op);
                self.show()
            }
            ["classic", now] => {
                let Ok(now) = now.parse::<u64>() else { return "bad-op".into() };
                format!("res={}", show_opt(selhooks::classic_select(&self.links, now)))
            }
            ["bestq", now] => {
                let Ok(now) = now.parse::<u64>() else { return "bad-op".into() };
                let r = select_best_quality_eligible_idx(&self.links, now);
                if let Some(i) = r {
                    let c = &self.links[i];
                    // configured window of the preceding pass; before any pass the link's own copy
                    let cto = self.last_cto.unwrap_or(c.verif_private().conn_timeout_ms);
                    let to = timed_out_oracle(c, now, cto);
                    if !c.connected || !c.is_schedulable() || to || c.stall_gated {
                        mon.fail("C04", "override-ineligible", format!("best-quality override chose link {i}: connected={} schedulable={} timed_out(configured {cto})={to} gated={}", c.connected, c.is_schedulable(), c.stall_gated));
                    }
                    mon.count("override-some");
                }
                format!("res={}", show_opt(r))
            }
            ["factors", now] => {
                let Ok(now) = now.parse::<u64>() else { return "bad-op".into() };
                self.links
                    .iter()
                    .map(|c| {
                        let q = calculate_quality_multiplier(c, now);
                        let cap = selhooks::cc_soft_cap_multiplier(c);
                        if !(0.35..=1.1 * 1.03 + 1e-12).contains(&q) || !q.is_finite() {
                            mon.fail("C11", "quality-range", format!("quality multiplier {q} outside [0.35, 1.1*1.03]"));
                        }
                        if c.bitrate.current_bitrate_bps.is_finite() && c.bitrate.current_bitrate_bps >= 0.0 && !(0.1..=1.0).contains(&cap) {
                            mon.fail("C11", "softcap-range", format!("soft-cap factor {cap} outside [0.1,1]"));
                        }
                        format!(
                            "to={} sc={} q={} cap={} capx={} capn={}",
                            show_bool(c.is_timed_out(now)),
                            c.get_score(),
                            fb(q),
                            fb(cap),
                            show_bool(in_flight_cap_exceeded(c)),
                            show_opt(in_flight_cap_packets(c.cc_target_bps, c.get_rtt_min_ms()))
                        )
                    })
                    .collect::<Vec<_>>()
                    .join(" | ")
            }
            _ => "bad-op".into(),
        }
    }
}

fn main() {
    verif_harness::run_main("sel", Box::new(Sel::new()));
}
