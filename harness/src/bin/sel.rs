//! Component `sel`: state injection into REAL `SrtlaConnection`s and selection passes through the
//! real `select_connection_idx`, `apply_stall_gate`, classic selector and best-quality override
//! filter (C03, C04, C11, C12, C13).

use srtla_core::config_snapshot::ConfigSnapshot;
use srtla_core::connection::verif_hooks::VerifPrivate;
use srtla_core::connection::{LinkPhase, SrtlaConnection};
use srtla_core::mode::SchedulingMode;
use srtla_core::priority::select_best_quality_eligible_idx;
use srtla_core::selection::enhanced::{in_flight_cap_exceeded, in_flight_cap_packets};
use srtla_core::selection::verif_hooks as selhooks;
use srtla_core::selection::{calculate_quality_multiplier, select_connection_idx};
use verif_harness::util::*;
use verif_harness::{Component, Mon, Rng, Tier};

/// Ghost history per link for the C13 temporal monitors (independent of the model).
#[derive(Clone, Default)]
struct Ghost {
    /// start of the current uninterrupted run of fresh proof over the selects seen while latched
    fresh_run_start: Option<u64>,
    /// `last_received` when the silence pull engaged
    lr_at_pull: Option<Option<u64>>,
}

struct Sel {
    rt: tokio::runtime::Runtime,
    links: Vec<SrtlaConnection>,
    ghost: Vec<Ghost>,
}

fn show_phase(p: &LinkPhase) -> String {
    match p {
        LinkPhase::Registering => "reg".into(),
        LinkPhase::Warming { rtt_probes, entered_ms } => format!("warm:{rtt_probes}:{entered_ms}"),
        LinkPhase::Live => "live".into(),
        LinkPhase::Degraded => "deg".into(),
    }
}

fn parse_phase(s: &str) -> Option<LinkPhase> {
    let p: Vec<&str> = s.split(':').collect();
    match p.as_slice() {
        ["reg"] => Some(LinkPhase::Registering),
        ["live"] => Some(LinkPhase::Live),
        ["deg"] => Some(LinkPhase::Degraded),
        ["warm", a, b] => Some(LinkPhase::Warming { rtt_probes: a.parse().ok()?, entered_ms: b.parse().ok()? }),
        _ => None,
    }
}

fn show_link(c: &SrtlaConnection) -> String {
    let p = c.verif_private();
    format!(
        "{} c={} ph={} w={} inf={} q={} lr={} ls={} proof={} est={} grace={} cto={} gated={} lat={} rec={} gev={} pc={} pulled={} mark={} pulls={} weak={} ld={} cct={} qm={} qat={} nakc={} lnak={} burst={}",
        c.conn_id,
        show_bool(c.connected),
        show_phase(&c.phase),
        c.window,
        c.in_flight_packets,
        c.batch_sender.queued_count(),
        show_opt(c.last_received),
        show_opt(c.last_sent),
        c.last_ack_or_rtt_sample_ms,
        c.reconnection.connection_established_ms,
        c.reconnection.startup_grace_deadline_ms,
        p.conn_timeout_ms,
        show_bool(p.stall_gated),
        p.stall_latched_since_ms,
        p.stall_recovery_since_ms,
        p.stall_gate_events,
        p.stall_probe_counter,
        show_bool(p.silence_pulled),
        show_opt(p.silence_pull_heard_mark),
        p.silence_pulls,
        show_bool(c.weak),
        show_bool(c.loss_degraded),
        c.cc_target_bps,
        p.quality_multiplier.to_bits(),
        p.quality_calculated_ms,
        c.congestion.nak_count,
        c.congestion.last_nak_time_ms,
        c.congestion.nak_burst_count
    )
}

/// Liveness / accounting projection that a routing decision must never change (C12).
fn frame(c: &SrtlaConnection) -> String {
    format!(
        "{}|{:?}|{:?}|{}|{}|{:?}|{}|{}|{}|{}|{}|{}|{}|{}|{}|{}|{}|{}|{}",
        c.connected,
        c.last_received,
        c.last_sent,
        c.window,
        c.in_flight_packets,
        c.verif_packet_log(),
        c.verif_highest_acked_seq(),
        c.congestion.nak_count,
        c.congestion.last_nak_time_ms,
        c.congestion.nak_burst_count,
        c.congestion.fast_recovery_mode,
        c.congestion.last_window_increase_ms,
        show_phase(&c.phase),
        c.reconnection.connection_established_ms,
        c.reconnection.startup_grace_deadline_ms,
        c.reconnection.last_reconnect_attempt_ms,
        c.reconnection.reconnect_failure_count,
        c.batch_sender.queued_count(),
        c.last_ack_or_rtt_sample_ms
    )
}

fn parse_cfg(toks: &[&str]) -> Option<ConfigSnapshot> {
    Some(ConfigSnapshot {
        mode: if kv_bool(toks, "classic")? { SchedulingMode::Classic } else { SchedulingMode::Enhanced },
        quality_enabled: kv_bool(toks, "quality")?,
        stall_deselect: kv_bool(toks, "stall")?,
        stall_min_in_flight: kv_parse(toks, "minif")?,
        stall_ack_stale_ms: kv_parse(toks, "ceil")?,
        conn_timeout_ms: kv_parse(toks, "cto")?,
    })
}

/// Independent rendering of `clamp(4 x smoothed RTT, 1000 ms, ceiling)` (ceiling when no RTT).
fn eff_window(c: &SrtlaConnection, ceiling: u64) -> u64 {
    let srtt = c.get_smooth_rtt_ms();
    if srtt <= 0.0 {
        ceiling
    } else {
        ((srtt as u64).saturating_mul(4)).max(1000).min(ceiling)
    }
}

impl Sel {
    fn new() -> Self {
        Sel {
            rt: tokio::runtime::Builder::new_current_thread().enable_all().build().unwrap(),
            links: Vec::new(),
            ghost: Vec::new(),
        }
    }

    fn show(&self) -> String {
        self.links.iter().map(show_link).collect::<Vec<_>>().join(" | ")
    }

    fn set_field(&mut self, i: usize, k: &str, v: &str) -> Option<()> {
        let c = self.links.get_mut(i)?;
        let mut p = c.verif_private();
        let opt_u64 = |v: &str| -> Option<Option<u64>> { if v == "-" { Some(None) } else { v.parse().ok().map(Some) } };
        let b = |v: &str| -> Option<bool> {
            match v {
                "1" => Some(true),
                "0" => Some(false),
                _ => None,
            }
        };
        let f = |v: &str| -> Option<f64> { v.parse::<u64>().ok().map(f64::from_bits) };
        let mut stall_key = false;
        match k {
            "c" => c.connected = b(v)?,
            "ph" => c.phase = parse_phase(v)?,
            "w" => c.window = v.parse().ok()?,
            "inf" => c.in_flight_packets = v.parse().ok()?,
            "q" => {
                let n: i32 = v.parse().ok()?;
                c.batch_sender.reset();
                for _ in 0..n.max(0) {
                    c.batch_sender.queue_packet(&[0u8; 4], None, 0);
                }
            }
            "lr" => c.last_received = opt_u64(v)?,
            "proof" => c.last_ack_or_rtt_sample_ms = v.parse().ok()?,
            "est" => c.reconnection.connection_established_ms = v.parse().ok()?,
            "grace" => c.reconnection.startup_grace_deadline_ms = v.parse().ok()?,
            "cto" => p.conn_timeout_ms = v.parse().ok()?,
            "gated" => {
                p.stall_gated = b(v)?;
                stall_key = true
            }
            "lat" => {
                p.stall_latched_since_ms = v.parse().ok()?;
                stall_key = true
            }
            "rec" => {
                p.stall_recovery_since_ms = v.parse().ok()?;
                stall_key = true
            }
            "gev" => p.stall_gate_events = v.parse().ok()?,
            "pc" => p.stall_probe_counter = v.parse().ok()?,
            "pulled" => {
                p.silence_pulled = b(v)?;
                stall_key = true
            }
            "mark" => {
                p.silence_pull_heard_mark = opt_u64(v)?;
                stall_key = true
            }
            "pulls" => p.silence_pulls = v.parse().ok()?,
            "weak" => c.weak = b(v)?,
            "ld" => c.loss_degraded = b(v)?,
            "cct" => c.cc_target_bps = v.parse().ok()?,
            "srtt" => {
                let x = f(v)?;
                c.rtt.kalman_rtt.reset();
                c.rtt.kalman_rtt.update(x);
            }
            "rttmin" => c.rtt.rtt_min_ms = f(v)?,
            "br" => c.bitrate.current_bitrate_bps = f(v)?,
            "qm" => p.quality_multiplier = f(v)?,
            "qat" => p.quality_calculated_ms = v.parse().ok()?,
            "nakc" => c.congestion.nak_count = v.parse().ok()?,
            "lnak" => c.congestion.last_nak_time_ms = v.parse().ok()?,
            "burst" => c.congestion.nak_burst_count = v.parse().ok()?,
            _ => return None,
        }
        if matches!(k, "cto" | "gated" | "lat" | "rec" | "gev" | "pc" | "pulled" | "mark" | "pulls" | "qm" | "qat") {
            c.verif_set_private(p);
        }
        if stall_key {
            // injected guard state: the ghost history no longer describes this link
            self.ghost[i] = Ghost::default();
            let p = self.links[i].verif_private();
            if p.silence_pulled {
                self.ghost[i].lr_at_pull = Some(p.silence_pull_heard_mark);
            }
            if p.stall_latched_since_ms != 0 && p.stall_recovery_since_ms != 0 {
                self.ghost[i].fresh_run_start = Some(p.stall_recovery_since_ms);
            }
        }
        Some(())
    }

    /// Preconditions under which C03/C04/C11 quantify (the property's stated domain).
    fn in_domain(&self) -> bool {
        self.links.iter().all(|c| {
            let q = c.verif_private().quality_multiplier;
            (1000..=60000).contains(&c.window)
                && c.in_flight_packets >= 0
                && q.is_finite()
                && (0.35..=1.1 * 1.03 + 1e-9).contains(&q)
                && c.bitrate.current_bitrate_bps.is_finite()
                && c.bitrate.current_bitrate_bps >= 0.0
        })
    }

    /// Real select + all per-select monitors. Returns the decision.
    fn do_select(&mut self, last: Option<usize>, now: u64, cfg: &ConfigSnapshot, mon: &mut Mon, op: &str) -> Option<usize> {
        let n = self.links.len();
        let before_frame: Vec<String> = self.links.iter().map(frame).collect();
        let before_priv: Vec<VerifPrivate> = self.links.iter().map(|c| c.verif_private()).collect();
        let before_lr: Vec<Option<u64>> = self.links.iter().map(|c| c.last_received).collect();
        let res = select_connection_idx(&mut self.links, last, now, cfg);
        let domain = self.in_domain();

        // ---- C12: routing never touches liveness / accounting; guard off clears everything
        for i in 0..n {
            let a = frame(&self.links[i]);
            if a != before_frame[i] {
                mon.fail("C12", "frame", format!("select changed liveness/accounting of link {i}: {} -> {a} ({op})", before_frame[i]));
            }
            let p = self.links[i].verif_private();
            if !cfg.stall_deselect && (p.stall_gated || p.silence_pulled || p.stall_latched_since_ms != 0 || p.stall_recovery_since_ms != 0) {
                mon.fail("C12", "off-not-cleared", format!("guard off but link {i} keeps stall state {p:?}"));
            }
            if p.stall_gate_events < before_priv[i].stall_gate_events || p.silence_pulls < before_priv[i].silence_pulls {
                mon.fail("C12", "counter-decreased", format!("stall counters of link {i} went backwards"));
            }
        }

        // ---- C03 / C04
        let usable: Vec<usize> = (0..n)
            .filter(|i| {
                let c = &self.links[*i];
                c.is_schedulable() && c.connected && !c.is_timed_out(now)
            })
            .collect();
        if domain {
            if !usable.is_empty() && res.is_none() {
                mon.fail("C03", "blackout", format!("usable links {usable:?} but select returned None ({op})"));
            }
            if !usable.is_empty() {
                mon.count("usable-exists");
                mon.nontrivial();
            }
            if let Some(r) = res {
                match self.links.get(r) {
                    None => mon.fail("C04", "out-of-range", format!("select returned index {r} of {n}")),
                    Some(c) => {
                        if !c.is_schedulable() || c.is_timed_out(now) || c.is_stall_gated() || !c.connected {
                            mon.fail(
                                "C04",
                                "ineligible-selected",
                                format!("select chose link {r}: schedulable={} timed_out={} gated={} connected={} ({op})", c.is_schedulable(), c.is_timed_out(now), c.is_stall_gated(), c.connected),
                            );
                        }
                    }
                }
            }
            // a gated link exists only next to a healthy alternative
            let any_gated = self.links.iter().any(|c| c.is_stall_gated());
            if any_gated {
                mon.count("some-link-gated");
                let alt = self.links.iter().any(|c| {
                    let p = c.verif_private();
                    c.connected && c.is_schedulable() && !c.is_timed_out(now) && p.stall_latched_since_ms == 0 && !p.silence_pulled
                });
                if !alt {
                    mon.fail("C03", "gated-without-alternative", format!("a link is stall-gated but no healthy alternative exists ({op})"));
                }
            }
        }

        // ---- C11 (enhanced only): independent recomputation of the score table
        if domain && cfg.mode == SchedulingMode::Enhanced {
            let quality = cfg.quality_enabled;
            let any_unc = self.links.iter().any(|c| {
                c.connected && !c.is_timed_out(now) && c.is_schedulable() && !c.weak && !c.loss_degraded && !c.is_stall_gated() && !in_flight_cap_exceeded(c)
            });
            let mut scored: Vec<Option<f64>> = Vec::with_capacity(n);
            for c in &self.links {
                let skipped = c.is_timed_out(now) || !c.is_schedulable() || c.is_stall_gated() || !c.connected || (any_unc && in_flight_cap_exceeded(c));
                if skipped {
                    scored.push(None);
                    continue;
                }
                let gate = if any_unc && (c.weak || c.loss_degraded) { 0.02 } else { 1.0 };
                let weight = match c.phase {
                    LinkPhase::Registering => 0.0,
                    LinkPhase::Warming { .. } => 0.8,
                    _ => 1.0,
                };
                let base = c.get_score() as f64 * weight;
                let cap = selhooks::cc_soft_cap_multiplier(c);
                if !(0.1..=1.0).contains(&cap) {
                    mon.fail("C11", "softcap-range", format!("soft-cap factor {cap} outside [0.1,1]"));
                }
                let s = if quality {
                    let q = c.verif_private().quality_multiplier; // refreshed by the pass for scored links
                    if !(0.35..=1.1 * 1.03 + 1e-12).contains(&q) || !q.is_finite() {
                        mon.fail("C11", "quality-range", format!("quality multiplier {q} outside [0.35, 1.133]"));
                    }
                    base * q * cap * gate
                } else {
                    base * cap * gate
                };
                if !s.is_finite() {
                    mon.fail("C11", "score-not-finite", format!("score {s}"));
                }
                scored.push(Some(s));
            }
            if let Some(r) = res {
                if any_unc && in_flight_cap_exceeded(&self.links[r]) {
                    mon.fail("C11", "capped-selected", format!("link {r} is over its in-flight cap while an unconstrained link exists ({op})"));
                }
                if scored.get(r).copied().flatten().is_none() {
                    mon.fail("C11", "unscored-selected", format!("link {r} was skipped by the scoring rules but selected ({op})"));
                }
            }
            if let Some(l) = last {
                if res != Some(l) {
                    if let Some(Some(sl)) = scored.get(l) {
                        mon.count("left-scored-last");
                        mon.nontrivial();
                        let better = scored.iter().flatten().any(|s| *s >= *sl * 1.10);
                        if !better {
                            mon.fail(
                                "C11",
                                "left-without-10pct",
                                format!("left previously selected link {l} (score {sl}) for {res:?} but no link scores >= 1.10x it; scores {scored:?} ({op})"),
                            );
                        }
                    }
                } else {
                    mon.count("stayed-on-last");
                    // "competes at 2% / 80% of its score": a held link whose score carries a gate or
                    // warming factor must lose the hysteresis comparison on that factored score.
                    let c = &self.links[l];
                    let factored = (any_unc && (c.weak || c.loss_degraded)) || matches!(c.phase, LinkPhase::Warming { .. });
                    if let (true, Some(Some(sl))) = (factored, scored.get(l)) {
                        mon.count("stayed-on-factored-last");
                        let best_other = scored
                            .iter()
                            .enumerate()
                            .filter(|(i, _)| *i != l)
                            .filter_map(|(_, s)| *s)
                            .fold(f64::NEG_INFINITY, f64::max);
                        if best_other > *sl && best_other >= *sl * 1.10 {
                            mon.fail(
                                "C11",
                                "factor-not-applied-to-held-link",
                                format!("stayed on link {l} (weak={} loss_degraded={} phase={:?}, factored score {sl}) although another link scores {best_other} >= 1.10x that; scores {scored:?} ({op})", c.weak, c.loss_degraded, c.phase),
                            );
                        }
                    }
                }
            }
        }

        // ---- C13: temporal monitors with ghost history
        let ceil = cfg.stall_ack_stale_ms;
        for i in 0..n {
            let c = &self.links[i];
            let p = c.verif_private();
            let b = &before_priv[i];
            let win = eff_window(c, ceil);
            let proof = c.last_ack_or_rtt_sample_ms;
            if !cfg.stall_deselect {
                self.ghost[i] = Ghost::default();
                continue;
            }
            // engage
            if b.stall_latched_since_ms == 0 && p.stall_latched_since_ms != 0 {
                mon.count("latch-engaged");
                mon.nontrivial();
                let age_ok = proof != 0 && now.saturating_sub(proof) >= win;
                let load_ok = c.in_flight_packets >= cfg.stall_min_in_flight || p.silence_pulled;
                if !(c.connected || p.silence_pulled) || !age_ok || !load_ok {
                    mon.fail(
                        "C13",
                        "latch-engaged-illegally",
                        format!("link {i} latched at {now}: connected={} proof={proof} window={win} in_flight={} min={} pulled={} ({op})", c.connected, c.in_flight_packets, cfg.stall_min_in_flight, p.silence_pulled),
                    );
                }
                if proof == 0 {
                    mon.fail("C13", "never-proved-latched", format!("link {i} latched without ever producing delivery proof"));
                }
                self.ghost[i].fresh_run_start = None;
            }
            // ghost run of fresh proof while latched (before looking at a release)
            let was_latched = b.stall_latched_since_ms != 0;
            if was_latched {
                let fresh = proof != 0 && now.saturating_sub(proof) < win;
                if fresh {
                    if self.ghost[i].fresh_run_start.is_none() {
                        self.ghost[i].fresh_run_start = Some(now);
                    }
                } else {
                    self.ghost[i].fresh_run_start = None;
                }
            }
            // release
            if was_latched && p.stall_latched_since_ms == 0 {
                mon.count("latch-released");
                mon.nontrivial();
                match self.ghost[i].fresh_run_start {
                    Some(t0) if now.saturating_sub(t0) >= 2 * win => {}
                    other => mon.fail(
                        "C13",
                        "latch-released-early",
                        format!("link {i} un-latched at {now}: fresh-proof run start {other:?}, window {win} (needs >= {} of continuous fresh proof) ({op})", 2 * win),
                    ),
                }
                self.ghost[i].fresh_run_start = None;
            }
            // silence pull
            if !b.silence_pulled && p.silence_pulled {
                mon.count("pull-engaged");
                self.ghost[i].lr_at_pull = Some(before_lr[i]);
            }
            if b.silence_pulled && !p.silence_pulled {
                mon.count("pull-released");
                mon.nontrivial();
                let heard = match self.ghost[i].lr_at_pull {
                    Some(at) => c.last_received != at,
                    None => true,
                };
                if !heard && c.connected {
                    mon.fail("C13", "pull-released-unheard", format!("link {i}: silence pull released at {now} but last_received {:?} never moved and the link is connected ({op})", c.last_received));
                }
                self.ghost[i].lr_at_pull = None;
            }
        }
        res
    }
}

fn f64_bits(x: f64) -> u64 {
    x.to_bits()
}

const CEILS: [u64; 6] = [3000, 3000, 3000, 500, 1000, 10000];

impl Component for Sel {
    fn rule(&self) -> &'static str {
        "sel: (A) state-injection cases: 1-4 real SrtlaConnections with every selection-relevant field injected \
         (phase x connected x timed-out x latched x pulled x weak x loss-degraded x capped x never-proved x \
         warming, windows on the C06 grid, NAK ages/bursts around 3000/30000 ms, RTT none/20..2000 ms, bitrate vs \
         CC target, quality cache fresh/stale), then `factors`, `select2` (decision, idempotence, stability), \
         `bestq`; every mode / quality / guard / threshold / timeout setting and every previous index. (B) timed \
         traces of 20-80 selects with in-flight changes, inbound bytes, earned proof, RTT changes and guard \
         toggles at times on the {window-1, window, 2*window-1, 2*window} grid. Non-trivial: a usable link exists, \
         or a latch/pull engaged or released, or selection left a scored previous link."
    }

    fn gen_case(&mut self, rng: &mut Rng, _tier: Tier, idx: usize) -> Vec<String> {
        let n = rng.range(1, 4) as usize;
        let t0: u64 = 1_000_000 + rng.below(100_000);
        let mut ops = vec![format!("new {n} {t0}")];
        let cfg = |rng: &mut Rng| -> String {
            format!(
                "classic={} quality={} stall={} minif={} ceil={} cto={}",
                if rng.chance(1, 3) { 1 } else { 0 },
                rng.below(2),
                if rng.chance(4, 5) { 1 } else { 0 },
                rng.pick(&[32i32, 32, 1, 0, 8, 100]),
                rng.pick(&CEILS),
                rng.pick(&[5000u64, 5000, 1000, 60000, 2500])
            )
        };
        let windows = [1000, 1029, 2000, 12000, 20000, 20000, 20000, 59971, 60000];
        if idx % 2 == 0 {
            // ---------- (A) injection
            let now = t0 + rng.below(60_000);
            for i in 0..n {
                let mut s = format!("set {i}");
                let ph = match rng.below(8) {
                    0 => "reg".to_string(),
                    1 => format!("warm:{}:{}", rng.below(2), now.saturating_sub(rng.below(6000))),
                    2 => "deg".into(),
                    _ => "live".into(),
                };
                s += &format!(" ph={ph} c={}", if rng.chance(5, 6) { 1 } else { 0 });
                s += &format!(" w={}", rng.pick(&windows));
                let inf = *rng.pick(&[0i64, 0, 1, 5, 31, 32, 33, 64, 200, 20000]);
                s += &format!(" inf={inf} q={}", rng.pick(&[0, 0, 0, 1, 3, 15]));
                // receive age versus timeout
                let lr = match rng.below(8) {
                    0 => "-".to_string(),
                    1 => format!("{}", now.saturating_sub(4999)),
                    2 => format!("{}", now.saturating_sub(5000)),
                    3 => format!("{}", now.saturating_sub(60000)),
                    4 => format!("{}", now.saturating_sub(250)),
                    _ => format!("{}", now.saturating_sub(rng.below(900))),
                };
                s += &format!(" lr={lr}");
                let est = match rng.below(5) {
                    0 => 0,
                    1 => now.saturating_sub(29_999),
                    2 => now.saturating_sub(30_000),
                    _ => now.saturating_sub(40_000 + rng.below(10_000)),
                };
                s += &format!(" est={est} grace={}", if rng.chance(1, 4) { now + 1000 } else { t0 });
                // delivery proof age
                let proof = match rng.below(7) {
                    0 => 0,
                    1 => now.saturating_sub(2999),
                    2 => now.saturating_sub(3000),
                    3 => now.saturating_sub(999),
                    4 => now.saturating_sub(1000),
                    _ => now.saturating_sub(rng.below(500)),
                };
                s += &format!(" proof={proof}");
                // stall history
                if rng.chance(1, 3) {
                    let lat = now.saturating_sub(rng.below(8000) + 1);
                    s += &format!(" lat={lat}");
                    if rng.chance(1, 2) {
                        s += &format!(" rec={}", now.saturating_sub(*rng.pick(&[1u64, 1999, 2000, 5999, 6000, 6001])));
                    }
                }
                if rng.chance(1, 4) {
                    s += &format!(" pulled=1 mark={}", if rng.chance(1, 2) { lr.clone() } else { format!("{}", now.saturating_sub(7000)) });
                }
                if rng.chance(1, 5) {
                    s += " gated=1";
                }
                s += &format!(" weak={} ld={}", if rng.chance(1, 4) { 1 } else { 0 }, if rng.chance(1, 5) { 1 } else { 0 });
                // RTT
                let srtt: f64 = *rng.pick(&[0.0, 0.0, 0.4, 20.0, 49.0, 50.0, 125.0, 200.0, 250.0, 400.0, 750.0, 2000.0, -3.0]);
                s += &format!(" srtt={}", f64_bits(srtt));
                s += &format!(" rttmin={}", f64_bits(*rng.pick(&[200.0, 20.0, 50.0, 0.0, 600.0, f64::INFINITY])));
                // CC target vs measured bitrate
                if rng.chance(1, 2) {
                    let cct = *rng.pick(&[100_000u64, 1_000_000, 5_000_000, 200_000_000]);
                    let frac = *rng.pick(&[0.0, 0.5, 0.89, 0.9, 0.91, 1.0, 1.7]);
                    s += &format!(" cct={cct} br={}", f64_bits(cct as f64 * frac));
                }
                // quality inputs
                if rng.chance(1, 2) {
                    let lnak = now.saturating_sub(*rng.pick(&[0u64, 1, 1000, 2999, 3000, 8000, 60_000]));
                    s += &format!(" nakc={} lnak={lnak} burst={}", rng.range(1, 9), rng.pick(&[0, 2, 4, 5, 9]));
                } else if rng.chance(1, 6) {
                    s += " nakc=3";
                }
                // quality cache: default, in-range fresh, in-range stale
                match rng.below(3) {
                    0 => {}
                    1 => s += &format!(" qm={} qat={}", f64_bits(*rng.pick(&[0.35, 0.5, 0.98, 1.0, 1.1, 1.133])), now.saturating_sub(rng.below(49))),
                    _ => s += &format!(" qm={} qat={}", f64_bits(*rng.pick(&[0.35, 0.5, 0.98, 1.0, 1.1])), now.saturating_sub(50 + rng.below(5000))),
                }
                ops.push(s);
            }
            ops.push(format!("factors {now}"));
            for _ in 0..rng.range(1, 3) {
                let last = if rng.chance(1, 4) { "-".to_string() } else { format!("{}", rng.below(n as u64 + 1)) };
                ops.push(format!("select2 {last} {now} {}", cfg(rng)));
                ops.push(format!("bestq {now}"));
            }
        } else {
            // ---------- (B) timed trace
            let mut now = t0;
            let c = cfg(rng);
            let ceil: u64 = kv_parse(&c.split(' ').collect::<Vec<_>>(), "ceil").unwrap_or(3000);
            let mut last: Option<u64> = None;
            for i in 0..n {
                let srtt: f64 = *rng.pick(&[0.0, 20.0, 100.0, 250.0, 500.0, 2000.0]);
                ops.push(format!("set {i} srtt={} proof={} est={}", f64_bits(srtt), t0, t0.saturating_sub(40_000)));
            }
            let steps = rng.range(20, 80);
            for _ in 0..steps {
                let win = ceil.max(1);
                let dt = match rng.below(10) {
                    0 => win - 1,
                    1 => win,
                    2 => 2 * win - 1,
                    3 => 2 * win,
                    4 => 249,
                    5 => 250,
                    6 => 999,
                    7 => 1000,
                    _ => rng.below(400),
                };
                now += dt;
                let i = rng.below(n as u64);
                match rng.below(10) {
                    0 | 1 => ops.push(format!("set {i} inf={}", rng.pick(&[0, 10, 31, 32, 50, 200]))),
                    2 | 3 => ops.push(format!("set {i} lr={now}")),
                    4 | 5 => ops.push(format!("set {i} proof={now} lr={now}")),
                    6 => ops.push(format!("set {i} srtt={}", f64_bits(*rng.pick(&[0.0, 20.0, 100.0, 250.0, 300.0, 800.0, 2000.0])))),
                    7 => ops.push(format!("set {i} c={}", rng.below(2))),
                    _ => {}
                }
                let this_cfg = if rng.chance(1, 25) {
                    // guard toggle / threshold change
                    cfg(rng)
                } else {
                    c.clone()
                };
                let l = match last {
                    Some(x) => x.to_string(),
                    None => "-".into(),
                };
                ops.push(format!("select {l} {now} {this_cfg}"));
                // the harness cannot know the decision at generation time; vary `last`
                last = if rng.chance(1, 6) { None } else { Some(rng.below(n as u64)) };
            }
        }
        ops
    }

    fn start_case(&mut self) {
        self.links.clear();
        self.ghost.clear();
    }

    fn exec(&mut self, toks: &[&str], mon: &mut Mon) -> String {
        let op = toks.join(" ");
        match toks {
            ["new", n, now] => {
                let (Ok(n), Ok(now)) = (n.parse::<usize>(), now.parse::<u64>()) else { return "bad-op".into() };
                let mut v = self.rt.block_on(srtla_core::test_helpers::create_test_connections(n)).into_vec();
                for (i, c) in v.iter_mut().enumerate() {
                    c.conn_id = (i + 1) as u64;
                    c.last_received = Some(now);
                    c.reconnection.connection_established_ms = now;
                    c.reconnection.startup_grace_deadline_ms = now;
                }
                self.links = v;
                self.ghost = vec![Ghost::default(); n];
                self.show()
            }
            ["set", i, rest @ ..] => {
                let Ok(i) = i.parse::<usize>() else { return "bad-op".into() };
                if i >= self.links.len() {
                    return "bad-op".into();
                }
                for t in rest {
                    let Some((k, v)) = t.split_once('=') else { return "bad-op".into() };
                    if self.set_field(i, k, v).is_none() {
                        return "bad-op".into();
                    }
                }
                self.show()
            }
            ["select", last, now, rest @ ..] | ["select2", last, now, rest @ ..] => {
                let last: Option<usize> = if *last == "-" { None } else { match last.parse() { Ok(x) => Some(x), Err(_) => return "bad-op".into() } };
                let (Ok(now), Some(cfg)) = (now.parse::<u64>(), parse_cfg(rest)) else { return "bad-op".into() };
                let r1 = self.do_select(last, now, &cfg, mon, &op);
                if toks[0] == "select" {
                    return format!("res={} | {}", show_opt(r1), self.show());
                }
                // idempotence and stability (C11), in either mode
                let r2 = self.do_select(last, now, &cfg, mon, &op);
                let r3 = self.do_select(r1.or(last), now, &cfg, mon, &op);
                if self.in_domain() {
                    if r2 != r1 {
                        mon.fail("C11", "not-idempotent", format!("re-running selection on the unchanged state: {r1:?} then {r2:?} ({op})"));
                    }
                    if r1.is_some() && r3 != r1 {
                        mon.fail("C11", "not-stable", format!("selection with last := its own result {r1:?} returned {r3:?} ({op})"));
                    }
                }
                format!("res={} res2={} res3={} | {}", show_opt(r1), show_opt(r2), show_opt(r3), self.show())
            }
            ["gate", now, rest @ ..] => {
                let (Ok(now), Some(cfg)) = (now.parse::<u64>(), parse_cfg(rest)) else { return "bad-op".into() };
                selhooks::apply_stall_gate(&mut self.links, now, &cfg);
                self.show()
            }
            ["classic", now] => {
                let Ok(now) = now.parse::<u64>() else { return "bad-op".into() };
                format!("res={}", show_opt(selhooks::classic_select(&self.links, now)))
            }
            ["bestq", now] => {
                let Ok(now) = now.parse::<u64>() else { return "bad-op".into() };
                let r = select_best_quality_eligible_idx(&self.links, now);
                if let Some(i) = r {
                    let c = &self.links[i];
                    if !c.connected || !c.is_schedulable() || c.is_timed_out(now) || c.is_stall_gated() {
                        mon.fail("C04", "override-ineligible", format!("best-quality override chose link {i}: connected={} schedulable={} timed_out={} gated={}", c.connected, c.is_schedulable(), c.is_timed_out(now), c.is_stall_gated()));
                    }
                    mon.count("override-some");
                }
                format!("res={}", show_opt(r))
            }
            ["factors", now] => {
                let Ok(now) = now.parse::<u64>() else { return "bad-op".into() };
                self.links
                    .iter()
                    .map(|c| {
                        let q = calculate_quality_multiplier(c, now);
                        let cap = selhooks::cc_soft_cap_multiplier(c);
                        if !(0.35..=1.1 * 1.03 + 1e-12).contains(&q) || !q.is_finite() {
                            mon.fail("C11", "quality-range", format!("quality multiplier {q} outside [0.35, 1.1*1.03]"));
                        }
                        if c.bitrate.current_bitrate_bps.is_finite() && c.bitrate.current_bitrate_bps >= 0.0 && !(0.1..=1.0).contains(&cap) {
                            mon.fail("C11", "softcap-range", format!("soft-cap factor {cap} outside [0.1,1]"));
                        }
                        format!(
                            "to={} sc={} q={} cap={} capx={} capn={}",
                            show_bool(c.is_timed_out(now)),
                            c.get_score(),
                            q.to_bits(),
                            cap.to_bits(),
                            show_bool(in_flight_cap_exceeded(c)),
                            show_opt(in_flight_cap_packets(c.cc_target_bps, c.get_rtt_min_ms()))
                        )
                    })
                    .collect::<Vec<_>>()
                    .join(" | ")
            }
            _ => "bad-op".into(),
        }
    }
}

fn main() {
    verif_harness::run_main("sel", Box::new(Sel::new()));
}
