//! Component `control`: JSON-RPC runtime control dispatcher (C18).
//!
//! Every `line` op carries the raw line (hex) *and* what a MIRROR of the private `Request`
//! struct (same serde attributes) decodes it to, in a token form the Lean driver can read
//! without a JSON parser.  `exec` recomputes the mirror decode from the raw line and rejects the
//! op if it disagrees (so stored cases cannot lie), then runs the REAL `dispatch` and
//! `dispatch_async` (without and with a `SubscriptionContext`) on the raw line, each on its own
//! `DynamicConfig`, and prints responses + `snapshot()`s.

use std::panic::{AssertUnwindSafe, catch_unwind};

use serde::Deserialize;
use serde_json::Value;
use srtla_core::mode::SchedulingMode;
use srtla_core::priority::CriticalWindow;
use srtla_send::config::DynamicConfig;
use srtla_send::control::{SubscriptionContext, dispatch, dispatch_async};
use srtla_send::stats::SharedStats;
use srtla_send::subscriptions::SubscriptionHub;
use tokio::sync::mpsc;

use verif_harness::util::*;
use verif_harness::{Component, Mon, Rng, Tier};

// ------------------------------------------------------------------------------------------
// Mirror of `src/control.rs::Request` (keep the serde attributes identical to the source).

#[derive(Debug, Deserialize)]
struct MirrorRequest {
    jsonrpc: String,
    method: String,
    #[serde(default)]
    params: Value,
    #[serde(default)]
    id: Option<Value>,
}

enum Parsed {
    Blank,
    Unparsable,
    Req(MirrorRequest),
}

fn mirror_parse(line: &str) -> Parsed {
    let t = line.trim();
    if t.is_empty() {
        return Parsed::Blank;
    }
    match serde_json::from_str::<MirrorRequest>(t) {
        Ok(r) => Parsed::Req(r),
        Err(_) => Parsed::Unparsable,
    }
}

// ------------------------------------------------------------------------------------------
// Token form of a JSON value (must match lean/Srtla/Drv/Control.lean).

fn hex_str(s: &str) -> String {
    let mut o = String::with_capacity(s.len() * 2);
    for b in s.as_bytes() {
        o.push_str(&format!("{b:02x}"));
    }
    o
}

fn enc_into(v: &Value, o: &mut String) {
    match v {
        Value::Null => o.push('n'),
        Value::Bool(true) => o.push('t'),
        Value::Bool(false) => o.push('f'),
        Value::Number(n) => {
            if let Some(u) = n.as_u64() {
                o.push_str(&format!("u{u}"));
            } else if let Some(i) = n.as_i64() {
                o.push_str(&format!("i{i}"));
            } else {
                o.push_str(&format!("d{}", n.as_f64().unwrap_or(0.0).to_bits()));
            }
        }
        Value::String(s) => {
            o.push('s');
            o.push_str(&hex_str(s));
        }
        Value::Array(a) => {
            o.push_str(&format!("a{}", a.len()));
            for x in a {
                o.push(',');
                enc_into(x, o);
            }
        }
        Value::Object(m) => {
            o.push_str(&format!("o{}", m.len()));
            let mut keys: Vec<&String> = m.keys().collect();
            keys.sort_by(|a, b| a.as_bytes().cmp(b.as_bytes()));
            for k in keys {
                o.push_str(",k");
                o.push_str(&hex_str(k));
                o.push(',');
                enc_into(&m[k.as_str()], o);
            }
        }
    }
}

fn enc(v: &Value) -> String {
    let mut o = String::new();
    enc_into(v, &mut o);
    o
}

/// What a value looks like after one trip through `to_string` + `from_str` (the only way the
/// harness can observe the private `Response` fields).  serde_json without `float_roundtrip`
/// does not promise bit-exact float round trips, so echoed values are compared modulo this.
fn rt(v: &Value) -> Value {
    serde_json::to_string(v)
        .ok()
        .and_then(|s| serde_json::from_str(&s).ok())
        .unwrap_or(Value::Null)
}

/// Print `actual` (read back from the response text) as the token form of `expected` when it is
/// the text round trip of `expected`, else as itself (which then disagrees with the model).
fn enc_echo(actual: &Value, expected: Option<&Value>) -> String {
    match expected {
        Some(e) if *actual == rt(e) => enc(e),
        _ => enc(actual),
    }
}

fn classify_tokens(p: &Parsed) -> String {
    match p {
        Parsed::Blank => "blank".into(),
        Parsed::Unparsable => "unparsable".into(),
        Parsed::Req(r) => format!(
            "req s{} s{} {} {}",
            hex_str(&r.jsonrpc),
            hex_str(&r.method),
            enc(&r.params),
            r.id.as_ref().map(enc).unwrap_or_else(|| "-".into())
        ),
    }
}

/// The entry-point glue of both listeners (`spawn_stdin_listener`, `control_socket::handle`):
/// bytes up to `\n` -> `String::from_utf8_lossy` -> `trim` (inside the dispatcher too) -> dispatch.
fn glue(raw: &[u8]) -> String {
    String::from_utf8_lossy(raw).into_owned()
}

fn line_op(raw: &[u8]) -> String {
    format!("line {} {}", to_hex(raw), classify_tokens(&mirror_parse(&glue(raw))))
}

// ------------------------------------------------------------------------------------------
// Independent statement of the property (monitors).

const T_MIN: u64 = 1000;
const T_MAX: u64 = 60000;

fn clamp_lit(ms: u64) -> u64 {
    if ms < T_MIN {
        T_MIN
    } else if ms > T_MAX {
        T_MAX
    } else {
        ms
    }
}

#[derive(Clone, Debug, PartialEq)]
struct Shadow {
    mode: String,
    quality: bool,
    stall: bool,
    min_in_flight: i32,
    ack_stale: u64,
    timeout: u64,
}

impl Shadow {
    fn new() -> Self {
        Shadow { mode: "enhanced".into(), quality: true, stall: true, min_in_flight: 32, ack_stale: 3000, timeout: 5000 }
    }
    fn of(c: &DynamicConfig) -> Self {
        let s = c.snapshot();
        Shadow {
            mode: s.mode.to_string(),
            quality: s.quality_enabled,
            stall: s.stall_deselect,
            min_in_flight: s.stall_min_in_flight,
            ack_stale: s.stall_ack_stale_ms,
            timeout: s.conn_timeout_ms,
        }
    }
    fn show(&self) -> String {
        format!(
            "{}/{}/{}/{}/{}/{}",
            self.mode,
            show_bool(self.quality),
            show_bool(self.stall),
            self.min_in_flight,
            self.ack_stale,
            self.timeout
        )
    }
}

#[derive(Clone, Copy, PartialEq, Eq, Debug)]
enum Entry {
    Sync,
    AsyncNoCtx,
    AsyncCtx,
}

impl Entry {
    fn tag(self) -> &'static str {
        match self {
            Entry::Sync => "S",
            Entry::AsyncNoCtx => "A",
            Entry::AsyncCtx => "C",
        }
    }
}

/// What the property says must come back for a decoded request: `Ok` or an error code.
#[derive(Clone, Copy, PartialEq, Eq, Debug)]
enum Expect {
    Ok,
    Code(i64),
}

/// A successful setter and the value it must make visible.
#[derive(Clone, Debug, PartialEq)]
enum Effect {
    None,
    Mode(String),
    Quality(bool),
    Stall(bool),
    Timeout(u64), // requested (unclamped)
}

fn is_subscription_method(m: &str) -> bool {
    matches!(m, "subscribe" | "unsubscribe" | "get_subscription_count")
}

fn expectation(r: &MirrorRequest, entry: Entry, stats_present: bool) -> (Expect, Effect) {
    if r.jsonrpc != "2.0" {
        return (Expect::Code(-32600), Effect::None);
    }
    let p = &r.params;
    match r.method.as_str() {
        "set_mode" => match p.get("mode").and_then(Value::as_str) {
            Some(m @ ("classic" | "enhanced")) => (Expect::Ok, Effect::Mode(m.to_string())),
            _ => (Expect::Code(-32602), Effect::None),
        },
        "set_quality" => match p.get("enabled").and_then(Value::as_bool) {
            Some(b) => (Expect::Ok, Effect::Quality(b)),
            None => (Expect::Code(-32602), Effect::None),
        },
        "set_stall_deselect" => match p.get("enabled").and_then(Value::as_bool) {
            Some(b) => (Expect::Ok, Effect::Stall(b)),
            None => (Expect::Code(-32602), Effect::None),
        },
        "set_conn_timeout" => match p.get("ms").and_then(Value::as_u64) {
            Some(ms) => (Expect::Ok, Effect::Timeout(ms)),
            None => (Expect::Code(-32602), Effect::None),
        },
        "get_status" => (Expect::Ok, Effect::None),
        "get_stats" => {
            if stats_present {
                (Expect::Ok, Effect::None)
            } else {
                (Expect::Code(-32603), Effect::None)
            }
        }
        "subscribe" if entry == Entry::AsyncCtx => match p.get("topic").and_then(Value::as_str) {
            Some("stats" | "priority.window") => (Expect::Ok, Effect::None),
            _ => (Expect::Code(-32602), Effect::None),
        },
        "unsubscribe" if entry == Entry::AsyncCtx => {
            match p.get("subscription_id").and_then(Value::as_str) {
                Some(_) => (Expect::Ok, Effect::None),
                None => (Expect::Code(-32602), Effect::None),
            }
        }
        "get_subscription_count" if entry == Entry::AsyncCtx => (Expect::Ok, Effect::None),
        _ => (Expect::Code(-32601), Effect::None),
    }
}

const PROBE: &str = r#"{"jsonrpc":"2.0","id":"verif-probe","method":"get_status"}"#;

// ------------------------------------------------------------------------------------------

struct Slot {
    cfg: DynamicConfig,
    /// A clone taken at construction, as the sender loop holds one: setters must be visible here.
    reader: DynamicConfig,
    shadow: Shadow,
}

impl Slot {
    fn new(cfg: DynamicConfig, shadow: Shadow) -> Self {
        let reader = cfg.clone();
        Slot { cfg, reader, shadow }
    }
}

pub struct Control {
    rt: tokio::runtime::Runtime,
    slots: Vec<Slot>, // S, A, C
    stats: Option<SharedStats>,
    cw: CriticalWindow,
    cw_pass: bool,
    hub: SubscriptionHub,
    push_tx: mpsc::Sender<String>,
    _push_rx: mpsc::Receiver<String>,
    owned: Vec<String>,
    // non-triviality bookkeeping
    classes: std::collections::BTreeSet<String>,
    changed_set: bool,
    /// raw lines of this case, for the end-of-case replay over a real Unix socket
    session: Vec<Vec<u8>>,
}

impl Control {
    fn new() -> Self {
        let rt = tokio::runtime::Builder::new_current_thread().enable_all().build().expect("tokio rt");
        let (tx, rx) = mpsc::channel::<String>(128);
        Control {
            rt,
            // documented defaults, stated literally: enhanced, quality on, stall guard on, 32, 3000, 5000
            slots: (0..3).map(|_| Slot::new(DynamicConfig::new(), Shadow::new())).collect(),
            stats: None,
            cw: CriticalWindow::new(),
            cw_pass: false,
            hub: SubscriptionHub::new(),
            push_tx: tx,
            _push_rx: rx,
            owned: Vec::new(),
            classes: Default::default(),
            changed_set: false,
            session: Vec::new(),
        }
    }

    /// Run the real entry point; returns the response text (`to_json`) or None. Err = panic.
    fn call(&mut self, entry: Entry, line: &str) -> Result<Option<String>, ()> {
        let idx = entry as usize;
        let cfg = self.slots[idx].cfg.clone();
        let stats = self.stats.clone();
        let cw = self.cw.clone();
        let cw_ref = if self.cw_pass { Some(&cw) } else { None };
        match entry {
            Entry::Sync => catch_unwind(AssertUnwindSafe(|| {
                dispatch(&cfg, stats.as_ref(), cw_ref, line).map(|r| r.to_json())
            }))
            .map_err(|_| ()),
            Entry::AsyncNoCtx => {
                let rt = &self.rt;
                catch_unwind(AssertUnwindSafe(|| {
                    rt.block_on(dispatch_async(&cfg, stats.as_ref(), cw_ref, None, line)).map(|r| r.to_json())
                }))
                .map_err(|_| ())
            }
            Entry::AsyncCtx => {
                let rt = &self.rt;
                let hub = &self.hub;
                let owned = &mut self.owned;
                let tx = self.push_tx.clone();
                catch_unwind(AssertUnwindSafe(|| {
                    let mut ctx = SubscriptionContext { hub, push_tx: tx, owned_ids: owned };
                    rt.block_on(dispatch_async(&cfg, stats.as_ref(), cw_ref, Some(&mut ctx), line))
                        .map(|r| r.to_json())
                }))
                .map_err(|_| ())
            }
        }
    }

    /// Shape monitor + canonical print of one response.
    fn observe(
        &mut self,
        entry: Entry,
        parsed: &Parsed,
        text: &Option<String>,
        raw_hex: &str,
        mon: &mut Mon,
    ) -> String {
        let tag = entry.tag();
        let stats_present = self.stats.is_some();
        let req_id: Option<&Value> = match parsed {
            Parsed::Req(r) => r.id.as_ref(),
            _ => None,
        };
        // --- does a response exist exactly when the property says so?
        let must_respond = match parsed {
            Parsed::Blank => false,
            Parsed::Unparsable => true,
            Parsed::Req(r) => r.id.is_some(),
        };
        match (must_respond, text.is_some()) {
            (true, false) => mon.fail(
                "C18",
                &format!("shape:missing-response:{tag}"),
                format!("{tag}: a response is required but none was returned for line {raw_hex}"),
            ),
            (false, true) => mon.fail(
                "C18",
                &format!("shape:unexpected-response:{tag}"),
                format!("{tag}: blank line / notification got a response {:?} for line {raw_hex}", text),
            ),
            _ => {}
        }
        let Some(text) = text else {
            self.classes.insert("none".into());
            return "-".into();
        };
        if text.contains('\n') || text.contains('\r') {
            mon.fail("C18", &format!("shape:multiline:{tag}"), format!("{tag}: response spans lines: {text:?}"));
        }
        let v: Value = match serde_json::from_str(text) {
            Ok(v) => v,
            Err(e) => {
                mon.fail("C18", &format!("shape:not-json:{tag}"), format!("{tag}: response is not JSON ({e}): {text:?}"));
                return "NOT-JSON".into();
            }
        };
        let Some(obj) = v.as_object() else {
            mon.fail("C18", &format!("shape:not-object:{tag}"), format!("{tag}: response is not an object: {text}"));
            return "NOT-OBJECT".into();
        };
        let mut bad = Vec::new();
        if obj.get("jsonrpc") != Some(&Value::String("2.0".into())) {
            bad.push("jsonrpc != \"2.0\"".to_string());
        }
        for k in obj.keys() {
            if !matches!(k.as_str(), "jsonrpc" | "result" | "error" | "id") {
                bad.push(format!("unexpected member {k}"));
            }
        }
        let has_res = obj.contains_key("result");
        let has_err = obj.contains_key("error");
        if has_res == has_err {
            bad.push(format!("result present={has_res}, error present={has_err} (need exactly one)"));
        }
        let id = obj.get("id");
        if id.is_none() {
            bad.push("no id member".into());
        }
        let id_v = id.cloned().unwrap_or(Value::Null);
        // the echoed id: the request's id, or null for a parse error
        let want_id: Value = match parsed {
            Parsed::Req(r) => r.id.clone().unwrap_or(Value::Null),
            _ => Value::Null,
        };
        if id_v != rt(&want_id) {
            bad.push(format!("id {} is not the request id {}", id_v, want_id));
        }
        // the `jsonrpc` member exactly as written on the wire (compared with the model's Response.jsonrpc):
        // `v<hex of the string>`, `v?` when the member is absent or not a string
        let ver_tok = match obj.get("jsonrpc").and_then(Value::as_str) {
            Some(v) => format!("v{}", hex_str(v)),
            None => "v?".to_string(),
        };
        let mut out;
        let mut got: Option<Expect> = None;
        if has_err {
            let e = &obj["error"];
            let code = e.get("code").and_then(Value::as_i64);
            let msg = e.get("message").and_then(Value::as_str);
            if let Some(eo) = e.as_object() {
                for k in eo.keys() {
                    if !matches!(k.as_str(), "code" | "message" | "data") {
                        bad.push(format!("unexpected error member {k}"));
                    }
                }
            }
            if code.is_none() || msg.is_none() {
                bad.push("error without integer code / string message".into());
            }
            let code = code.unwrap_or(0);
            got = Some(Expect::Code(code));
            self.classes.insert(format!("{code}"));
            mon.count(&format!("resp:{code}"));
            out = format!(
                "err/{}/{}/{}/s{}/{}",
                ver_tok,
                code,
                enc_echo(&id_v, req_id),
                hex_str(msg.unwrap_or("")),
                if e.get("data").is_some() { "d1" } else { "d0" }
            );
        } else if has_res {
            got = Some(Expect::Ok);
            self.classes.insert("ok".into());
            mon.count("resp:ok");
            // get_stats echoes the provider's JSON (may contain floats): compare modulo text round trip
            let stats_v: Option<Value> = match parsed {
                Parsed::Req(r) if r.method == "get_stats" && r.jsonrpc == "2.0" => self
                    .stats
                    .as_ref()
                    .and_then(|s| serde_json::from_str(&s.to_json()).ok()),
                _ => None,
            };
            out = format!("ok/{}/{}/{}", ver_tok, enc_echo(&id_v, req_id), enc_echo(&obj["result"], stats_v.as_ref()));
        } else {
            out = "MALFORMED".to_string();
        }
        if !bad.is_empty() {
            mon.fail(
                "C18",
                &format!("shape:malformed:{tag}"),
                format!("{tag}: response {text} to line {raw_hex}: {}", bad.join("; ")),
            );
            out.push_str("/BAD-SHAPE");
        }
        // --- error code class, recomputed from the mirror decode
        let want = match parsed {
            Parsed::Blank => None,
            Parsed::Unparsable => Some(Expect::Code(-32700)),
            Parsed::Req(r) => Some(expectation(r, entry, stats_present).0),
        };
        if let (Some(w), Some(g)) = (want, got) {
            if w != g {
                mon.fail(
                    "C18",
                    &format!("code:{tag}"),
                    format!("{tag}: expected {w:?}, got {g:?} ({text}) for line {raw_hex}"),
                );
            }
        }
        out
    }

    /// Effect monitors for one entry point after one line.
    fn check_effect(&mut self, entry: Entry, parsed: &Parsed, text: &Option<String>, raw_hex: &str, mon: &mut Mon) {
        let tag = entry.tag();
        let idx = entry as usize;
        let stats_present = self.stats.is_some();
        let before = self.slots[idx].shadow.clone();
        if let Parsed::Req(r) = parsed {
            let (exp, eff) = expectation(r, entry, stats_present);
            if exp == Expect::Ok {
                let result: Option<Value> = text
                    .as_ref()
                    .and_then(|t| serde_json::from_str::<Value>(t).ok())
                    .and_then(|v| v.get("result").cloned());
                let sh = &mut self.slots[idx].shadow;
                match &eff {
                    Effect::Mode(m) => {
                        sh.mode = m.clone();
                        mon.count("set_mode:applied");
                        if let Some(res) = &result {
                            if res.get("mode").and_then(Value::as_str) != Some(m.as_str()) {
                                mon.fail("C18", &format!("set-reply:{tag}"), format!("{tag}: set_mode {m} answered {res}"));
                            }
                        }
                    }
                    Effect::Quality(b) => {
                        sh.quality = *b;
                        mon.count("set_quality:applied");
                        if let Some(res) = &result {
                            if res.get("enabled").and_then(Value::as_bool) != Some(*b) {
                                mon.fail("C18", &format!("set-reply:{tag}"), format!("{tag}: set_quality {b} answered {res}"));
                            }
                        }
                    }
                    Effect::Stall(b) => {
                        sh.stall = *b;
                        mon.count("set_stall_deselect:applied");
                        if let Some(res) = &result {
                            if res.get("enabled").and_then(Value::as_bool) != Some(*b) {
                                mon.fail("C18", &format!("set-reply:{tag}"), format!("{tag}: set_stall_deselect {b} answered {res}"));
                            }
                        }
                    }
                    Effect::Timeout(ms) => {
                        sh.timeout = clamp_lit(*ms);
                        mon.count(if *ms < T_MIN {
                            "set_conn_timeout:below"
                        } else if *ms > T_MAX {
                            "set_conn_timeout:above"
                        } else {
                            "set_conn_timeout:inside"
                        });
                        if let Some(res) = &result {
                            let echoed = res.get("ms").and_then(Value::as_u64);
                            let stored = self.slots[idx].reader.snapshot().conn_timeout_ms;
                            if echoed != Some(stored) || echoed != Some(clamp_lit(*ms)) {
                                mon.fail(
                                    "C18",
                                    &format!("timeout-echo:{tag}"),
                                    format!("{tag}: set_conn_timeout {ms} answered {res}, stored {stored}, clamp {}", clamp_lit(*ms)),
                                );
                            }
                        }
                    }
                    Effect::None => {}
                }
                if eff != Effect::None {
                    if r.id.is_none() {
                        mon.count("notification:applied");
                    }
                    if self.slots[idx].shadow != before {
                        self.changed_set = true;
                    }
                }
            }
        }
        // visible in the snapshot held by another clone ...
        let now = Shadow::of(&self.slots[idx].reader);
        let want = self.slots[idx].shadow.clone();
        if now != want {
            let sig = if want != before { "set-not-visible" } else { "config-drift" };
            mon.fail(
                "C18",
                &format!("{sig}:{tag}"),
                format!("{tag}: snapshot {} but the requests so far imply {} (line {raw_hex})", now.show(), want.show()),
            );
            // The configuration plumbing FEEDS other properties: their premises ("with the stall guard disabled",
            // "in classic mode", "the configured timeout") are what the operator asked for, and the scheduler /
            // housekeeping read this very snapshot.  A field that is not what the requests so far imply is a failing
            // input for the property whose premise it is.
            if !want.stall && now.stall {
                mon.fail(
                    "C12",
                    "guard-switched-back-on",
                    format!("{tag}: the requests so far switched the stall guard OFF, the snapshot every routing decision reads says stall_deselect=true ({}; line {raw_hex}): off no longer means baseline", now.show()),
                );
            }
            if want.mode == "classic" && now.mode != "classic" {
                mon.fail(
                    "C10",
                    "classic-mode-not-in-force",
                    format!("{tag}: the requests so far selected classic mode, the snapshot the scheduler reads says {} (line {raw_hex})", now.show()),
                );
            }
            if want.timeout != now.timeout {
                mon.fail(
                    "C08",
                    "configured-timeout-not-in-force",
                    format!("{tag}: the requests so far configured conn_timeout_ms={}, the snapshot housekeeping reads says {} (line {raw_hex})", want.timeout, now.timeout),
                );
            }
        }
        // ... and in the next status (asked through the real dispatcher)
        let cfg = self.slots[idx].cfg.clone();
        match catch_unwind(AssertUnwindSafe(|| dispatch(&cfg, None, None, PROBE).map(|r| r.to_json()))) {
            Ok(Some(t)) => {
                let v: Value = serde_json::from_str(&t).unwrap_or(Value::Null);
                let r = &v["result"];
                let st = Shadow {
                    mode: r["mode"].as_str().unwrap_or("?").to_string(),
                    quality: r["quality_enabled"].as_bool().unwrap_or(false),
                    stall: r["stall_deselect"].as_bool().unwrap_or(false),
                    min_in_flight: r["stall_min_in_flight"].as_i64().unwrap_or(i64::MIN) as i32,
                    ack_stale: r["stall_ack_stale_ms"].as_u64().unwrap_or(u64::MAX),
                    timeout: r["conn_timeout_ms"].as_u64().unwrap_or(u64::MAX),
                };
                if st != want {
                    mon.fail(
                        "C18",
                        &format!("set-not-visible:status:{tag}"),
                        format!("{tag}: get_status says {} but the requests so far imply {} (line {raw_hex})", st.show(), want.show()),
                    );
                }
            }
            _ => mon.fail("C18", &format!("panic:probe:{tag}"), format!("{tag}: get_status probe failed after line {raw_hex}")),
        }
        if now.timeout < T_MIN || now.timeout > T_MAX {
            mon.fail(
                "C18",
                &format!("timeout-range:{tag}"),
                format!("{tag}: conn_timeout_ms = {} outside 1000..60000 after line {raw_hex}", now.timeout),
            );
        }
    }

    fn exec_line(&mut self, raw_hex: &str, cls: &[&str], mon: &mut Mon) -> String {
        let Some(bytes) = parse_hex(raw_hex) else { return "bad-op".into() };
        let valid_utf8 = std::str::from_utf8(&bytes).is_ok();
        mon.count(if valid_utf8 { "bytes:utf8" } else { "bytes:invalid-utf8" });
        let raw = glue(&bytes);
        let parsed = mirror_parse(&raw);
        if classify_tokens(&parsed) != cls.join(" ") {
            // the stored decode is not what the mirror struct makes of the raw line
            return "bad-op:stale-decode".into();
        }
        self.session.push(bytes.clone());
        // recorded behaviour of the trusted parser (serde), counted so the evidence shows it was met
        let as_value: Option<Value> = serde_json::from_str(raw.trim()).ok();
        match &parsed {
            Parsed::Blank => mon.count("line:blank"),
            Parsed::Unparsable => {
                mon.count("line:unparsable");
                match &as_value {
                    None => mon.count("unparsable:not-json"),
                    Some(v) => {
                        mon.count("unparsable:valid-json-wrong-shape");
                        if v.get("id").map(|i| !i.is_null()).unwrap_or(false) {
                            // answered -32700 with id null although the text carries an id
                            mon.count("unparsable:json-object-with-id");
                        }
                    }
                }
            }
            Parsed::Req(r) => {
                if let Some(v) = &as_value {
                    if v.is_array() {
                        mon.count("request:serde-sequence-form");
                    }
                    if r.id.is_none() && v.get("id").map(Value::is_null).unwrap_or(false) {
                        mon.count("request:id-null-treated-as-absent");
                    }
                }
                mon.count("line:request");
                mon.count(if r.id.is_some() { "id:present" } else { "id:absent" });
                if r.jsonrpc != "2.0" {
                    mon.count("version:wrong");
                }
                let known = matches!(
                    r.method.as_str(),
                    "set_mode" | "set_quality" | "set_stall_deselect" | "set_conn_timeout" | "get_status"
                        | "get_stats" | "subscribe" | "unsubscribe" | "get_subscription_count"
                );
                mon.count(&format!("method:{}", if known { r.method.as_str() } else { "<other>" }));
            }
        }
        let mut texts: Vec<Option<String>> = Vec::new();
        let mut outs: Vec<String> = Vec::new();
        for entry in [Entry::Sync, Entry::AsyncNoCtx, Entry::AsyncCtx] {
            let text = match self.call(entry, &raw) {
                Ok(t) => t,
                Err(()) => {
                    mon.fail(
                        "C18",
                        &format!("panic:{}", entry.tag()),
                        format!("{}: dispatcher panicked on line {raw_hex}", entry.tag()),
                    );
                    texts.push(None);
                    outs.push("PANIC".into());
                    continue;
                }
            };
            let o = self.observe(entry, &parsed, &text, raw_hex, mon);
            self.check_effect(entry, &parsed, &text, raw_hex, mon);
            texts.push(text);
            outs.push(o);
        }
        // --- sync vs async
        let sub = matches!(&parsed, Parsed::Req(r) if r.jsonrpc == "2.0" && is_subscription_method(&r.method));
        if texts[0] != texts[1] {
            mon.fail(
                "C18",
                "sync-async-differ:A",
                format!("dispatch answered {:?}, dispatch_async(no ctx) answered {:?} for line {raw_hex}", texts[0], texts[1]),
            );
        }
        if !sub && texts[0] != texts[2] {
            mon.fail(
                "C18",
                "sync-async-differ:C",
                format!("dispatch answered {:?}, dispatch_async(ctx) answered {:?} for line {raw_hex}", texts[0], texts[2]),
            );
        }
        if sub {
            mon.count("subscription-method");
        }
        let cfgs: Vec<String> = self.slots.iter().map(|s| Shadow::of(&s.reader).show()).collect();
        if cfgs[0] != cfgs[1] || cfgs[0] != cfgs[2] {
            mon.fail(
                "C18",
                "sync-async-differ:config",
                format!("configs diverged S={} A={} C={} after line {raw_hex}", cfgs[0], cfgs[1], cfgs[2]),
            );
        }
        if self.changed_set && self.classes.len() >= 3 {
            mon.nontrivial();
        }
        let hub_len = self.rt.block_on(self.hub.len());
        let owned = if self.owned.is_empty() { "-".to_string() } else { self.owned.join("+") };
        let same = |a: &str, b: &str| if a == b { "=".to_string() } else { b.to_string() };
        format!(
            "S={} A={} C={} cS={} cA={} cC={} hub={}/{}",
            outs[0],
            same(&outs[0], &outs[1]),
            same(&outs[0], &outs[2]),
            cfgs[0],
            same(&cfgs[0], &cfgs[1]),
            same(&cfgs[0], &cfgs[2]),
            hub_len,
            owned
        )
    }

    /// The case's lines as one byte stream (each terminated by `\n`); whether any is not UTF-8.
    fn session_stream(&self) -> (Vec<u8>, bool) {
        let mut v = Vec::new();
        let mut bad = false;
        for l in &self.session {
            bad |= std::str::from_utf8(l).is_err();
            v.extend_from_slice(l);
            v.push(b'\n');
        }
        (v, bad)
    }

    /// Replays the case's raw byte lines through the REAL `spawn_stdin_listener`, running in a
    /// child process of this same binary (`control stdin-child`: piped stdin/stdout, fresh
    /// config), followed by a sentinel request.  What the child prints must be `dispatch` applied
    /// to the newline-delimited, lossily decoded pieces; the sentinel must be answered
    /// (`listener-died:stdin` otherwise).  One case in four; skipped once the listener has been
    /// seen dead in this process (each such session costs a timeout).
    fn stdin_session(&mut self, force: bool, mon: &mut Mon) {
        use std::io::{BufRead, Write};
        use std::sync::atomic::{AtomicBool, Ordering};
        static SEEN_DEAD: AtomicBool = AtomicBool::new(false);
        const SENTINEL: &str = r#"{"jsonrpc":"2.0","id":"verif-end-of-session","method":"get_status"}"#;
        if self.session.is_empty() || (!force && SEEN_DEAD.load(Ordering::Relaxed)) {
            return;
        }
        let (mut stream_bytes, has_bad) = self.session_stream();
        let mut h: u64 = 0x84222325cbf29ce4;
        for b in &stream_bytes {
            h = (h ^ *b as u64).wrapping_mul(0x100000001b3);
        }
        if !force && h % 4 != 0 {
            return;
        }
        mon.count("stdin-session");
        if has_bad {
            mon.count("stdin-session:with-invalid-utf8");
        }
        stream_bytes.extend_from_slice(SENTINEL.as_bytes());
        stream_bytes.push(b'\n');
        // expected, stated with the dispatcher itself
        let cfg_x = DynamicConfig::new();
        let stats_x = SharedStats::new();
        let cw_x = CriticalWindow::new();
        let mut expected: Vec<String> = Vec::new();
        for piece in stream_bytes.split(|b| *b == b'\n') {
            let piece = glue(piece);
            if let Some(r) = dispatch(&cfg_x, Some(&stats_x), Some(&cw_x), piece.trim()) {
                expected.push(r.to_json());
            }
        }
        let exe = match std::env::current_exe() {
            Ok(e) => e,
            Err(e) => {
                mon.fail("C18", "stdin-session:io", format!("current_exe: {e}"));
                return;
            }
        };
        let mut child = match std::process::Command::new(exe)
            .arg("stdin-child")
            .stdin(std::process::Stdio::piped())
            .stdout(std::process::Stdio::piped())
            .stderr(std::process::Stdio::null())
            .spawn()
        {
            Ok(c) => c,
            Err(e) => {
                mon.fail("C18", "stdin-session:io", format!("spawn child: {e}"));
                return;
            }
        };
        let mut cin = child.stdin.take().expect("child stdin");
        let cout = child.stdout.take().expect("child stdout");
        let writer = std::thread::spawn(move || {
            let _ = cin.write_all(&stream_bytes);
            let _ = cin.flush();
            // stdin is closed here: the listener sees EOF after the last line
        });
        let (tx, rx) = std::sync::mpsc::channel::<String>();
        let reader = std::thread::spawn(move || {
            let mut r = std::io::BufReader::new(cout);
            let mut buf = Vec::new();
            loop {
                buf.clear();
                match r.read_until(b'\n', &mut buf) {
                    Ok(0) | Err(_) => break,
                    Ok(_) => {
                        let l = String::from_utf8_lossy(&buf).trim_end_matches('\n').to_string();
                        if tx.send(l).is_err() {
                            break;
                        }
                    }
                }
            }
        });
        let mut got: Vec<String> = Vec::new();
        let mut sentinel_answered = false;
        loop {
            match rx.recv_timeout(std::time::Duration::from_millis(10000)) {
                Ok(l) => {
                    let is_sentinel = l.contains("\"id\":\"verif-end-of-session\"") && l.contains("\"result\"");
                    got.push(l);
                    if is_sentinel && got.len() >= expected.len() {
                        sentinel_answered = true;
                        break;
                    }
                }
                Err(_) => break,
            }
        }
        let _ = child.kill();
        let _ = child.wait();
        let _ = writer.join();
        let _ = reader.join();
        if !sentinel_answered {
            SEEN_DEAD.store(true, Ordering::Relaxed);
            mon.fail(
                "C18",
                if has_bad { "listener-died:stdin" } else { "listener-silent:stdin" },
                format!(
                    "the stdin listener answered {} of {} expected responses and never answered the final request{}",
                    got.len(),
                    expected.len(),
                    if has_bad { " (the session contains a line that is not valid UTF-8)" } else { "" }
                ),
            );
            return;
        }
        if got != expected {
            let k = (0..got.len().min(expected.len())).find(|&i| got[i] != expected[i]).unwrap_or(got.len().min(expected.len()));
            mon.fail(
                "C18",
                "stdin-session-differs",
                format!(
                    "stdin listener printed {} lines, dispatch {}; first difference at response {k}: listener {:?} vs dispatcher {:?}",
                    got.len(),
                    expected.len(),
                    got.get(k),
                    expected.get(k)
                ),
            );
        }
    }

    /// Replays the case's raw lines over a REAL Unix control socket (`control_socket::spawn`, fresh
    /// config / hub) and compares the byte stream that comes back with `dispatch_async` applied
    /// directly to the same newline-delimited pieces on another fresh config: one response line
    /// per answered request, in order, nothing for blank lines / notifications, same final config.
    /// Runs for one case in three (chosen from the session text, so replays are deterministic).
    fn socket_session(&mut self, force: bool, mon: &mut Mon) {
        use tokio::io::{AsyncReadExt, AsyncWriteExt};
        if self.session.is_empty() {
            return;
        }
        let (mut stream_bytes, has_bad) = self.session_stream();
        let mut h: u64 = 0xcbf29ce484222325;
        for b in &stream_bytes {
            h = (h ^ *b as u64).wrapping_mul(0x100000001b3);
        }
        if !force && h % 3 != 0 {
            return;
        }
        mon.count("socket-session");
        // every other session: the peer half-closes right after the last byte of its last request, WITHOUT a line
        // terminator (`printf '%s' '{..}' | socat`, a client that exits after its last byte): the request is complete
        // all the same - the stdin entry point answers it - and must be answered / applied here too
        if (h >> 17) % 2 == 0 && stream_bytes.last() == Some(&b'\n') {
            stream_bytes.pop();
            mon.count("socket-session:unterminated-last-line");
        }
        if has_bad {
            mon.count("socket-session:with-invalid-utf8");
        }
        // expected: the socket handler's contract, stated with the dispatcher itself
        let cfg_x = DynamicConfig::new();
        let stats_x = SharedStats::new();
        let cw_x = CriticalWindow::new();
        let hub_x = SubscriptionHub::new();
        let (tx, _rx) = mpsc::channel::<String>(128);
        let mut owned_x: Vec<String> = Vec::new();
        let mut expected = String::new();
        for piece in stream_bytes.split(|b| *b == b'\n') {
            let piece = glue(piece);
            let t = piece.trim();
            if t.is_empty() {
                continue;
            }
            let mut ctx = SubscriptionContext { hub: &hub_x, push_tx: tx.clone(), owned_ids: &mut owned_x };
            if let Some(r) =
                self.rt.block_on(dispatch_async(&cfg_x, Some(&stats_x), Some(&cw_x), Some(&mut ctx), t))
            {
                expected.push_str(&r.to_json());
                expected.push('\n');
            }
        }
        // actual: through the listener
        static SOCK_SEQ: std::sync::atomic::AtomicU64 = std::sync::atomic::AtomicU64::new(0);
        let path = format!(
            "/tmp/verif-c18-{}-{}.sock",
            std::process::id(),
            SOCK_SEQ.fetch_add(1, std::sync::atomic::Ordering::Relaxed)
        );
        let cfg_y = DynamicConfig::new();
        let (cfg_srv, path_srv) = (cfg_y.clone(), path.clone());
        let data = stream_bytes.clone();
        let got: Result<String, String> = self.rt.block_on(async move {
            let srv = srtla_send::control_socket::spawn(
                path_srv.clone(),
                cfg_srv,
                SharedStats::new(),
                CriticalWindow::new(),
                SubscriptionHub::new(),
            );
            let mut stream = None;
            for _ in 0..10000 {
                match tokio::net::UnixStream::connect(&path_srv).await {
                    Ok(s) => {
                        stream = Some(s);
                        break;
                    }
                    Err(_) => tokio::time::sleep(std::time::Duration::from_millis(1)).await,
                }
            }
            let Some(stream) = stream else {
                srv.abort();
                return Err("could not connect to the control socket".to_string());
            };
            let (mut rd, mut wr) = stream.into_split();
            let w = tokio::spawn(async move {
                let _ = wr.write_all(&data).await;
                let _ = wr.shutdown().await;
            });
            let mut out = Vec::new();
            let r = tokio::time::timeout(std::time::Duration::from_secs(20), rd.read_to_end(&mut out)).await;
            let _ = w.await;
            srv.abort();
            let _ = srv.await;
            match r {
                Ok(Ok(_)) => String::from_utf8(out).map_err(|e| format!("non-utf8 output: {e}")),
                Ok(Err(e)) => Err(format!("read error: {e}")),
                Err(_) => Err("timeout waiting for the socket to close".to_string()),
            }
        });
        let _ = std::fs::remove_file(&path);
        match got {
            Err(e) => mon.fail("C18", "socket-session:io", format!("socket session failed: {e}")),
            Ok(got) => {
                if got != expected {
                    if has_bad && got.len() < expected.len() && expected.starts_with(&got) {
                        // the connection was closed early: requests after the bad line went unanswered
                        mon.fail(
                            "C18",
                            "no-response-after-bad-utf8:socket",
                            format!(
                                "the control socket stopped answering after a line that is not valid UTF-8: {} of {} response bytes arrived",
                                got.len(),
                                expected.len()
                            ),
                        );
                    }
                    let (g, e): (Vec<&str>, Vec<&str>) = (got.lines().collect(), expected.lines().collect());
                    let k = (0..g.len().min(e.len())).find(|&i| g[i] != e[i]).unwrap_or(g.len().min(e.len()));
                    mon.fail(
                        "C18",
                        "socket-session-differs",
                        format!(
                            "control socket returned {} lines, dispatch_async {}; first difference at response {k}: socket {:?} vs dispatcher {:?}",
                            g.len(),
                            e.len(),
                            g.get(k),
                            e.get(k)
                        ),
                    );
                }
                let (sx, sy) = (Shadow::of(&cfg_x), Shadow::of(&cfg_y));
                if sx != sy {
                    mon.fail(
                        "C18",
                        "socket-session-differs:config",
                        format!("after the session the socket's config is {} but the dispatcher's is {}", sy.show(), sx.show()),
                    );
                }
                if !(T_MIN..=T_MAX).contains(&sy.timeout) {
                    mon.fail("C18", "timeout-range:socket", format!("conn_timeout_ms = {} after a socket session", sy.timeout));
                }
            }
        }
    }

    /// One connection of the REAL control socket with a live subscription: a request arrives in two
    /// pieces and an event of the subscribed topic is published between them. The request must be
    /// answered exactly as the dispatcher answers the whole line (same id, result, effect on the
    /// configuration); the pushed event is a separate line. Runs for one case in fifty (chosen from the
    /// session text) and in every `session` op.
    fn socket_split_session(&mut self, force: bool, mon: &mut Mon) {
        use tokio::io::{AsyncBufReadExt, AsyncWriteExt, BufReader};
        let (stream_bytes, _) = self.session_stream();
        let mut h: u64 = 0xcbf29ce484222325;
        for b in &stream_bytes {
            h = (h ^ *b as u64).wrapping_mul(0x100000001b3);
        }
        if !force && (self.session.is_empty() || h % 50 != 1) {
            return;
        }
        mon.count("socket-split-session");
        let ms = 1000 + (h >> 8) % 70_000;
        let request = match (h >> 4) % 3 {
            0 => format!(r#"{{"jsonrpc":"2.0","id":42,"method":"set_conn_timeout","params":{{"ms":{ms}}}}}"#),
            1 => format!(r#"{{"jsonrpc":"2.0","id":"q-{ms}","method":"set_quality","params":{{"enabled":{}}}}}"#, ms % 2 == 0),
            _ => r#"{"jsonrpc":"2.0","id":7,"method":"set_mode","params":{"mode":"classic"}}"#.to_string(),
        };
        let cut = 1 + ((h >> 16) as usize) % (request.len() - 1);
        let (first, second) = (request[..cut].to_string(), format!("{}\n", &request[cut..]));
        // expected answer and effect: the dispatcher on the whole line
        let cfg_x = DynamicConfig::new();
        let expected = self
            .rt
            .block_on(dispatch_async(&cfg_x, Some(&SharedStats::new()), Some(&CriticalWindow::new()), None, &request))
            .map(|r| r.to_json());
        static SPLIT_SEQ: std::sync::atomic::AtomicU64 = std::sync::atomic::AtomicU64::new(0);
        let path = format!(
            "/tmp/verif-c18s-{}-{}.sock",
            std::process::id(),
            SPLIT_SEQ.fetch_add(1, std::sync::atomic::Ordering::Relaxed)
        );
        let cfg_y = DynamicConfig::new();
        let hub = SubscriptionHub::new();
        let (cfg_srv, path_srv, hub_srv) = (cfg_y.clone(), path.clone(), hub.clone());
        let got: Result<Vec<String>, String> = self.rt.block_on(async move {
            let srv = srtla_send::control_socket::spawn(path_srv.clone(), cfg_srv, SharedStats::new(), CriticalWindow::new(), hub_srv);
            let mut stream = None;
            for _ in 0..10000 {
                match tokio::net::UnixStream::connect(&path_srv).await {
                    Ok(s) => {
                        stream = Some(s);
                        break;
                    }
                    Err(_) => tokio::time::sleep(std::time::Duration::from_millis(1)).await,
                }
            }
            let Some(stream) = stream else {
                srv.abort();
                return Err("could not connect to the control socket".to_string());
            };
            let (rd, mut wr) = stream.into_split();
            let mut rd = BufReader::new(rd);
            let mut lines: Vec<String> = Vec::new();
            let res: Result<(), String> = async {
                let sub = "{\"jsonrpc\":\"2.0\",\"id\":1,\"method\":\"subscribe\",\"params\":{\"topic\":\"stats\"}}\n";
                wr.write_all(sub.as_bytes()).await.map_err(|e| e.to_string())?;
                let mut l = String::new();
                tokio::time::timeout(std::time::Duration::from_secs(20), rd.read_line(&mut l))
                    .await
                    .map_err(|_| "timeout waiting for the subscribe answer".to_string())?
                    .map_err(|e| e.to_string())?;
                // first piece of the request, time for the server to consume it, an event, the rest
                wr.write_all(first.as_bytes()).await.map_err(|e| e.to_string())?;
                wr.flush().await.map_err(|e| e.to_string())?;
                tokio::time::sleep(std::time::Duration::from_millis(40)).await;
                hub.publish("stats", serde_json::json!({"tick": 1})).await;
                tokio::time::sleep(std::time::Duration::from_millis(40)).await;
                wr.write_all(second.as_bytes()).await.map_err(|e| e.to_string())?;
                let _ = wr.shutdown().await;
                loop {
                    let mut l = String::new();
                    let n = tokio::time::timeout(std::time::Duration::from_secs(20), rd.read_line(&mut l))
                        .await
                        .map_err(|_| "timeout waiting for the connection to close".to_string())?
                        .map_err(|e| e.to_string())?;
                    if n == 0 {
                        break;
                    }
                    lines.push(l.trim_end().to_string());
                }
                Ok(())
            }
            .await;
            srv.abort();
            let _ = srv.await;
            res.map(|_| lines)
        });
        let _ = std::fs::remove_file(&path);
        match got {
            // environment trouble is not the property's business
            Err(e) => {
                mon.count("socket-split-session:io");
                let _ = e;
            }
            Ok(lines) => {
                let answers: Vec<&String> = lines.iter().filter(|l| !l.contains("\"method\":\"stats.update\"")).collect();
                if lines.len() != answers.len() {
                    mon.count("socket-split-session:push-seen");
                }
                let want: Vec<String> = expected.into_iter().collect();
                let got: Vec<String> = answers.into_iter().cloned().collect();
                if got != want {
                    mon.fail(
                        "C18",
                        "socket-split-request",
                        format!(
                            "a request sent to the control socket in two pieces ({cut} + {} bytes) with a subscription event published in between was answered {got:?}; the dispatcher answers the whole line {want:?}",
                            request.len() - cut
                        ),
                    );
                }
                let (sx, sy) = (Shadow::of(&cfg_x), Shadow::of(&cfg_y));
                if sx != sy {
                    mon.fail(
                        "C18",
                        "socket-split-request:config",
                        format!("after the split request the socket's config is {} but the dispatcher's is {}", sy.show(), sx.show()),
                    );
                }
            }
        }
    }

    /// Real threads: concurrent setters (API and dispatcher) and snapshot / get_status readers on
    /// the S config.  Only range / echo facts are checked (the interleaving is not replayable).
    fn exec_race(&mut self, ms: &[u64], mon: &mut Mon) -> String {
        let violations = std::sync::Arc::new(std::sync::Mutex::new(Vec::<String>::new()));
        let rounds = 40usize;
        std::thread::scope(|sc| {
            for w in 0..2usize {
                let cfg = self.slots[0].cfg.clone();
                let v = violations.clone();
                let ms = ms.to_vec();
                sc.spawn(move || {
                    for k in 0..rounds {
                        let m = ms[(k + w) % ms.len()];
                        if w == 0 {
                            let a = cfg.set_conn_timeout_ms(m);
                            if a != clamp_lit(m) {
                                v.lock().unwrap().push(format!("set_conn_timeout_ms({m}) returned {a}"));
                            }
                        } else {
                            let line = format!(r#"{{"jsonrpc":"2.0","id":{k},"method":"set_conn_timeout","params":{{"ms":{m}}}}}"#);
                            let r = catch_unwind(AssertUnwindSafe(|| dispatch(&cfg, None, None, &line).map(|r| r.to_json())));
                            let echoed = r
                                .ok()
                                .flatten()
                                .and_then(|t| serde_json::from_str::<Value>(&t).ok())
                                .and_then(|v| v["result"]["ms"].as_u64());
                            if echoed != Some(clamp_lit(m)) {
                                v.lock().unwrap().push(format!("set_conn_timeout {m} over dispatch echoed {echoed:?}"));
                            }
                        }
                    }
                });
            }
            for rd in 0..2usize {
                let cfg = self.slots[0].reader.clone();
                let v = violations.clone();
                sc.spawn(move || {
                    for _ in 0..rounds {
                        let t = if rd == 0 {
                            cfg.snapshot().conn_timeout_ms
                        } else {
                            catch_unwind(AssertUnwindSafe(|| dispatch(&cfg, None, None, PROBE).map(|r| r.to_json())))
                                .ok()
                                .flatten()
                                .and_then(|t| serde_json::from_str::<Value>(&t).ok())
                                .and_then(|v| v["result"]["conn_timeout_ms"].as_u64())
                                .unwrap_or(0)
                        };
                        if !(T_MIN..=T_MAX).contains(&t) {
                            v.lock().unwrap().push(format!("reader {rd} observed conn_timeout_ms = {t}"));
                        }
                    }
                });
            }
        });
        for d in violations.lock().unwrap().iter() {
            mon.fail("C18", "timeout-range:race", d.clone());
        }
        mon.count("race");
        let last = *ms.last().unwrap();
        for s in self.slots.iter_mut() {
            let a = s.cfg.set_conn_timeout_ms(last);
            s.shadow.timeout = clamp_lit(last);
            if a != clamp_lit(last) {
                mon.fail("C18", "timeout-echo:api", format!("set_conn_timeout_ms({last}) returned {a}"));
            }
        }
        format!("race-ok cS={}", Shadow::of(&self.slots[0].reader).show())
    }
}

/// `par <rounds>`: concurrent setters of DIFFERENT knobs on one PRIVATE `DynamicConfig` (the case's three
/// configs are not touched, the op has no model state).  Four OS threads share clones of one fresh
/// config; thread A owns `mode`, B `quality_enabled`, C `stall_deselect`, D `conn_timeout_ms`.  Each
/// thread loops `rounds` times: pick the next value for ITS knob (it differs from the previous one, so
/// every set really changes the knob), apply it — rounds 0,1 mod 4 through the public setter, rounds 2,3 mod 4
/// through the real `dispatch` with a `set_*` request (whose reply must echo the value) — and read it back
/// at once — `snapshot()` after a setter, a `get_status` through `dispatch` after a dispatched set.  Nobody else writes
/// that knob, so the property ("a successful set_* is visible in the next status and configuration
/// snapshot", quantified over concurrent setters and snapshot readers) demands that the value just set is
/// the one read; with one independent atomic per knob this always holds (a thread reads its own last
/// store to an atomic only it writes).  A start barrier and no sleeps make the threads overlap.
/// One-sided and nondeterministic: a pass proves nothing, a failure is a real lost update.
/// Returns (number of violations, descriptions of the first few).
/// `get_stats` is answered while the housekeeping writer publishes (C18 quantifies over "concurrent setters and snapshot
/// readers"): one thread repeats `SharedStats::update` over `links` socket-free links - what the tail of the housekeeping arm
/// does once a second -, three threads repeat the REAL `dispatch` of a `get_stats` request with an id; every request must get
/// its one response.  One-sided: the watchdog fires only when NO thread has made any progress for 10 s (a deadlock between a
/// reader and the writer), never on slowness.  `Ok(n)` = n requests answered.
fn stats_par_stress(rt: &tokio::runtime::Runtime, links: usize, millis: u64) -> Result<u64, String> {
    use std::sync::Arc;
    use std::sync::atomic::{AtomicBool, AtomicU64, Ordering};
    // one wedge per process is enough: every further one would cost another 10 s of watchdog
    static WEDGED: AtomicBool = AtomicBool::new(false);
    if WEDGED.load(Ordering::Acquire) {
        return Ok(0);
    }
    let conns = rt.block_on(srtla_core::test_helpers::create_test_connections(links));
    let sh = SharedStats::new();
    sh.update(&conns, &srtla_core::ConfigSnapshot::default(), None, None);
    let stop = Arc::new(AtomicBool::new(false));
    let published = Arc::new(AtomicU64::new(0));
    let answered = Arc::new(AtomicU64::new(0));
    let bad = Arc::new(std::sync::Mutex::new(None::<String>));
    let mut handles = Vec::new();
    {
        let (sh, stop, published) = (sh.clone(), stop.clone(), published.clone());
        handles.push(std::thread::spawn(move || {
            let cfg = srtla_core::ConfigSnapshot::default();
            while !stop.load(Ordering::Acquire) {
                sh.update(&conns, &cfg, None, None);
                published.fetch_add(1, Ordering::AcqRel);
            }
        }));
    }
    for _ in 0..3 {
        let (sh, stop, answered, bad) = (sh.clone(), stop.clone(), answered.clone(), bad.clone());
        handles.push(std::thread::spawn(move || {
            let cfg = DynamicConfig::new();
            while !stop.load(Ordering::Acquire) {
                let r = dispatch(&cfg, Some(&sh), None, r#"{"jsonrpc":"2.0","id":7,"method":"get_stats"}"#);
                match r.map(|r| r.to_json()) {
                    Some(t) if t.contains("\"result\"") && t.contains("\"id\":7") => {
                        answered.fetch_add(1, Ordering::AcqRel);
                    }
                    other => {
                        *bad.lock().unwrap() = Some(format!("get_stats with id 7 answered {other:?}"));
                        return;
                    }
                }
            }
        }));
    }
    let t0 = std::time::Instant::now();
    let mut last = (0u64, 0u64, std::time::Instant::now());
    loop {
        std::thread::sleep(std::time::Duration::from_millis(25));
        let now = (published.load(Ordering::Acquire), answered.load(Ordering::Acquire));
        if now.0 != last.0 || now.1 != last.1 {
            last = (now.0, now.1, std::time::Instant::now());
        }
        if last.2.elapsed() > std::time::Duration::from_secs(10) {
            // the threads are wedged: they cannot be joined; they are left behind (they hold nothing the harness needs)
            stop.store(true, Ordering::Release);
            WEDGED.store(true, Ordering::Release);
            return Err(format!(
                "{links} links: no get_stats request was answered and no snapshot was published for 10 s ({} answered, {} published before): a snapshot reader and the housekeeping writer block each other",
                now.1, now.0
            ));
        }
        if t0.elapsed() > std::time::Duration::from_millis(millis) && last.2.elapsed() < std::time::Duration::from_millis(200) {
            break;
        }
    }
    stop.store(true, Ordering::Release);
    // the threads may wedge in their very last round: never join one that has not finished
    let t1 = std::time::Instant::now();
    while handles.iter().any(|h| !h.is_finished()) {
        if t1.elapsed() > std::time::Duration::from_secs(10) {
            WEDGED.store(true, Ordering::Release);
            return Err(format!(
                "{links} links: after {} answered get_stats requests and {} published snapshots the reader and writer threads never came back (10 s): a snapshot reader and the housekeeping writer block each other",
                answered.load(Ordering::Acquire),
                published.load(Ordering::Acquire)
            ));
        }
        std::thread::sleep(std::time::Duration::from_millis(5));
    }
    for h in handles {
        let _ = h.join();
    }
    if let Some(d) = bad.lock().unwrap().take() {
        return Err(d);
    }
    Ok(answered.load(Ordering::Acquire))
}

fn par_stress(rounds: usize) -> (usize, Vec<String>) {
    use std::sync::{Arc, Barrier, Mutex};
    const KNOBS: [&str; 4] = ["mode", "quality_enabled", "stall_deselect", "conn_timeout_ms"];
    let cfg = DynamicConfig::new();
    let barrier = Arc::new(Barrier::new(KNOBS.len()));
    let bad: Arc<Mutex<(usize, Vec<String>)>> = Arc::new(Mutex::new((0, Vec::new())));
    std::thread::scope(|sc| {
        for (t, knob) in KNOBS.iter().enumerate() {
            let cfg = cfg.clone();
            let barrier = barrier.clone();
            let bad = bad.clone();
            sc.spawn(move || {
                let report = |d: String| {
                    let mut g = bad.lock().unwrap();
                    g.0 += 1;
                    if g.1.len() < 4 {
                        g.1.push(d);
                    }
                };
                let call = |line: &str| -> Option<Value> {
                    catch_unwind(AssertUnwindSafe(|| dispatch(&cfg, None, None, line).map(|r| r.to_json())))
                        .ok()
                        .flatten()
                        .and_then(|t| serde_json::from_str::<Value>(&t).ok())
                };
                barrier.wait();
                for k in 0..rounds {
                    // two rounds through the setters, two through the dispatcher, ...
                    let via_dispatch = (k / 2) % 2 == 1;
                    // the value for this round (toggles every round, so both paths set both values),
                    // `want` below is the canonical text the status / snapshot shows for it
                    let flag = k % 2 == 0;
                    let ms_req: u64 = match k % 7 {
                        0 => 0,
                        1 => 999,
                        2 => 60001,
                        3 => u64::MAX,
                        _ => 1000 + ((k as u64).wrapping_mul(7919) % 59001),
                    };
                    let want: String = match t {
                        0 => (if flag { "classic" } else { "enhanced" }).to_string(),
                        1 | 2 => show_bool(flag).to_string(),
                        _ => clamp_lit(ms_req).to_string(),
                    };
                    // --- set
                    if !via_dispatch {
                        match t {
                            0 => cfg.set_mode(if flag { SchedulingMode::Classic } else { SchedulingMode::Enhanced }),
                            1 => cfg.set_quality_enabled(flag),
                            2 => cfg.set_stall_deselect(flag),
                            _ => {
                                let a = cfg.set_conn_timeout_ms(ms_req);
                                if a.to_string() != want {
                                    report(format!("round {k}: set_conn_timeout_ms({ms_req}) returned {a}, clamp is {want}"));
                                }
                            }
                        }
                    } else {
                        let (method, params, member) = match t {
                            0 => ("set_mode", format!(r#"{{"mode":"{want}"}}"#), "mode"),
                            1 => ("set_quality", format!(r#"{{"enabled":{flag}}}"#), "enabled"),
                            2 => ("set_stall_deselect", format!(r#"{{"enabled":{flag}}}"#), "enabled"),
                            _ => ("set_conn_timeout", format!(r#"{{"ms":{ms_req}}}"#), "ms"),
                        };
                        let line = format!(r#"{{"jsonrpc":"2.0","id":{k},"method":"{method}","params":{params}}}"#);
                        let echoed = call(&line).map(|v| match &v["result"][member] {
                            Value::String(s) => s.clone(),
                            Value::Bool(b) => show_bool(*b).to_string(),
                            Value::Number(n) => n.to_string(),
                            other => format!("?{other}"),
                        });
                        if echoed.as_deref() != Some(want.as_str()) {
                            report(format!("round {k}: {method} {params} over dispatch answered {echoed:?}, expected {want}"));
                        }
                    }
                    // --- read back at once
                    let (got, how): (String, &str) = if !via_dispatch {
                        let s = cfg.snapshot();
                        (
                            match t {
                                0 => s.mode.to_string(),
                                1 => show_bool(s.quality_enabled).to_string(),
                                2 => show_bool(s.stall_deselect).to_string(),
                                _ => s.conn_timeout_ms.to_string(),
                            },
                            "snapshot()",
                        )
                    } else {
                        let r = call(PROBE).map(|v| v["result"].clone()).unwrap_or(Value::Null);
                        (
                            match t {
                                0 => r["mode"].as_str().unwrap_or("?").to_string(),
                                1 => r["quality_enabled"].as_bool().map(|b| show_bool(b).to_string()).unwrap_or("?".into()),
                                2 => r["stall_deselect"].as_bool().map(|b| show_bool(b).to_string()).unwrap_or("?".into()),
                                _ => r["conn_timeout_ms"].as_u64().map(|x| x.to_string()).unwrap_or("?".into()),
                            },
                            "get_status",
                        )
                    };
                    if got != want {
                        report(format!(
                            "knob {knob} round {k}: set to {want} ({}), the {how} taken right after by the same thread shows {got} \
                             although no other thread writes this knob (threads: mode / quality / stall_deselect / timeout setters in parallel)",
                            if via_dispatch { "dispatch" } else { "setter" }
                        ));
                    }
                }
            });
        }
    });
    let g = bad.lock().unwrap();
    (g.0, g.1.clone())
}

// ------------------------------------------------------------------------------------------
// Generator

fn json_str(s: &str) -> String {
    serde_json::to_string(&Value::String(s.to_string())).unwrap()
}

fn rand_unicode(rng: &mut Rng, max: usize) -> String {
    let n = rng.below(max as u64 + 1) as usize;
    let mut s = String::new();
    for _ in 0..n {
        let c = match rng.below(8) {
            0 => char::from_u32(rng.below(0x20) as u32),               // control
            1 => Some(*rng.pick(&['"', '\\', '{', '}', '[', ']', ':', ',', '\'', '/', ' '])),
            2 => char::from_u32(0x80 + rng.below(0x780) as u32),       // 2-byte
            3 => char::from_u32(0x800 + rng.below(0xF000) as u32),     // 3-byte (surrogates → None)
            4 => char::from_u32(0x10000 + rng.below(0x100000) as u32), // 4-byte
            5 => Some(*rng.pick(&['\u{a0}', '\u{2003}', '\u{feff}', '\u{85}', '\u{200b}', '\u{7f}', '\u{2028}'])),
            _ => char::from_u32(0x20 + rng.below(0x5f) as u32),
        };
        s.push(c.unwrap_or('\u{fffd}'));
    }
    s
}

fn gen_id(rng: &mut Rng) -> Option<String> {
    // None = member absent
    Some(
        match rng.below(24) {
            0 | 1 | 2 => return None,
            3 | 4 => "null".into(),
            5 => "0".into(),
            6 => format!("{}", rng.below(1000)),
            7 => format!("-{}", 1 + rng.below(1000)),
            8 => (*rng.pick(&["1.5", "-0.25", "1e3", "2.5E-3", "-0", "0.1", "1e300", "5e-324", "123456789.125"])).into(),
            9 => (*rng.pick(&["18446744073709551615", "18446744073709551616", "9223372036854775807", "9223372036854775808",
                "-9223372036854775808", "-9223372036854775809", "340282366920938463463374607431768211456"])).into(),
            10 => "\"abc\"".into(),
            11 => "\"\"".into(),
            12 => json_str(&rand_unicode(rng, 12)),
            13 => "true".into(),
            14 => "false".into(),
            15 => "[]".into(),
            16 => "[1,\"a\",null,[true,{}]]".into(),
            17 => "{}".into(),
            18 => "{\"a\":{\"b\":[1,-2,3.5]},\"\":null}".into(),
            19 => format!("\"{}\"", "x".repeat(200 + rng.below(300) as usize)),
            20 => "\"1\"".into(),
            21 => "{\"z\":1,\"a\":2,\"z\":3}".into(),
            22 => "\"\\u0000\\n\\\"\"".into(),
            _ => format!("{}", rng.next_u64()),
        },
    )
}

fn gen_version(rng: &mut Rng) -> Option<String> {
    if rng.chance(9, 10) {
        return Some("\"2.0\"".into());
    }
    match rng.below(12) {
        0 => None,
        1 => Some("\"1.0\"".into()),
        2 => Some("\"2\"".into()),
        3 => Some("\"2.00\"".into()),
        4 => Some("\"\"".into()),
        5 => Some("2.0".into()),
        6 => Some("null".into()),
        7 => Some("\" 2.0\"".into()),
        8 => Some("\"2.0 \"".into()),
        9 => Some("\"\\u0032.0\"".into()), // decodes to 2.0
        10 => Some("[\"2.0\"]".into()),
        _ => Some(json_str(&rand_unicode(rng, 5))),
    }
}

const MS_EDGE: [&str; 34] = [
    "0", "1", "999", "1000", "1001", "4999", "5000", "5001", "59999", "60000", "60001", "65535", "65536",
    "4294967295", "4294967296", "9223372036854775807", "9223372036854775808", "18446744073709551615",
    "18446744073709551616", "1e19", "-1", "-1000", "-0", "1000.0", "1e3", "5000.5", "\"5000\"", "null", "true",
    "[5000]", "{}", "{\"ms\":5000}", "0.0", "6e4",
];

fn gen_params(rng: &mut Rng, method: &str) -> Option<String> {
    // None = member absent
    if rng.chance(1, 14) {
        return None;
    }
    if rng.chance(1, 14) {
        return Some((*rng.pick(&["null", "[]", "[\"classic\"]", "\"classic\"", "5000", "true", "{}", "[true]", "{\"x\":{\"mode\":\"classic\"}}"])).into());
    }
    let p = match method {
        "set_mode" => {
            let v: String = match rng.below(16) {
                0..=3 => "\"classic\"".into(),
                4..=7 => "\"enhanced\"".into(),
                8 => (*rng.pick(&["\"Classic\"", "\"ENHANCED\"", "\"\"", "\"classic \"", "\" enhanced\"", "\"cl\\u0430ssic\"", "\"classic\\u0000\""])).into(),
                9 => (*rng.pick(&["1", "null", "true", "[\"classic\"]", "{\"mode\":\"classic\"}", "0"])).into(),
                10 => "\"\\u0063lassic\"".into(), // escapes decode to classic
                11 => json_str(&rand_unicode(rng, 10)),
                12 => format!("\"{}\"", "m".repeat(300)),
                13 => "\"it's \\\"quoted\\\"\\n\"".into(),
                _ => "\"enhanced\"".into(),
            };
            match rng.below(10) {
                0 => format!("{{\"mode\":{v},\"mode\":\"bogus\"}}"),
                1 => format!("{{\"mode\":\"bogus\",\"mode\":{v}}}"),
                2 => format!("{{\"Mode\":{v}}}"),
                3 => format!("{{\"extra\":[1,2],\"mode\":{v},\"enabled\":true}}"),
                _ => format!("{{\"mode\":{v}}}"),
            }
        }
        "set_quality" | "set_stall_deselect" => {
            let v: String = match rng.below(14) {
                0..=3 => "true".into(),
                4..=7 => "false".into(),
                8 => (*rng.pick(&["\"true\"", "1", "0", "null", "[true]", "{}", "\"\"", "1.0"])).into(),
                _ => (*rng.pick(&["true", "false"])).into(),
            };
            match rng.below(10) {
                0 => format!("{{\"enabled\":{v},\"enabled\":null}}"),
                1 => format!("{{\"Enabled\":{v}}}"),
                2 => format!("{{\"enable\":{v}}}"),
                3 => format!("{{\"mode\":\"classic\",\"enabled\":{v},\"ms\":1}}"),
                _ => format!("{{\"enabled\":{v}}}"),
            }
        }
        "set_conn_timeout" => {
            let v: String = match rng.below(10) {
                0..=5 => (*rng.pick(&MS_EDGE)).into(),
                6 | 7 => format!("{}", rng.below(70000)),
                8 => format!("{}", rng.next_u64()),
                _ => format!("{}", 900 + rng.below(200)),
            };
            match rng.below(10) {
                0 => format!("{{\"ms\":{v},\"ms\":\"x\"}}"),
                1 => format!("{{\"MS\":{v}}}"),
                2 => format!("{{\"timeout\":{v}}}"),
                _ => format!("{{\"ms\":{v}}}"),
            }
        }
        "subscribe" => {
            let v: String = match rng.below(8) {
                0..=2 => "\"stats\"".into(),
                3 | 4 => "\"priority.window\"".into(),
                5 => (*rng.pick(&["\"bogus\"", "\"\"", "\"Stats\"", "\"stats \""])).into(),
                6 => (*rng.pick(&["5", "null", "[\"stats\"]", "true"])).into(),
                _ => json_str(&rand_unicode(rng, 6)),
            };
            if rng.chance(1, 8) { format!("{{\"Topic\":{v}}}") } else { format!("{{\"topic\":{v}}}") }
        }
        "unsubscribe" => {
            let v: String = match rng.below(8) {
                0..=4 => format!("\"sub-{}\"", rng.below(5)),
                5 => (*rng.pick(&["\"bogus\"", "\"\"", "\"sub-\"", "\"SUB-0\""])).into(),
                6 => (*rng.pick(&["0", "null", "[\"sub-0\"]"])).into(),
                _ => json_str(&rand_unicode(rng, 6)),
            };
            if rng.chance(1, 8) { format!("{{\"id\":{v}}}") } else { format!("{{\"subscription_id\":{v}}}") }
        }
        _ => match rng.below(4) {
            0 => "{}".into(),
            1 => "{\"mode\":\"classic\",\"enabled\":false,\"ms\":1}".into(),
            2 => "[1,2,3]".into(),
            _ => "null".into(),
        },
    };
    Some(p)
}

const METHODS: [&str; 9] = [
    "set_mode", "set_quality", "set_stall_deselect", "set_conn_timeout", "get_status", "get_stats", "subscribe",
    "unsubscribe", "get_subscription_count",
];

fn gen_method(rng: &mut Rng) -> (String, String) {
    // (JSON text of the member value, the method whose params to generate)
    if rng.chance(5, 6) {
        let m = *rng.pick(&METHODS);
        if rng.chance(1, 20) {
            // same string through an escape
            let mut cs = m.chars();
            let first = cs.next().unwrap();
            return (format!("\"\\u{:04x}{}\"", first as u32, cs.as_str()), m.to_string());
        }
        return (format!("\"{m}\""), m.to_string());
    }
    let pm = (*rng.pick(&METHODS)).to_string();
    let t: String = match rng.below(14) {
        0 => "\"\"".into(),
        1 => "\"noop\"".into(),
        2 => "\"SET_MODE\"".into(),
        3 => "\"set_mode \"".into(),
        4 => "\" get_status\"".into(),
        5 => "\"get_status\\u0000\"".into(),
        6 => "\"stats\"".into(),
        7 => "\"rpc.discover\"".into(),
        8 => json_str(&rand_unicode(rng, 12)),
        9 => format!("\"{}\"", "q".repeat(400)),
        10 => (*rng.pick(&["5", "null", "true", "[\"get_status\"]", "{\"name\":\"get_status\"}"])).into(),
        11 => "\"set_conn_timeout_ms\"".into(),
        12 => "\"mark_critical\"".into(),
        _ => "\"get_statu\"".into(),
    };
    (t, pm)
}

fn gen_request(rng: &mut Rng) -> String {
    let (mtext, pm) = gen_method(rng);
    let mut members: Vec<String> = Vec::new();
    if let Some(v) = gen_version(rng) {
        members.push(format!("\"jsonrpc\":{v}"));
    }
    if !rng.chance(1, 40) {
        members.push(format!("\"method\":{mtext}"));
    }
    if let Some(p) = gen_params(rng, &pm) {
        members.push(format!("\"params\":{p}"));
    }
    if let Some(i) = gen_id(rng) {
        members.push(format!("\"id\":{i}"));
    }
    if rng.chance(1, 12) {
        members.push((*rng.pick(&["\"extra\":1", "\"result\":{}", "\"error\":null", "\"Id\":7", "\"ID\":7", "\"\":\"\""])).into());
    }
    if rng.chance(1, 25) && !members.is_empty() {
        // duplicate member (serde: "duplicate field" error for struct fields)
        let k = rng.below(members.len() as u64) as usize;
        members.push(members[k].clone());
    }
    // shuffle
    for i in (1..members.len()).rev() {
        let j = rng.below(i as u64 + 1) as usize;
        members.swap(i, j);
    }
    let sep = *rng.pick(&[",", ", ", " ,\t", ",\n"]);
    let mut s = format!("{{{}}}", members.join(sep));
    match rng.below(12) {
        0 => s = format!("  {s}"),
        1 => s = format!("{s}\r\n"),
        2 => s = format!("\t{s} \u{a0}"),
        3 => s = format!("\u{2003}{s}"),
        _ => {}
    }
    s
}

fn gen_other_json(rng: &mut Rng) -> String {
    match rng.below(22) {
        0 => "null".into(),
        1 => "true".into(),
        2 => format!("{}", rng.next_u64()),
        3 => "-1.5e10".into(),
        4 => "\"get_status\"".into(),
        5 => "[]".into(),
        6 => "{}".into(),
        // serde derive accepts the sequence form of a struct
        7 => "[\"2.0\",\"get_status\"]".into(),
        8 => "[\"2.0\",\"set_mode\",{\"mode\":\"classic\"},7]".into(),
        9 => "[\"2.0\",\"set_conn_timeout\",{\"ms\":1},null]".into(),
        10 => "[\"2.0\",\"get_status\",null,1,\"extra\"]".into(),
        11 => "[\"2.0\"]".into(),
        12 => "[\"1.0\",\"get_status\",null,\"x\"]".into(),
        13 => "{\"jsonrpc\":\"2.0\",\"id\":1}".into(),
        14 => "{\"method\":\"get_status\",\"id\":1}".into(),
        15 => "{\"jsonrpc\":\"2.0\",\"method\":\"get_status\",\"id\":1}{\"jsonrpc\":\"2.0\",\"method\":\"get_status\",\"id\":2}".into(),
        16 => "[{\"jsonrpc\":\"2.0\",\"method\":\"get_status\",\"id\":1}]".into(), // JSON-RPC batch
        17 => "{\"jsonrpc\":\"2.0\",\"method\":\"get_status\",\"id\":1e999}".into(),
        18 => "{\"jsonrpc\":\"2.0\",\"method\":\"get_status\",\"params\":{\"a\":{\"b\":{\"c\":[[[[1]]]]}}},\"id\":1}".into(),
        19 => format!("{}1{}", "[".repeat(127), "]".repeat(127)),
        20 => format!("{{\"jsonrpc\":\"2.0\",\"method\":\"get_status\",\"id\":{}1{}}}", "[".repeat(126), "]".repeat(126)),
        _ => format!("{{\"jsonrpc\":\"2.0\",\"method\":\"get_status\",\"id\":{}1{}}}", "[".repeat(140), "]".repeat(140)),
    }
}

fn gen_malformed(rng: &mut Rng) -> String {
    let base = gen_request(rng);
    match rng.below(16) {
        0 | 1 | 2 => {
            // truncate at a char boundary
            let t = base.trim();
            if t.is_empty() {
                return "{".into();
            }
            let mut e = rng.below(t.len() as u64) as usize;
            while !t.is_char_boundary(e) {
                e -= 1;
            }
            t[..e].to_string()
        }
        3 => base.trim().replacen('}', ",}", 1),
        4 => base.replace('"', "'"),
        5 => "{jsonrpc:\"2.0\",method:\"get_status\",id:1}".into(),
        6 => "{\"jsonrpc\":\"2.0\",\"method\":\"get_status\",\"id\":NaN}".into(),
        7 => format!("{} garbage", base.trim()),
        8 => format!("\u{feff}{base}"),
        9 => "{\"jsonrpc\":\"2.0\",\"method\":\"get_status\",\"id\":\"\\ud800\"}".into(),
        10 => "{\"jsonrpc\":\"2.0\",\"method\":\"get_\\xstatus\",\"id\":1}".into(),
        11 => "{\"jsonrpc\":\"2.0\",\"method\":\"get_status\u{1}\",\"id\":1}".into(), // raw control char in string
        12 => "{\"jsonrpc\":\"2.0\",\"method\":\"get_status\",\"id\":01}".into(),
        13 => "{\"jsonrpc\":\"2.0\",\"method\":\"get_status\",\"id\":1,}".into(),
        14 => format!("{}", "[".repeat(200)),
        _ => "{\"jsonrpc\":\"2.0\",\"method\":\"get_status\",\"id\":+1}".into(),
    }
}

fn gen_blank(rng: &mut Rng) -> String {
    (*rng.pick(&["", " ", "\t", "   \t ", "\r\n", "\u{a0}", "\u{2003} \u{2028}", "\u{85}", "\u{feff}", "\u{200b}", "\u{b}\u{c}", "\u{0}"])).into()
}

fn gen_line(rng: &mut Rng) -> String {
    match rng.below(24) {
        0..=17 => gen_request(rng),
        18 | 19 => gen_other_json(rng),
        20 | 21 => gen_malformed(rng),
        22 => gen_blank(rng),
        _ => rand_unicode(rng, 40),
    }
}

/// A line as bytes: mostly the UTF-8 of `gen_line`, sometimes not valid UTF-8 at all.
fn gen_line_bytes(rng: &mut Rng) -> Vec<u8> {
    if !rng.chance(1, 8) {
        return gen_line(rng).into_bytes();
    }
    const BAD: [&[u8]; 10] = [
        b"\xff", b"\xfe", b"\x80", b"\xc0\xaf", b"\xc3", b"\xe2\x82", b"\xf0\x9f\x98", b"\xed\xa0\x80",
        b"\xf8\x88\x80\x80\x80", b"\xc1\xbf",
    ];
    let bad: &[u8] = BAD[rng.below(BAD.len() as u64) as usize];
    match rng.below(8) {
        0 => {
            // pure garbage bytes (no newline)
            let n = 1 + rng.below(24) as usize;
            rng.bytes(n).into_iter().map(|b| if b == b'\n' { 0xff } else { b }).collect()
        }
        1 => bad.to_vec(),
        2 => {
            // inside a string value: still valid JSON after lossy decoding (U+FFFD in the id)
            let mut v = b"{\"jsonrpc\":\"2.0\",\"method\":\"get_status\",\"id\":\"a".to_vec();
            v.extend_from_slice(bad);
            v.extend_from_slice(b"z\"}");
            v
        }
        3 => {
            // inside the method name / a param string
            let mut v = b"{\"jsonrpc\":\"2.0\",\"id\":1,\"method\":\"set_mode\",\"params\":{\"mode\":\"classic".to_vec();
            v.extend_from_slice(bad);
            v.extend_from_slice(b"\"}}");
            v
        }
        4 => {
            // between tokens: breaks the JSON
            let mut v = b"{\"jsonrpc\":\"2.0\",".to_vec();
            v.extend_from_slice(bad);
            v.extend_from_slice(b"\"id\":1,\"method\":\"get_status\"}");
            v
        }
        5 => {
            // only invalid bytes and whitespace
            let mut v = b"  ".to_vec();
            v.extend_from_slice(bad);
            v.extend_from_slice(b" \t");
            v
        }
        _ => {
            // a generated line with one byte overwritten / a byte inserted
            let mut v = gen_line(rng).into_bytes();
            if v.is_empty() {
                return bad.to_vec();
            }
            let k = rng.below(v.len() as u64) as usize;
            if rng.chance(1, 2) {
                v[k] = *rng.pick(&[0xffu8, 0x80, 0xc0, 0xfe, 0x00]);
            } else {
                let tail = v.split_off(k);
                v.extend_from_slice(bad);
                v.extend_from_slice(&tail);
            }
            for b in v.iter_mut() {
                if *b == b'\n' {
                    *b = b' ';
                }
            }
            v
        }
    }
}

impl Component for Control {
    fn rule(&self) -> &'static str {
        "control: a case is 5-20 ops on three fresh DynamicConfigs (dispatch / dispatch_async without ctx / with \
         ctx); `line` = one raw input line as BYTES (hex; one in eight is not valid UTF-8: garbage, overlong / \
         truncated / surrogate sequences inside strings, between tokens, alone) decoded like the listeners do \
         (from_utf8_lossy) + the mirror-struct decode: well-formed requests (9 built-in \
         methods and unknown ones x well-typed / ill-typed / missing / duplicate / extreme params, ms at \
         0,999,1000,1001,59999,60000,60001,2^32,2^63,2^64-1,2^64,floats,negatives,strings; ids of every JSON type \
         incl. null/absent/huge/float/nested; jsonrpc right, wrong, missing, non-string; escapes, member order, \
         inner whitespace, duplicate members, padding), valid JSON of other shapes (scalars, arrays incl. the serde \
         sequence form, batches, missing members, nesting at the recursion limit), malformed JSON (truncation, \
         trailing commas, quotes, BOM, lone surrogates, raw control chars, leading zeros), blank / unicode \
         whitespace lines, random unicode; plus `cli` (from_cli with extreme timeouts), `env` (stats provider absent / default / \
         updated from 0-4 test links, CriticalWindow passed or not), `cw` (sidecar counters) `race` (real \
         threads: concurrent setters and snapshot/get_status readers) and, in about one case in 100, `par` (four real \
         threads each setting its OWN knob of one private config and reading it back at once); one case in three is also replayed \
         over a real Unix control socket and one in four through the real stdin listener (child process) at \
         the end of the case. Non-trivial: at least one successful set_* that changed the \
         configuration and at least three distinct response classes (ok / an error code / no response)."
    }

    fn gen_case(&mut self, rng: &mut Rng, tier: Tier, _idx: usize) -> Vec<String> {
        let mut ops = Vec::new();
        if rng.chance(1, 4) {
            let t = match rng.below(8) {
                0 => 0,
                1 => 999,
                2 => 1000,
                3 => 60000,
                4 => 60001,
                5 => u64::MAX,
                6 => rng.below(70000),
                _ => rng.next_u64(),
            };
            let minif: i32 = match rng.below(5) {
                0 => 0,
                1 => -1,
                2 => i32::MIN,
                3 => i32::MAX,
                _ => rng.below(100) as i32,
            };
            let stale = match rng.below(4) {
                0 => 0,
                1 => u64::MAX,
                _ => rng.below(10000),
            };
            ops.push(format!(
                "cli {} {} {} {} {} {}",
                rng.pick(&["classic", "enhanced"]),
                rng.below(2),
                rng.below(2),
                minif,
                stale,
                t
            ));
        }
        if rng.chance(1, 2) {
            ops.push(gen_env(rng));
        }
        let n = 5 + rng.below(16) as usize;
        for _ in 0..n {
            match rng.below(40) {
                0 => ops.push(gen_env(rng)),
                1 => ops.push(format!("cw extend {}", rng.next_u64())),
                2 => ops.push("cw malformed".into()),
                3 if tier == Tier::Thorough || rng.chance(1, 3) => {
                    let k = 1 + rng.below(5) as usize;
                    let l: Vec<u64> = (0..k)
                        .map(|_| match rng.below(6) {
                            0 => 0,
                            1 => 999,
                            2 => 60001,
                            3 => u64::MAX,
                            4 => rng.below(70000),
                            _ => 1000 + rng.below(59001),
                        })
                        .collect();
                    ops.push(format!("race {}", join_list(&l)));
                }
                _ => ops.push(line_op(&gen_line_bytes(rng))),
            }
        }
        // ~1 case in 100: real threads setting DIFFERENT knobs of one private config concurrently
        if rng.chance(1, 100) {
            let at = rng.below(ops.len() as u64 + 1) as usize;
            ops.insert(at, format!("par {}", if tier == Tier::Thorough { 5000 } else { 2000 }));
        }
        ops
    }

    fn start_case(&mut self) {
        *self = Control::new();
    }

    fn end_case(&mut self, mon: &mut Mon) {
        self.socket_session(false, mon);
        self.socket_split_session(false, mon);
        self.stdin_session(false, mon);
    }

    fn exec(&mut self, toks: &[&str], mon: &mut Mon) -> String {
        match toks {
            ["line", raw, cls @ ..] => self.exec_line(raw, cls, mon),
            ["cli", mode, noq, nostall, minif, stale, timeout] => {
                let mode = match *mode {
                    "classic" => SchedulingMode::Classic,
                    "enhanced" => SchedulingMode::Enhanced,
                    _ => return "bad-op".into(),
                };
                let (Some(noq), Some(nostall)) = (parse_b(noq), parse_b(nostall)) else { return "bad-op".into() };
                let (Ok(minif), Ok(stale), Ok(timeout)) = (minif.parse::<i32>(), stale.parse::<u64>(), timeout.parse::<u64>())
                else {
                    return "bad-op".into();
                };
                let want = Shadow {
                    mode: mode.to_string(),
                    quality: !noq,
                    stall: !nostall,
                    min_in_flight: minif,
                    ack_stale: stale,
                    timeout: clamp_lit(timeout),
                };
                for s in self.slots.iter_mut() {
                    *s = Slot::new(DynamicConfig::from_cli(mode, noq, nostall, minif, stale, timeout), want.clone());
                }
                let got = Shadow::of(&self.slots[0].reader);
                mon.count("cli");
                if got != want {
                    mon.fail(
                        "C18",
                        if got.timeout != want.timeout { "timeout-range:from_cli" } else { "config-drift:from_cli" },
                        format!("from_cli gave {} expected {}", got.show(), want.show()),
                    );
                }
                format!("cfg={}", got.show())
            }
            ["env", st, cw, recipe] => {
                let (Some(st), Some(cw), Some(recipe)) = (kv(&[st], "stats"), kv_bool(&[cw], "cw"), kv(&[recipe], "recipe"))
                else {
                    return "bad-op".into();
                };
                if st == "-" {
                    if recipe != "none" {
                        return "bad-op".into();
                    }
                    self.stats = None;
                } else {
                    let Some(sh) = build_stats(&self.rt, recipe) else { return "bad-op".into() };
                    let v: Value = serde_json::from_str(&sh.to_json()).unwrap_or(Value::Null);
                    if enc(&v) != st {
                        // the JSON in the op is not what this provider serialises to
                        return "bad-op:stats".into();
                    }
                    mon.count(&format!("stats-provider:{}", recipe.split(':').next().unwrap_or("?")));
                    self.stats = Some(sh);
                }
                self.cw_pass = cw;
                "ok".into()
            }
            ["cw", "extend", d] => {
                let Ok(d) = d.parse::<u64>() else { return "bad-op".into() };
                self.cw.extend_to(d);
                format!("cw={}/{}", self.cw.windows_received(), self.cw.malformed_datagrams())
            }
            ["cw", "malformed"] => {
                self.cw.record_malformed();
                format!("cw={}/{}", self.cw.windows_received(), self.cw.malformed_datagrams())
            }
            ["session"] => {
                self.socket_split_session(true, mon);
                // replay the lines so far through both real listeners now (corpus witnesses)
                self.socket_session(true, mon);
                self.stdin_session(true, mon);
                "session-ok".into()
            }
            ["par", rounds] => {
                let Ok(rounds) = rounds.parse::<usize>() else { return "bad-op".into() };
                if rounds == 0 || rounds > 1_000_000 {
                    return "bad-op".into();
                }
                let (n, descs) = par_stress(rounds);
                mon.count("par");
                // snapshot readers against the housekeeping writer (2 links, and 6: more than the usual rig)
                for links in [2usize, 6] {
                    match stats_par_stress(&self.rt, links, 120) {
                        Ok(answered) => {
                            mon.count("par-get-stats");
                            if answered == 0 {
                                mon.count("par-get-stats:none-answered-in-window");
                            }
                        }
                        Err(desc) => mon.fail("C18", "get-stats-never-answered", desc),
                    }
                }
                if n > 0 {
                    mon.fail(
                        "C18",
                        "set-not-visible-concurrent",
                        format!("par {rounds}: {n} violation(s); first: {}", descs.join(" | ")),
                    );
                }
                "ok".into()
            }
            ["race", ms] => {
                let Some(l) = parse_list::<u64>(ms) else { return "bad-op".into() };
                if l.is_empty() {
                    return "bad-op".into();
                }
                self.exec_race(&l, mon)
            }
            _ => "bad-op".into(),
        }
    }
}

fn parse_b(s: &str) -> Option<bool> {
    match s {
        "1" => Some(true),
        "0" => Some(false),
        _ => None,
    }
}

/// Stats providers the harness can build without a running sender: the default snapshot, or one
/// `update()` over n socket-free test links (virtual clock, fixed ids) so the JSON has per-link
/// records with floats, strings, negative numbers and nulls.
fn build_stats(rt: &tokio::runtime::Runtime, recipe: &str) -> Option<SharedStats> {
    if recipe == "new" {
        return Some(SharedStats::new());
    }
    let n: usize = recipe.strip_prefix("upd:")?.parse().ok()?;
    if n > 4 {
        return None;
    }
    srtla_core::utils::verif_clock::set(Some(1_000_000));
    let mut conns = rt.block_on(srtla_core::test_helpers::create_test_connections(n));
    for (i, c) in conns.iter_mut().enumerate() {
        c.conn_id = 100 + i as u64;
        c.window = 1000 * (i as i32 + 1) - 7;
        c.in_flight_packets = 3 * i as i32;
        c.connected = i % 3 != 2;
        if i == 1 {
            c.last_received = None;
        }
    }
    let sh = SharedStats::new();
    sh.update(&conns, &srtla_core::ConfigSnapshot::default(), None, None);
    srtla_core::utils::verif_clock::set(None);
    Some(sh)
}

fn gen_env(rng: &mut Rng) -> String {
    thread_local! {
        static GEN_RT: tokio::runtime::Runtime =
            tokio::runtime::Builder::new_current_thread().enable_all().build().expect("tokio rt");
    }
    let (st, recipe) = match rng.below(4) {
        0 | 1 => ("-".to_string(), "none".to_string()),
        k => {
            let recipe = if k == 2 { "new".to_string() } else { format!("upd:{}", rng.below(5)) };
            let sh = GEN_RT.with(|rt| build_stats(rt, &recipe)).expect("stats recipe");
            let v: Value = serde_json::from_str(&sh.to_json()).unwrap_or(Value::Null);
            (enc(&v), recipe)
        }
    };
    format!("env stats={} cw={} recipe={}", st, rng.below(2), recipe)
}

/// `control mkops <file>`: turn a hand-written session into an ops file (corpus helper).
/// Input lines: `# comment`, `case ...`, `! <op>` (copied), `J <json string literal of the raw line>`,
/// anything else = the raw line itself.
fn mkops(path: &str) {
    let text = std::fs::read_to_string(path).expect("read session file");
    for l in text.lines() {
        if l.starts_with('#') || l.starts_with("case") {
            println!("{l}");
        } else if let Some(op) = l.strip_prefix("! ") {
            println!("{op}");
        } else if let Some(j) = l.strip_prefix("J ") {
            let raw: String = serde_json::from_str(j).expect("J line must be a JSON string literal");
            println!("{}", line_op(raw.as_bytes()));
        } else {
            println!("{}", line_op(l.as_bytes()));
        }
    }
}

fn main() {
    let args: Vec<String> = std::env::args().collect();
    if args.get(1).map(String::as_str) == Some("stdin-child") {
        // the REAL stdin listener on this process's stdin/stdout; the parent kills us when done
        srtla_send::config::spawn_stdin_listener(DynamicConfig::new(), SharedStats::new(), CriticalWindow::new());
        std::thread::sleep(std::time::Duration::from_secs(60));
        return;
    }
    if args.get(1).map(String::as_str) == Some("mkops") {
        mkops(&args[2]);
        return;
    }
    verif_harness::run_main("control", Box::new(Control::new()));
}
