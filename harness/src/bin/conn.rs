//! Component `conn`: packet log, congestion window, sequence tracker and the ACK/NAK fan-out
//! of `process_connection_events` on the REAL `SrtlaConnection`s (C02, C05, C06).

use std::collections::BTreeSet;
use std::net::{IpAddr, Ipv4Addr};

use srtla_core::connection::{LinkPhase, SrtlaConnection, SrtlaIncoming};
use srtla_core::utils::verif_clock;
use srtla_send::sender::verif_hooks::{SequenceTracker, process_connection_events};
use verif_harness::util::*;
use verif_harness::{Component, Mon, Rng, Tier};

struct Conn {
    rt: tokio::runtime::Runtime,
    listener: tokio::net::UdpSocket,
    links: Vec<SrtlaConnection>,
    trk: SequenceTracker,
    /// C02 spec: per link, the set of sequence numbers sent and not yet retired.
    spec: Vec<BTreeSet<i32>>,
    /// An in-flight count was injected with `setc inf=` in this case: the set spec no longer applies.
    inf_injected: bool,
    /// C05 ghost: newest tracker write per slot (seq, conn id, time), purged on link removal.
    trk_ghost: std::collections::HashMap<u32, (u32, u64, u64)>,
    /// RTT velocity (ms/sample) handed to the next `recover` ops of a link, set by `setc <i> vel=<f64 bits>`.
    /// The model's `recover` takes the Boolean `velocity > 2.0`; the op line carries that bit and the
    /// real code gets the float, so the abstraction itself is checked by the correspondence.
    vel: Vec<Option<f64>>,
}

fn show_phase(p: &LinkPhase) -> String {
    match p {
        LinkPhase::Registering => "reg".into(),
        LinkPhase::Warming { rtt_probes, entered_ms } => format!("warm({rtt_probes},{entered_ms})"),
        LinkPhase::Live => "live".into(),
        LinkPhase::Degraded => "deg".into(),
    }
}

fn show_conn(c: &SrtlaConnection) -> String {
    let log: Vec<String> = c.verif_packet_log().iter().map(|(s, t)| format!("{s}:{t}")).collect();
    format!(
        "{} c={} w={} inf={} log=[{}] hi={} lr={} proof={} rttm={} nak={} lnak={} lincr={} fr={} frs={} burst={} bstart={} ph={} score={} q={} ls={}",
        c.conn_id,
        show_bool(c.connected),
        c.window,
        c.in_flight_packets,
        log.join(","),
        c.highest_acked_seq,
        show_opt(c.last_received),
        c.last_ack_or_rtt_sample_ms,
        c.rtt.last_rtt_measurement_ms,
        c.congestion.nak_count,
        c.congestion.last_nak_time_ms,
        c.congestion.last_window_increase_ms,
        show_bool(c.congestion.fast_recovery_mode),
        c.congestion.fast_recovery_start_ms,
        c.congestion.nak_burst_count,
        c.congestion.nak_burst_start_time_ms,
        show_phase(&c.phase),
        c.get_score(),
        c.batch_sender.queued_count(),
        show_opt(c.last_sent)
    )
}

#[derive(Clone, PartialEq)]
struct Snap {
    w: i32,
    inf: i32,
    keys: Vec<i32>,
    nak: i32,
    fr: bool,
}

fn snap(c: &SrtlaConnection) -> Snap {
    Snap {
        w: c.window,
        inf: c.in_flight_packets,
        keys: c.verif_packet_log().iter().map(|(s, _)| *s).collect(),
        nak: c.congestion.nak_count,
        fr: c.congestion.fast_recovery_mode,
    }
}

impl Conn {
    fn new() -> Self {
        let rt = tokio::runtime::Builder::new_current_thread().enable_all().build().unwrap();
        let listener = rt.block_on(async { tokio::net::UdpSocket::bind("127.0.0.1:0").await.unwrap() });
        Conn { rt, listener, links: Vec::new(), trk: SequenceTracker::new(), spec: Vec::new(), inf_injected: false, trk_ghost: Default::default(), vel: Vec::new() }
    }

    fn show(&self) -> String {
        self.links.iter().map(show_conn).collect::<Vec<_>>().join(" | ")
    }

    fn events(&mut self, idx: usize, classic: bool, now: u64, inc: SrtlaIncoming) {
        verif_clock::set(Some(now));
        let links = &mut self.links[..];
        let _ = self
            .rt
            .block_on(process_connection_events(idx, links, None, &self.listener, &self.trk, classic, inc));
        verif_clock::set(None);
    }

    /// C06 monitors that hold after EVERY op.
    fn mon_range(&self, mon: &mut Mon, op: &str) {
        for c in &self.links {
            if c.window < 1000 || c.window > 60000 {
                mon.fail("C06", "range", format!("link {} window {} outside [1000,60000] after `{op}`", c.conn_id, c.window));
            }
        }
    }

    /// C02 monitor: real log / in-flight versus the set spec.
    fn mon_spec(&self, mon: &mut Mon, op: &str) {
        for (i, c) in self.links.iter().enumerate() {
            let keys: BTreeSet<i32> = c.verif_packet_log().iter().map(|(s, _)| *s).collect();
            if c.in_flight_packets < 0 {
                mon.fail("C02", "inflight-negative", format!("link {i} in_flight {} after `{op}`", c.in_flight_packets));
            }
            if keys != self.spec[i] || c.in_flight_packets as usize != self.spec[i].len() {
                mon.fail(
                    "C02",
                    "inflight-mismatch",
                    format!(
                        "link {i}: in_flight={} log={:?} but sent-and-not-retired set is {:?} after `{op}`",
                        c.in_flight_packets, keys, self.spec[i]
                    ),
                );
            }
        }
    }
}

/// Time steps: small ones (repeated, so that most NAKs still fall inside the tracker's 5 s memory) and
/// every threshold of the recovery pacing code exactly, one below and one above: 300 / 500 (fast
/// increment / minimum wait), 1000 (normal increment wait, burst window), 2000 (normal minimum wait),
/// 5000 / 7000 / 10000 (recovery tiers; 5000 is also the tracker age).
const DT: [u64; 29] = [
    0, 0, 0, 1, 1, 10, 10, 10, 299, 300, 301, 499, 500, 501, 999, 1000, 1001, 1999, 2000, 2001, 4999, 5000, 5001, 6999,
    7000, 7001, 9999, 10000, 10001,
];
/// Ages of the last NAK / last window increase injected before a recovery tick.
const LNAK_AGE: [u64; 24] = [
    0, 1, 299, 300, 301, 400, 499, 500, 501, 999, 1000, 1001, 1999, 2000, 2001, 4999, 5000, 5001, 6999, 7000, 7001, 9999,
    10000, 10001,
];
const LINCR_AGE: [u64; 10] = [0, 1, 299, 300, 301, 499, 500, 999, 1000, 1001];

/// RTT velocities handed to time-based recovery: both sides of the 2.0 gate, 2.0 itself, the next
/// float above it, large, negative, non-finite.
fn velocities() -> [f64; 12] {
    [0.0, 2.0, 2.0000001, f64::from_bits(2.0f64.to_bits() + 1), f64::from_bits(2.0f64.to_bits() - 1), 3.0, 8.0, 9.5, 50.0, f64::NAN, -1.0, f64::INFINITY]
}

/// `setc <i> vel=<bits>` + `recover <i> <now> <velocity > 2.0>`.
fn push_recover(ops: &mut Vec<String>, rng: &mut Rng, i: u64, now: u64) {
    if rng.chance(3, 4) {
        let v = *rng.pick(&velocities());
        ops.push(format!("setc {i} vel={}", v.to_bits()));
        ops.push(format!("recover {i} {now} {}", if v > 2.0 { 1 } else { 0 }));
    } else {
        ops.push(format!("recover {i} {now} {}", rng.below(2)));
    }
}

/// Targeted case: an SRTLA ACK datagram of 2..10 entries whose +29 test (in-flight x 1000 > window)
/// flips INSIDE the datagram because of the +1 every earlier entry credited to the link.
fn gen_straddle_case(rng: &mut Rng) -> Vec<String> {
    let n = rng.range(1, 3) as usize;
    let classic = if rng.chance(4, 5) { 1 } else { 0 };
    let mut now: u64 = rng.time_base(1_000_000, 1000);
    let mut ops = vec![format!("new {n}")];
    for i in 0..n {
        ops.push(format!("setc {i} c=1 lr={}", now - rng.below(500)));
    }
    let mut next: u32 = match rng.below(3) {
        0 => rng.below(50) as u32,
        _ => (rng.next_u64() as u32) & 0x7fff_0000,
    };
    let mut held: Vec<Vec<u32>> = vec![Vec::new(); n];
    for _round in 0..rng.range(1, 4) {
        now += *rng.pick(&[0u64, 1, 10, 300]);
        let l = rng.below(n as u64) as usize;
        for j in 0..n {
            if j != l {
                for _ in 0..rng.below(4) {
                    ops.push(format!("route {j} {next} {now}"));
                    held[j].push(next);
                    next = (next + 1) & 0x7fff_ffff;
                }
            }
        }
        let npk = rng.range(3, 40);
        for _ in 0..npk {
            ops.push(format!("route {l} {next} {now}"));
            held[l].push(next);
            next = (next + 1) & 0x7fff_ffff;
        }
        // the list: entry `k` (1-based, >= 2) is owned by `l`; the others are owned by `l`, by another
        // link, or by nobody
        let m = rng.range(2, 10) as usize;
        let k = rng.range(2, m as u64) as usize;
        let mut pool = held[l].clone();
        let mut list: Vec<u32> = Vec::new();
        let mut a = 0usize; // entries owned by `l` before position k
        for pos in 1..=m {
            let own = pos == k || rng.chance(2, 3);
            if own && !pool.is_empty() {
                let x = pool.remove(rng.below(pool.len() as u64) as usize);
                list.push(x);
                if pos < k {
                    a += 1;
                }
            } else {
                let others: Vec<u32> = (0..n).filter(|j| *j != l).flat_map(|j| held[j].iter().copied()).filter(|x| !list.contains(x)).collect();
                if !others.is_empty() && rng.chance(1, 2) {
                    list.push(*rng.pick(&others));
                } else {
                    list.push(next.wrapping_add(1000 + rng.below(1000) as u32) & 0x7fff_ffff);
                }
            }
        }
        let inf = held[l].len() as i64;
        let w0 = if rng.chance(3, 4) {
            // in-flight after entry k is removed = inf - a - 1; the a earlier entries earn +29 + 1 each,
            // the other k - 1 - a earlier entries credit +1 each: straddles iff 1 <= d <= k - 1
            let d = if rng.chance(2, 3) { rng.range(1, k as u64 - 1) as i64 } else { rng.below(13) as i64 };
            (inf - a as i64 - 1) * 1000 - 29 * a as i64 - d
        } else {
            let j = rng.range(1, (npk).min(10)) as i64;
            (inf - j) * 1000 - rng.below(13) as i64
        };
        ops.push(format!("setc {l} w={}", w0.clamp(1000, 60000)));
        for j in 0..n {
            if j != l && rng.chance(1, 2) {
                // neighbours sit just below a multiple of 1000 as well (they earn on their own entries)
                let w = (held[j].len() as i64 - 1).max(1) * 1000 - rng.below(13) as i64;
                ops.push(format!("setc {j} w={}", w.clamp(1000, 60000)));
            }
        }
        let arrival = if rng.chance(3, 4) { l } else { rng.below(n as u64) as usize };
        ops.push(format!("evt {arrival} {classic} {now} - {} -", join_list(&list)));
        for x in &list {
            // every number sits in at most one log here, so the retiring link is its holder
            for h in held.iter_mut() {
                h.retain(|y| y != x);
            }
        }
        if rng.chance(1, 3) {
            let ack = next.wrapping_sub(1 + rng.below(8) as u32) & 0x7fff_ffff;
            ops.push(format!("evt {l} {classic} {now} {ack} - -"));
            for h in held.iter_mut() {
                h.retain(|y| *y > ack);
            }
        }
    }
    ops
}

impl Component for Conn {
    fn rule(&self) -> &'static str {
        "conn: histories of 10-60 ops over 1-4 real SrtlaConnections + the real SequenceTracker: send/route (incl. \
         re-sends at or below the cumulative-ACK high-water mark, duplicate probes on a second link, sequence \
         numbers colliding modulo 16384), evt = process_connection_events with cumulative ACKs (in-order, duplicate, \
         stale, far ahead, 63/64/65 past the mark), SRTLA ACK lists, NAK lists (singles, repeats, unknown, tracked \
         to another / removed / expired link), resets (recovery, reconnect, REG3), time-based recovery ticks with \
         high/low RTT velocity, link removal, injected windows on {1000,1029,2000,2100,11971,12000,59971,60000} and \
         in-flight up to i32::MAX; time steps and injected last-NAK / last-increase ages on every pacing threshold \
         (300, 500, 1000, 2000, 5000, 7000, 10000, each -1 / exact / +1); recovery ticks with RTT velocity in {0, 2.0 \
         exactly, next float below / above 2.0, 2.0000001, 3, 8, 9.5, 50, NaN, -1, inf} (`setc vel=` carries the float to \
         the real code, the op line carries the model's Boolean velocity > 2.0); `trk` entries naming an absent / \
         sentinel / other conn id at the edge of the 5 s memory followed by the NAK; SRTLA ACK lists go through the real \
         fan-out as ONE datagram (2..10 entries half of the time); every 10th case is a targeted scenario in which the \
         +29 test flips inside one datagram because of the earlier entries' +1s. Thorough tier: histories up to 150 \
         ops and the complete space `hist4`. Non-trivial: an ACK/NAK removed something, or a send at/below the \
         high-water mark, or a tracker hit on a different link than the first holder."
    }

    fn gen_case(&mut self, rng: &mut Rng, tier: Tier, idx: usize) -> Vec<String> {
        if idx % 10 == 3 {
            return gen_straddle_case(rng);
        }
        let n = rng.range(1, 4) as usize;
        // two cases in three run with production-width conn ids (>= 2^32, low 32 bits distinct per link)
        let idb: u64 = if rng.chance(2, 3) { ((1 + rng.below(1_000_000_000)) << 32) | (rng.below(65_521) << 16) } else { 0 };
        let mut ops = vec![if idb == 0 { format!("new {n}") } else { format!("new {n} {idb}") }];
        let base: u32 = match rng.below(4) {
            0 => rng.below(50) as u32,
            1 => 0x7fff_0000 + rng.below(0x8000) as u32,
            _ => (rng.next_u64() as u32) & 0x7fff_ffff,
        };
        let mut now: u64 = rng.time_base(1_000_000, 1000);
        let mut next_seq = base;
        let mut hi_ack = base;
        let windows = [1000, 1029, 1100, 2000, 2099, 2100, 11970, 11971, 12000, 20000, 59971, 59999, 60000];
        for i in 0..n {
            let lr = if rng.chance(4, 5) { format!("{}", now - rng.below(2000)) } else { "-".into() };
            let mut s = format!("setc {i} c={} lr={lr}", if rng.chance(5, 6) { 1 } else { 0 });
            if rng.chance(1, 2) {
                s += &format!(" w={}", rng.pick(&windows));
            }
            ops.push(s);
        }
        let len = match tier {
            Tier::Quick => rng.range(10, 60),
            Tier::Thorough => rng.range(10, 150),
        };
        let seq_near = |rng: &mut Rng, next_seq: u32, hi_ack: u32| -> u32 {
            match rng.below(12) {
                8..=11 => next_seq.wrapping_sub(1 + rng.below(6) as u32) & 0x7fff_ffff,
                0 => next_seq.wrapping_sub(1 + rng.below(20) as u32) & 0x7fff_ffff,
                1 => hi_ack,
                2 => hi_ack.wrapping_sub(rng.below(5) as u32) & 0x7fff_ffff,
                3 => (next_seq.wrapping_sub(rng.below(10) as u32)).wrapping_add(16384) & 0x7fff_ffff,
                4 => rng.next_u64() as u32,
                _ => next_seq.wrapping_sub(rng.below(12) as u32) & 0x7fff_ffff,
            }
        };
        for _ in 0..len {
            now += *rng.pick(&DT);
            let i = rng.below(n as u64);
            match rng.below(20) {
                0..=5 => {
                    // fresh send, tracked
                    let burst = rng.range(1, 6);
                    for _ in 0..burst {
                        ops.push(format!("route {i} {next_seq} {now}"));
                        if rng.chance(1, 8) && n > 1 {
                            // duplicate probe on another link (not tracked)
                            let j = (i + 1 + rng.below(n as u64 - 1)) % n as u64;
                            ops.push(format!("send {j} {next_seq} {now}"));
                        }
                        next_seq = (next_seq + 1) & 0x7fff_ffff;
                    }
                }
                5 if false => {}
                6 if rng.chance(1, 2) => {
                    // a flushed batch mixing fresh data with a late retransmission of an old number
                    let k = rng.range(2, 6);
                    let old_pos = rng.below(k);
                    for j in 0..k {
                        if j == old_pos {
                            let s = seq_near(rng, next_seq, hi_ack) & 0x7fff_ffff;
                            ops.push(format!("q {i} {s} {now}"));
                        } else {
                            ops.push(format!("q {i} {next_seq} {now}"));
                            next_seq = (next_seq + 1) & 0x7fff_ffff;
                        }
                    }
                    // most batches are taken at the next flush tick; some stay queued while other events
                    // (resets, ACKs, more routing) arrive, and are taken - or dropped by a reset - later
                    if rng.chance(3, 4) {
                        ops.push(format!("tb {i} {}", now + 15));
                    } else if rng.chance(1, 2) {
                        let kind = *rng.pick(&["recovery", "reconnect", "reg3"]);
                        ops.push(format!("reset {i} {kind} {}", now + 3));
                        ops.push(format!("setc {i} c=1 lr={}", now + 3));
                        // traffic after the reset: the first batch must register exactly what was queued after it
                        for _ in 0..rng.range(1, 5) {
                            ops.push(format!("q {i} {next_seq} {}", now + 5));
                            next_seq = (next_seq + 1) & 0x7fff_ffff;
                        }
                        ops.push(format!("tb {i} {}", now + 20));
                    }
                }
                6 => {
                    // re-send of an old number (possibly at/below the ACK mark), maybe on another link
                    let s = seq_near(rng, next_seq, hi_ack) & 0x7fff_ffff;
                    if rng.chance(1, 2) {
                        ops.push(format!("route {i} {s} {now}"));
                        // the retransmission was routed (and remembered) on this link: a NAK for the number now
                        // belongs to THIS link, wherever the first copy went
                        if rng.chance(1, 2) {
                            ops.push(format!("evt {} {} {} - - {s}", rng.below(n as u64), rng.below(2), now + 3));
                        }
                    } else {
                        ops.push(format!("send {i} {s} {now}"));
                    }
                }
                7..=9 => {
                    // cumulative ACK
                    let a = match rng.below(9) {
                        0 => hi_ack,
                        1 => hi_ack.wrapping_sub(1 + rng.below(10) as u32),
                        2 => hi_ack.wrapping_add(63),
                        3 => hi_ack.wrapping_add(64),
                        4 => hi_ack.wrapping_add(65),
                        5 => next_seq.wrapping_add(1000),
                        6 => rng.next_u64() as u32,
                        _ => hi_ack.wrapping_add(rng.below(next_seq.wrapping_sub(hi_ack).min(40) as u64 + 2) as u32),
                    };
                    if a & 0x8000_0000 == 0 && a > hi_ack {
                        hi_ack = a;
                    }
                    ops.push(format!("evt {i} {} {now} {a} - -", rng.below(2)));
                }
                10..=12 => {
                    // SRTLA ACK list (one datagram: 2..10 entries half of the time)
                    let k = if rng.chance(1, 2) { rng.range(2, 10) } else { rng.range(1, 4) };
                    let l: Vec<u32> = (0..k).map(|_| seq_near(rng, next_seq, hi_ack)).collect();
                    ops.push(format!("evt {i} {} {now} - {} -", rng.below(2), join_list(&l)));
                }
                13..=15 => {
                    // NAK list (repeats on purpose)
                    let k = rng.range(1, 4);
                    let mut l: Vec<u32> = (0..k).map(|_| seq_near(rng, next_seq, hi_ack)).collect();
                    if rng.chance(1, 3) {
                        let d = l[0];
                        l.push(d);
                    }
                    ops.push(format!("evt {i} {} {now} - - {}", rng.below(2), join_list(&l)));
                }
                16 => {
                    let kind = *rng.pick(&["recovery", "reconnect", "reg3"]);
                    ops.push(format!("reset {i} {kind} {now}"));
                    if rng.chance(2, 3) {
                        ops.push(format!("setc {i} c=1 lr={now}"));
                    }
                }
                17 if rng.chance(1, 3) => {
                    // flush tick on a link (takes whatever an earlier step left queued; often nothing)
                    ops.push(format!("tb {i} {now}"));
                }
                17 => {
                    push_recover(&mut ops, rng, i, now);
                }
                18 => {
                    // injected window / in-flight / congestion state
                    let mut s = format!("setc {i} w={}", rng.pick(&windows));
                    if rng.chance(1, 2) {
                        let inf = match rng.below(5) {
                            0 => 0,
                            1 => i32::MAX,
                            2 => i32::MAX / 1000 + 1,
                            3 => rng.below(70) as i32,
                            _ => rng.below(1 << 31) as i32,
                        };
                        s += &format!(" inf={inf}");
                    }
                    let mut paced = false;
                    if rng.chance(1, 2) {
                        s += &format!(" lnak={}", now.saturating_sub(*rng.pick(&LNAK_AGE)));
                        paced = true;
                    }
                    if rng.chance(1, 3) {
                        s += &format!(" lincr={}", now.saturating_sub(*rng.pick(&LINCR_AGE)));
                        paced = true;
                    }
                    if rng.chance(1, 4) {
                        s += &format!(" fr={}", rng.below(2));
                    }
                    ops.push(s);
                    if paced && rng.chance(3, 4) {
                        // probe the pacing thresholds right away
                        push_recover(&mut ops, rng, i, now);
                    }
                }
                _ => {
                    if n > 1 && rng.chance(1, 3) {
                        ops.push(format!("remove {i}"));
                        // keep indices valid in the rest of the case by re-adding nothing; ops on a
                        // missing index are answered identically (unchanged state) by both sides
                    } else if rng.chance(1, 2) {
                        // a tracker entry for a recently routed number that names an absent conn id
                        // (removed link, id 0 = the "empty" sentinel), another present link, or the same
                        // link at the edge of the 5 s memory; then the NAK for it
                        let s = next_seq.wrapping_sub(1 + rng.below(6) as u32) & 0x7fff_ffff;
                        let cid = match rng.below(5) {
                            0 => 0,
                            1 => 99,
                            2 => idb + n as u64 + 1 + rng.below(3),
                            3 => (idb + 1 + rng.below(n as u64)) & 0xffff_ffff, // a present id narrowed to 32 bits
                            _ => idb + 1 + rng.below(n as u64),
                        };
                        let t = now.saturating_sub(*rng.pick(&[0u64, 0, 1, 4999, 5000, 5001]));
                        ops.push(format!("trk {s} {cid} {t}"));
                        if rng.chance(1, 4) {
                            ops.push(format!("get {s} {now}"));
                        }
                        ops.push(format!("evt {i} {} {now} - - {s}", rng.below(2)));
                    } else {
                        let s = seq_near(rng, next_seq, hi_ack);
                        ops.push(format!("get {s} {now}"));
                    }
                }
            }
        }
        ops
    }

    /// `hist4`: ALL histories of exactly 4 operations over 2 links and 4 sequence numbers, for two
    /// alphabets: `hist4a` = {send i s, cumulative ACK a, SRTLA ACK of s arriving on i, NAK s,
    /// recovery reset of i, reconnect i} in classic mode (28 symbols -> 28^4 = 614 656 histories) and
    /// `hist4b` = the same events in enhanced mode with the two other reset kinds (reconnect reset and
    /// REG3 clear; 30 symbols -> 810 000 histories). `hist4` runs both (1 424 656 histories).
    fn exhaustive(&mut self, which: &str) -> Option<Vec<Vec<String>>> {
        let parts: &[(u8, &[&str])] = match which {
            "hist4" => &[(1, &["recovery"]), (0, &["reconnect", "reg3"])],
            "hist4a" => &[(1, &["recovery"])],
            "hist4b" => &[(0, &["reconnect", "reg3"])],
            _ => return None,
        };
        let mut cases = Vec::new();
        for (classic, resets) in parts {
            let mut alphabet: Vec<String> = Vec::new();
            let base = 1000u32;
            for i in 0..2 {
                for s in 0..4 {
                    alphabet.push(format!("route {i} {} 1000000", base + s));
                }
            }
            for a in 0..4 {
                alphabet.push(format!("evt 0 {classic} 1000100 {} - -", base + a));
            }
            for i in 0..2 {
                for s in 0..4 {
                    alphabet.push(format!("evt {i} {classic} 1000200 - {} -", base + s));
                }
            }
            for s in 0..4 {
                alphabet.push(format!("evt 0 {classic} 1000300 - - {}", base + s));
            }
            for i in 0..2 {
                for kind in resets.iter() {
                    alphabet.push(format!("reset {i} {kind} 1000400"));
                }
                alphabet.push(format!("setc {i} c=1 lr=1000400"));
            }
            let k = alphabet.len();
            cases.reserve(k * k * k * k);
            for a in 0..k {
                for b in 0..k {
                    for c in 0..k {
                        for d in 0..k {
                            cases.push(vec![
                                "new 2".to_string(),
                                "setc 0 c=1 lr=1000000".to_string(),
                                "setc 1 c=1 lr=1000000".to_string(),
                                alphabet[a].clone(),
                                alphabet[b].clone(),
                                alphabet[c].clone(),
                                alphabet[d].clone(),
                            ]);
                        }
                    }
                }
            }
        }
        Some(cases)
    }

    fn start_case(&mut self) {
        self.links.clear();
        self.spec.clear();
        self.trk = SequenceTracker::new();
        self.inf_injected = false;
        self.trk_ghost.clear();
        self.vel.clear();
        verif_clock::set(None);
    }

    fn exec(&mut self, toks: &[&str], mon: &mut Mon) -> String {
        let op = toks.join(" ");
        match toks {
            ["new", n] | ["new", n, _] => {
                let Ok(n) = n.parse::<usize>() else { return "bad-op".into() };
                // conn ids are `base + i + 1`: production ids are random u64s, far above 2^32
                let base: u64 = match toks.get(2) {
                    None => 0,
                    Some(b) => match b.parse::<u64>() {
                        Ok(b) if b <= u64::MAX - 1000 => b,
                        _ => return "bad-op".into(),
                    },
                };
                self.links.clear();
                for i in 0..n {
                    let c = SrtlaConnection::new_registering(
                        base + (i + 1) as u64,
                        format!("l{i}"),
                        IpAddr::V4(Ipv4Addr::new(127, 0, 0, 1)),
                        0,
                    );
                    if c.window != 20000 || c.in_flight_packets != 0 {
                        mon.fail("C06", "init-reset", format!("new link starts with window {}", c.window));
                    }
                    self.links.push(c);
                }
                self.spec = vec![BTreeSet::new(); n];
                self.vel = vec![None; n];
                self.trk = SequenceTracker::new();
                self.show()
            }
            ["setc", i, rest @ ..] => {
                let Ok(i) = i.parse::<usize>() else { return "bad-op".into() };
                if let Some(c) = self.links.get_mut(i) {
                    if let Some(b) = kv_bool(rest, "c") {
                        c.connected = b;
                    }
                    if let Some(w) = kv_parse::<i32>(rest, "w") {
                        c.window = w;
                    }
                    if let Some(v) = kv_parse::<i32>(rest, "inf") {
                        c.in_flight_packets = v;
                        self.inf_injected = true;
                    }
                    if let Some(v) = kv(rest, "lr") {
                        c.last_received = if v == "-" { None } else { v.parse().ok() };
                    }
                    if let Some(b) = kv_bool(rest, "fr") {
                        c.congestion.fast_recovery_mode = b;
                    }
                    if let Some(v) = kv_parse::<u64>(rest, "lnak") {
                        c.congestion.last_nak_time_ms = v;
                    }
                    if let Some(v) = kv_parse::<u64>(rest, "lincr") {
                        c.congestion.last_window_increase_ms = v;
                    }
                    if let Some(v) = kv_parse::<i32>(rest, "burst") {
                        c.congestion.nak_burst_count = v;
                    }
                    if let Some(v) = kv_parse::<u64>(rest, "vel") {
                        self.vel[i] = Some(f64::from_bits(v));
                    }
                }
                self.show()
            }
            ["send", i, seq, t] | ["route", i, seq, t] => {
                let (Ok(i), Ok(seq), Ok(t)) = (i.parse::<usize>(), seq.parse::<u32>(), t.parse::<u64>()) else {
                    return "bad-op".into();
                };
                if toks[0] == "route" && i >= self.links.len() {
                    return "bad-op".into();
                }
                if let Some(c) = self.links.get_mut(i) {
                    if (seq as i32) <= c.highest_acked_seq {
                        mon.count("send<=highwater");
                        mon.nontrivial();
                    }
                    if toks[0] == "route" {
                        self.trk.insert(seq, c.conn_id, t);
                        self.trk_ghost.insert(seq % 16384, (seq, c.conn_id, t));
                    }
                    c.register_packet(seq as i32, t);
                    self.spec[i].insert(seq as i32);
                    // an injected in-flight count is overwritten by the real log size here
                }
                self.mon_spec_if_clean(mon, &op);
                self.show()
            }
            ["q", i, seq, t] => {
                let (Ok(i), Ok(seq), Ok(t)) = (i.parse::<usize>(), seq.parse::<u32>(), t.parse::<u64>()) else {
                    return "bad-op".into();
                };
                if i >= self.links.len() {
                    return "bad-op".into();
                }
                let data = seq.to_be_bytes();
                self.links[i].queue_data_packet(&data, Some(seq), t);
                self.mon_spec_if_clean(mon, &op);
                self.show()
            }
            ["tb", i, now] => {
                let (Ok(i), Ok(now)) = (i.parse::<usize>(), now.parse::<u64>()) else { return "bad-op".into() };
                if i >= self.links.len() {
                    return "bad-op".into();
                }
                let batch = self.links[i].take_batch(now);
                for (data, seq, _) in batch.iter() {
                    // the spec learns a number from the DATAGRAM that leaves (the harness queued the
                    // big-endian number as the payload), not from the side table take_batch registers from
                    let wire_seq = if data.len() >= 4 { Some(u32::from_be_bytes([data[0], data[1], data[2], data[3]])) } else { None };
                    if wire_seq != *seq {
                        mon.fail("C02", "batch-registers-other-than-sent", format!("take_batch pairs the datagram carrying {wire_seq:?} with sequence slot {seq:?}"));
                    }
                    if let Some(s) = wire_seq {
                        if (s as i32) <= self.links[i].highest_acked_seq || batch.len() > 1 {
                            mon.count("batch-send");
                        }
                        self.spec[i].insert(s as i32);
                    }
                }
                if batch.len() > 1 {
                    mon.nontrivial();
                }
                self.mon_spec_if_clean(mon, &op);
                self.show()
            }
            ["trk", seq, cid, t] => {
                let (Ok(seq), Ok(cid), Ok(t)) = (seq.parse::<u32>(), cid.parse::<u64>(), t.parse::<u64>()) else {
                    return "bad-op".into();
                };
                self.trk.insert(seq, cid, t);
                self.trk_ghost.insert(seq % 16384, (seq, cid, t));
                self.show()
            }
            ["evt", idx, classic, now, acks, sacks, naks] => {
                let (Ok(idx), Some(classic), Ok(now), Some(acks), Some(sacks), Some(naks)) = (
                    idx.parse::<usize>(),
                    match *classic {
                        "1" => Some(true),
                        "0" => Some(false),
                        _ => None,
                    },
                    now.parse::<u64>(),
                    parse_list::<u32>(acks),
                    parse_list::<u32>(sacks),
                    parse_list::<u32>(naks),
                ) else {
                    return "bad-op".into();
                };
                if idx >= self.links.len() {
                    return self.show();
                }
                // cumulative ACKs (one event per number so the monitors see each step)
                for a in &acks {
                    let before: Vec<Snap> = self.links.iter().map(snap).collect();
                    let mut inc = SrtlaIncoming { read_any: true, ..Default::default() };
                    inc.ack_numbers.push(*a);
                    self.events(idx, classic, now, inc);
                    let ai = *a as i32;
                    for (i, c) in self.links.iter().enumerate() {
                        let removed: Vec<i32> = self.spec[i].iter().copied().filter(|s| *s <= ai).collect();
                        if !removed.is_empty() {
                            mon.count("cumack-removed");
                            mon.nontrivial();
                        }
                        for s in removed {
                            self.spec[i].remove(&s);
                        }
                        if c.window != before[i].w {
                            mon.fail("C06", "cumack-moved-window", format!("cumulative ACK changed window of link {i}: {} -> {}", before[i].w, c.window));
                        }
                    }
                    self.mon_spec_if_clean(mon, &format!("{op} [ack {a}]"));
                }
                if !sacks.is_empty() {
                    // The WHOLE SRTLA ACK list goes through the real fan-out in ONE call, as the shell
                    // does for one datagram; the reference rules (+29 on the earning link only while
                    // in-flight x 1000 exceeds its window, +1 on every connected link per acknowledged
                    // number, cap 60000) are replayed entry by entry on a ghost and compared at the end.
                    let before: Vec<Snap> = self.links.iter().map(snap).collect();
                    let mut inc = SrtlaIncoming { read_any: true, ..Default::default() };
                    for s in &sacks {
                        inc.srtla_ack_numbers.push(*s);
                    }
                    self.events(idx, classic, now, inc);
                    let nl = self.links.len();
                    let mut gw: Vec<i32> = before.iter().map(|b| b.w).collect(); // reference windows
                    let mut hw: Vec<i32> = gw.clone(); // windows if the global +1s were credited after the datagram
                    let mut gkeys: Vec<Vec<i32>> = before.iter().map(|b| b.keys.clone()).collect();
                    let mut earned_any: Vec<bool> = vec![false; nl];
                    let mut straddled = false;
                    for (k, s) in sacks.iter().enumerate() {
                        let si = *s as i32;
                        // spec: arrival link if it holds it, else the first other holder
                        let holder = if self.spec[idx].contains(&si) {
                            Some(idx)
                        } else {
                            (0..nl).find(|j| *j != idx && self.spec[*j].contains(&si))
                        };
                        // the real logs may differ from the set spec only after `setc inf=`; the ghost
                        // follows the real keys of the pre-state
                        let gholder = if gkeys[idx].contains(&si) { Some(idx) } else { (0..nl).find(|j| *j != idx && gkeys[*j].contains(&si)) };
                        if let Some(h) = holder {
                            self.spec[h].remove(&si);
                            mon.count(if h == idx { "sack-arrival-link" } else { "sack-other-holder" });
                            mon.nontrivial();
                        } else {
                            mon.count("sack-unknown");
                        }
                        if let Some(h) = gholder {
                            gkeys[h].retain(|x| *x != si);
                            let inf_after = gkeys[h].len() as i32;
                            let earn = inf_after.saturating_mul(1000) > gw[h];
                            let earn_h = inf_after.saturating_mul(1000) > hw[h];
                            if earn != earn_h && k >= 1 {
                                straddled = true;
                            }
                            if earn {
                                gw[h] = (gw[h] + 29).min(60000);
                                mon.count("ack-earned-29");
                            } else {
                                mon.count("ack-not-earned");
                            }
                            if earn_h {
                                hw[h] = (hw[h] + 29).min(60000);
                            }
                            earned_any[h] = true;
                        }
                        for (i, c) in self.links.iter().enumerate() {
                            if c.connected && c.last_received.is_some() {
                                gw[i] = (gw[i] + 1).min(60000);
                            }
                        }
                    }
                    if sacks.len() >= 2 {
                        mon.count("sack-multi-entry-datagram");
                    }
                    if straddled {
                        // some entry k >= 2 passed / failed the +29 test only because of the +1s of the
                        // earlier entries of the same datagram
                        mon.count("ack-threshold-straddled");
                    }
                    for (i, c) in self.links.iter().enumerate() {
                        if c.window < before[i].w {
                            mon.fail("C06", "ack-decreased-window", format!("SRTLA ACK decreased window of link {i}: {} -> {}", before[i].w, c.window));
                        }
                        if before[i].fr && !c.congestion.fast_recovery_mode && c.window < 12000 {
                            mon.fail("C06", "fast-recovery-left-early", format!("link {i} left fast recovery at window {}", c.window));
                        }
                        if !before[i].fr && c.congestion.fast_recovery_mode {
                            mon.fail("C06", "fast-recovery-entered-by-ack", format!("link {i} entered fast recovery on an ACK"));
                        }
                        // C10-style exactness of the per-ACK rule (used by C06 direction clause too)
                        if c.window != gw[i] && classic {
                            // classic mode: this IS the reference algorithm's window evolution
                            mon.fail("C10", "ack-rule", format!("classic mode, link {i}: window {} -> {} on SRTLA ACK list {sacks:?} arriving on link {idx}, the reference rules (+29 earned while in-flight x 1000 > window, +1 per acknowledged number on every connected link) give {}", before[i].w, c.window, gw[i]));
                        }
                        if c.window != gw[i] {
                            mon.fail("C06", "ack-rule", format!("link {i}: window {} -> {} on SRTLA ACK list {sacks:?} arriving on link {idx} (earned here: {}), the reference rules give {}", before[i].w, c.window, earned_any[i], gw[i]));
                        }
                    }
                    self.mon_spec_if_clean(mon, &format!("{op} [sacks]"));
                }
                for nk in &naks {
                    let before: Vec<Snap> = self.links.iter().map(snap).collect();
                    let tracked = self.trk.get(*nk, now);
                    self.mon_tracker(mon, *nk, now, tracked);
                    let tracked_pos = tracked.and_then(|cid| self.links.iter().position(|c| c.conn_id == cid));
                    let mut inc = SrtlaIncoming { read_any: true, ..Default::default() };
                    inc.nak_numbers.push(*nk);
                    self.events(idx, classic, now, inc);
                    let ni = *nk as i32;
                    let changed: Vec<usize> = (0..self.links.len()).filter(|i| snap(&self.links[*i]) != before[*i]).collect();
                    if changed.len() > 1 {
                        mon.fail("C05", "nak-multi-charge", format!("NAK {nk} changed links {changed:?}"));
                    }
                    let holders: Vec<usize> = (0..self.links.len()).filter(|i| before[*i].keys.contains(&ni)).collect();
                    // C02: "retired ... by a NAK charged to that link" - WHICH link is decided independently of the
                    // implementation's tracker: the ghost's remembered carrier (newest routing of the number within
                    // 5 s, still present) if it holds the number, else nobody while the ghost remembers a present
                    // link, else the first holder
                    {
                        let ghost = match self.trk_ghost.get(&(*nk % 16384)) {
                            Some((sq, cid, t)) if *sq == *nk && *cid != 0 && now.saturating_sub(*t) <= 5000 => Some(*cid),
                            _ => None,
                        };
                        let ghost_pos = ghost.and_then(|cid| self.links.iter().position(|c| c.conn_id == cid));
                        let want: Vec<usize> = match ghost_pos {
                            Some(p) if holders.contains(&p) => vec![p],
                            Some(_) => vec![],
                            None => holders.first().map(|h| vec![*h]).unwrap_or_default(),
                        };
                        if changed != want && !self.inf_injected {
                            mon.fail("C02", "nak-retired-on-wrong-link", format!("NAK {nk}: holders {holders:?}, the number was last routed to link {ghost_pos:?} (remembered); it must be retired on {want:?} but links {changed:?} changed"));
                        }
                    }
                    if holders.is_empty() && !changed.is_empty() {
                        mon.fail("C05", "nak-unknown-changed", format!("NAK {nk} held by no link changed links {changed:?}"));
                    }
                    for &i in &changed {
                        let (b, a) = (&before[i], snap(&self.links[i]));
                        if !b.keys.contains(&ni) {
                            mon.fail("C05", "nak-nonholder", format!("NAK {nk} charged link {i} which did not hold it"));
                        }
                        // "only of an uplink that had that packet outstanding", judged by the independent
                        // sent-and-not-retired set (emptied by every reset), not by the implementation's own log
                        if !self.inf_injected && !self.spec[i].contains(&ni) {
                            mon.fail("C05", "nak-charged-not-outstanding", format!("NAK {nk} charged link {i} (nak {}->{}, window {}->{}, in_flight {}->{}) although the link has not had that packet outstanding since its last reset / retirement; its sent-and-not-retired set is {:?}", b.nak, a.nak, b.w, a.w, b.inf, a.inf, self.spec[i].iter().take(8).collect::<Vec<_>>()));
                        }
                        let exp_w = (b.w - 100).max(1000);
                        if a.nak != b.nak.saturating_add(1)
                            || a.w != exp_w
                            || a.keys.len() + 1 != b.keys.len()
                            || a.keys.contains(&ni)
                            || a.inf != a.keys.len() as i32
                        {
                            mon.fail("C05", "nak-wrong-amount", format!("NAK {nk} on link {i}: nak {}->{}, window {}->{} (expected {exp_w}), log {}->{}", b.nak, a.nak, b.w, a.w, b.keys.len(), a.keys.len()));
                        }
                        if a.w > b.w {
                            mon.fail("C06", "nak-increased-window", format!("NAK increased window of link {i}: {} -> {}", b.w, a.w));
                        }
                        if !b.fr && a.fr && a.w > 2000 {
                            mon.fail("C06", "fast-recovery-entered-high", format!("link {i} entered fast recovery at window {}", a.w));
                        }
                        if b.fr && !a.fr {
                            mon.fail("C06", "fast-recovery-left-by-nak", format!("link {i} left fast recovery on a NAK"));
                        }
                        self.spec[i].remove(&ni);
                        mon.count("nak-charged");
                        mon.nontrivial();
                    }
                    if let Some(p) = tracked_pos {
                        mon.count("nak-tracker-hit");
                        if changed.iter().any(|i| *i != p) {
                            mon.fail("C05", "nak-tracker-bypass", format!("NAK {nk}: tracker remembers link {p} but links {changed:?} were charged"));
                        }
                        if holders.first().is_some_and(|h| *h != p) {
                            mon.count("nak-tracker-not-first-holder");
                            mon.nontrivial();
                        }
                    } else if !holders.is_empty() {
                        mon.count("nak-fallback-scan");
                        if changed != vec![holders[0]] {
                            mon.fail("C05", "nak-fallback-wrong", format!("NAK {nk} untracked: holders {holders:?} but charged {changed:?}"));
                        }
                    } else {
                        mon.count("nak-unknown");
                    }
                    self.mon_spec_if_clean(mon, &format!("{op} [nak {nk}]"));
                }
                self.mon_range(mon, &op);
                self.show()
            }
            ["reset", i, kind, now] => {
                let (Ok(i), Ok(now)) = (i.parse::<usize>(), now.parse::<u64>()) else { return "bad-op".into() };
                if !["recovery", "reconnect", "reg3"].contains(kind) {
                    return "bad-op".into();
                }
                if let Some(c) = self.links.get_mut(i) {
                    match *kind {
                        "recovery" => c.mark_for_recovery(),
                        "reconnect" => c.reset_for_reconnect(now),
                        _ => c.clear_pre_registration_state(now),
                    }
                    if *kind != "reg3" && c.window != 20000 {
                        mon.fail("C06", "init-reset", format!("window {} after {kind}", c.window));
                    }
                    if c.in_flight_packets != 0 {
                        mon.fail("C02", "reset-inflight", format!("in_flight {} after {kind}", c.in_flight_packets));
                    }
                    self.spec[i].clear();
                    mon.count("reset");
                }
                self.mon_spec_if_clean(mon, &op);
                self.show()
            }
            ["recover", i, now, vel] => {
                let (Ok(i), Ok(now), Some(vel)) = (
                    i.parse::<usize>(),
                    now.parse::<u64>(),
                    match *vel {
                        "1" => Some(true),
                        "0" => Some(false),
                        _ => None,
                    },
                ) else {
                    return "bad-op".into();
                };
                if let Some(c) = self.links.get_mut(i) {
                    let (bw, bfr) = (c.window, c.congestion.fast_recovery_mode);
                    let connected = c.connected;
                    let label = c.label.clone();
                    let v = match self.vel.get_mut(i).and_then(|v| v.take()) {
                        Some(v) => {
                            mon.count(if v.is_nan() { "recover-vel-nan" } else if v == 2.0 { "recover-vel-2.0-exact" } else if v > 2.0 { "recover-vel-high" } else { "recover-vel-low" });
                            v
                        }
                        None => {
                            if vel {
                                3.0
                            } else {
                                0.0
                            }
                        }
                    };
                    c.congestion.perform_window_recovery(&mut c.window, connected, v, &label, now);
                    if c.window < bw {
                        mon.fail("C06", "recovery-decreased-window", format!("time recovery decreased window {bw} -> {}", c.window));
                    }
                    if c.window > bw {
                        mon.count("recovery-grew");
                        mon.nontrivial();
                    }
                    if bfr && !c.congestion.fast_recovery_mode && c.window < 12000 {
                        mon.fail("C06", "fast-recovery-left-early", format!("left fast recovery at window {}", c.window));
                    }
                    if !bfr && c.congestion.fast_recovery_mode {
                        mon.fail("C06", "fast-recovery-entered-by-recovery", "entered fast recovery in time recovery".into());
                    }
                }
                self.mon_range(mon, &op);
                self.show()
            }
            ["remove", i] => {
                let Ok(i) = i.parse::<usize>() else { return "bad-op".into() };
                if i >= self.links.len() {
                    return "bad-op".into();
                }
                let id = self.links[i].conn_id;
                self.trk.remove_connection(id);
                self.trk_ghost.retain(|_, v| v.1 != id);
                self.links.remove(i);
                self.spec.remove(i);
                if i < self.vel.len() {
                    self.vel.remove(i);
                }
                mon.count("remove");
                self.show()
            }
            ["get", seq, now] => {
                let (Ok(seq), Ok(now)) = (seq.parse::<u32>(), now.parse::<u64>()) else { return "bad-op".into() };
                let got = self.trk.get(seq, now);
                self.mon_tracker(mon, seq, now, got);
                format!("get={}", show_opt(got))
            }
            _ => "bad-op".into(),
        }
    }
}

impl Conn {
    /// C05: the tracker remembers the carrier of the unique copy for 5 s, unless displaced by a
    /// colliding newer number or purged with its link (independent ghost).
    fn mon_tracker(&self, mon: &mut Mon, seq: u32, now: u64, got: Option<u64>) {
        let exp = match self.trk_ghost.get(&(seq % 16384)) {
            Some((s, cid, t)) if *s == seq && *cid != 0 && now.saturating_sub(*t) <= 5000 => Some(*cid),
            _ => None,
        };
        if exp.is_some() {
            mon.count("tracker-remembers");
        }
        if got != exp {
            mon.fail("C05", "tracker-memory", format!("tracker lookup of {seq} at {now}: got {got:?}, expected {exp:?} (5 s memory, newest write per slot, purged with its link)"));
        }
    }

    /// The set spec is only meaningful while no in-flight count has been injected by `setc inf=`.
    fn mon_spec_if_clean(&self, mon: &mut Mon, op: &str) {
        if !self.inf_injected {
            self.mon_spec(mon, op);
        }
    }
}

fn main() {
    verif_harness::run_main("conn", Box::new(Conn::new()));
}
