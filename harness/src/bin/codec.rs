//! Component `codec`: srtla-protocol decoders and builders (C15).

use std::panic::{AssertUnwindSafe, catch_unwind};

use srtla_protocol::*;

use verif_harness::util::*;
use verif_harness::{Component, Mon, Rng, Tier};

#[derive(Default)]
pub struct Codec;

fn guard<T>(mon: &mut Mon, what: &str, hex: &str, f: impl FnOnce() -> T) -> Option<T> {
    match catch_unwind(AssertUnwindSafe(f)) {
        Ok(v) => Some(v),
        Err(_) => {
            mon.fail("C15", &format!("panic:{what}"), format!("{what} panicked on {hex}"));
            None
        }
    }
}

fn chk<T>(o: Option<T>, f: impl FnOnce(T) -> String) -> String {
    match o {
        Some(v) => f(v),
        None => "PANIC".into(),
    }
}

const TYPES: [u16; 16] = [
    0x9000, 0x9100, 0x9200, 0x9201, 0x9202, 0x9210, 0x9211, 0x9212, 0x8000, 0x8002, 0x8003, 0x8005,
    0x0000, 0x7fff, 0x8001, 0xffff,
];
const LENS: [usize; 28] = [
    0, 1, 2, 3, 4, 5, 7, 8, 9, 10, 11, 12, 15, 16, 19, 20, 21, 24, 37, 38, 39, 40, 257, 258, 259, 1316,
    1499, 1500,
];

/// Lengths of the `sweep` space that every one of the 65 536 type codes is combined with
/// (lengths 0..2 are covered by the complete enumeration of all strings of at most 2 bytes).
fn sweep_lens() -> Vec<usize> {
    let mut v: Vec<usize> = (3..=40).collect();
    v.push(258);
    v.push(1500);
    v
}

/// Deterministic filler byte at offset `i >= 2` of a sweep datagram.
/// Filler `a`: the body of a fixed, valid extended keepalive up to offset 38 (timestamp with
/// distinct bytes, magic, version, six fields incl. negative i32s), then an arithmetic pattern.
/// Filler `b`: big-endian words from offset 4 on that read as NAK range starts (top bit set), range
/// ends a few numbers later, and single entries, in rotation - bytes 2..4 are zero.
fn sweep_fill(tmpl: &[u8], fill: u8, i: usize) -> u8 {
    match fill {
        b'a' => {
            if i < tmpl.len() {
                tmpl[i]
            } else {
                ((i * 131) ^ (i >> 2) ^ 0x5a) as u8
            }
        }
        _ => {
            if i < 4 {
                return 0;
            }
            let k = ((i - 4) / 4) as u32;
            let w: u32 = match k % 4 {
                0 => 0x8000_0000 | (k * 7),
                1 => k * 7 + (k % 5),
                2 => k * 1000 + 1,
                _ => 0x7fff_fff0 + (k % 16),
            };
            w.to_be_bytes()[(i - 4) % 4]
        }
    }
}

fn sweep_template() -> Vec<u8> {
    let info = ConnectionInfo {
        conn_id: 0x8102_0304,
        window: -2,
        in_flight: 0x7fff_fffe,
        rtt_ms: 0x0000_01f4,
        nak_count: 0xffff_ffff,
        bitrate_bytes_per_sec: 0x8000_0000,
    };
    create_keepalive_packet_ext(info, 0x0102_0304_8506_0708).to_vec()
}

fn sweep_packet(tmpl: &[u8], ty: u16, len: usize, fill: u8) -> Vec<u8> {
    let t = ty.to_be_bytes();
    (0..len).map(|i| if i < 2 { t[i] } else { sweep_fill(tmpl, fill, i) }).collect()
}

/// Type codes that some decoder looks at, with both neighbours, plus the whole 0x80xx page and the
/// 0x90xx..0x92xx pages (used for the second filler and the wider length grid of the sweep).
fn sweep_special_types() -> Vec<u16> {
    let mut v: Vec<u16> = Vec::new();
    for t in 0x8000u16..=0x80ff {
        v.push(t);
    }
    for t in 0x9000u16..=0x92ff {
        v.push(t);
    }
    for t in [0x0000u16, 0x0001, 0x0003, 0x7ffe, 0x7fff, 0x8100, 0x8fff, 0x9300, 0xc01f, 0xfffe, 0xffff] {
        v.push(t);
    }
    v
}

impl Codec {
    fn gen_packet(rng: &mut Rng) -> Vec<u8> {
        match rng.below(10) {
            0 | 1 | 2 => {
                // known type, boundary-biased length, random body
                let len = if rng.chance(3, 4) { *rng.pick(&LENS) } else { rng.below(1501) as usize };
                let mut b = rng.bytes(len);
                let t = rng.pick(&TYPES).to_be_bytes();
                for (i, x) in t.iter().enumerate() {
                    if i < b.len() {
                        b[i] = *x;
                    }
                }
                b
            }
            3 | 4 => {
                // structured SRT NAK: singles, ranges (normal, huge, reversed, to u32::MAX), truncation
                let mut b = vec![0x80, 0x03, 0, 0];
                if rng.chance(1, 6) {
                    b[2] = rng.next_u64() as u8;
                    b[3] = rng.next_u64() as u8;
                }
                let n = rng.below(12);
                for _ in 0..n {
                    let base = match rng.below(4) {
                        0 => rng.below(100) as u32,
                        1 => 0x7fff_ff00 + rng.below(256) as u32,
                        _ => (rng.next_u64() as u32) & 0x7fff_ffff,
                    };
                    if rng.chance(1, 2) {
                        b.extend_from_slice(&base.to_be_bytes());
                    } else {
                        b.extend_from_slice(&(base | 0x8000_0000).to_be_bytes());
                        let end = match rng.below(6) {
                            0 => base,
                            1 => base.wrapping_add(rng.below(20) as u32),
                            2 => base.wrapping_add(990 + rng.below(30) as u32),
                            3 => u32::MAX,
                            4 => base.wrapping_sub(1 + rng.below(5) as u32),
                            _ => rng.next_u64() as u32,
                        };
                        b.extend_from_slice(&end.to_be_bytes());
                    }
                }
                let cut = rng.below(4) as usize;
                if rng.chance(1, 3) && b.len() > cut {
                    b.truncate(b.len() - cut);
                }
                b
            }
            5 => {
                // SRTLA ACK (builder output, sometimes truncated / padded)
                let n = rng.below(12) as usize;
                let acks: Vec<u32> = (0..n).map(|_| rng.next_u64() as u32).collect();
                let mut b = create_ack_packet(&acks).to_vec();
                match rng.below(4) {
                    0 => {
                        let cut = rng.below(4) as usize;
                        if b.len() > cut {
                            b.truncate(b.len() - cut)
                        }
                    }
                    1 => { let k = rng.below(4) as usize; b.extend(rng.bytes(k)) }
                    _ => {}
                }
                b
            }
            6 => {
                // SRT ACK, boundary lengths around 20
                let len = 16 + rng.below(10) as usize;
                let mut b = rng.bytes(len);
                b[0] = 0x80;
                b[1] = 0x02;
                b
            }
            7 => {
                // extended keepalive, then mutate magic / version / length
                let info = ConnectionInfo {
                    conn_id: rng.next_u64() as u32,
                    window: rng.next_u64() as i32,
                    in_flight: rng.next_u64() as i32,
                    rtt_ms: rng.next_u64() as u32,
                    nak_count: rng.next_u64() as u32,
                    bitrate_bytes_per_sec: rng.next_u64() as u32,
                };
                let mut b = create_keepalive_packet_ext(info, rng.next_u64()).to_vec();
                match rng.below(5) {
                    0 => b[10] ^= 1,
                    1 => b[13] ^= 1,
                    2 => b.truncate(rng.below(39) as usize),
                    3 => { let k = rng.below(8) as usize; b.extend(rng.bytes(k)) }
                    _ => {}
                }
                b
            }
            8 => {
                // SRT data packet with flag bits
                let len = if rng.chance(1, 2) { *rng.pick(&LENS) } else { 16 + rng.below(1400) as usize };
                let mut b = rng.bytes(len);
                if !b.is_empty() {
                    b[0] &= 0x7f;
                }
                b
            }
            _ => {
                let len = if rng.chance(1, 2) { rng.below(41) as usize } else { rng.below(1501) as usize };
                rng.bytes(len)
            }
        }
    }
}

impl Component for Codec {
    fn rule(&self) -> &'static str {
        "codec: each case is 8 ops; `dec <bytes>` runs every decoder on one byte string (known type codes \
         x boundary lengths, structured NAK with singles/ranges/huge/reversed/truncated, SRTLA ACK, SRT ACK \
         around 20 bytes, mutated extended keepalives, data packets, random bytes) and builder ops `ka`, \
         `kaext`, `mkack`, `reg1`, `reg2` on boundary and random arguments. Non-trivial: at least one decoder \
         returned a non-empty / Some result or a builder op ran. Thorough tier adds the complete enumeration \
         `sweep`: all byte strings of length <= 2, all 65 536 type codes x lengths {3..40, 258, 1500} with a \
         deterministic filler, decoder-relevant type pages x lengths {3..64, 257..259, 1316, 1499, 1500} with a \
         NAK-shaped filler (a slice of it is stored as corpus/codec/sweep_mini.ops for the quick tier)."
    }

    fn gen_case(&mut self, rng: &mut Rng, _tier: Tier, _idx: usize) -> Vec<String> {
        let mut ops = Vec::new();
        for _ in 0..8 {
            let op = match rng.below(16) {
                0 => {
                    let now = match rng.below(4) {
                        0 => 0,
                        1 => u64::MAX,
                        2 => rng.below(1 << 41),
                        _ => rng.next_u64(),
                    };
                    format!("ka {now}")
                }
                1 => {
                    let e = |r: &mut Rng| -> u32 {
                        match r.below(4) {
                            0 => 0,
                            1 => u32::MAX,
                            2 => r.below(70000) as u32,
                            _ => r.next_u64() as u32,
                        }
                    };
                    let w = e(rng) as i32;
                    let inf = e(rng) as i32;
                    format!(
                        "kaext {} {} {} {} {} {} {}",
                        e(rng),
                        w,
                        inf,
                        e(rng),
                        e(rng),
                        e(rng),
                        rng.next_u64()
                    )
                }
                2 => {
                    let n = rng.below(6) as usize;
                    let acks: Vec<u32> = (0..n)
                        .map(|_| if rng.chance(1, 3) { u32::MAX - rng.below(3) as u32 } else { rng.next_u64() as u32 })
                        .collect();
                    format!("mkack {}", join_list(&acks))
                }
                3 => format!("reg1 {}", to_hex(&rng.bytes(256))),
                4 => format!("reg2 {}", to_hex(&rng.bytes(256))),
                _ => format!("dec {}", to_hex(&Self::gen_packet(rng))),
            };
            ops.push(op);
        }
        ops
    }

    /// `sweep`: (1) EVERY byte string of length 0, 1 and 2 (1 + 256 + 65 536 strings); (2) every one
    /// of the 65 536 type codes x every length in {3..40, 258, 1500} with filler `a`; (3) the type
    /// codes some decoder looks at (pages 0x80xx, 0x90xx-0x92xx and the neighbours of the
    /// top-bit / zero / all-ones boundaries) x lengths {3..64, 257..259, 1316, 1499, 1500} with the
    /// NAK-shaped filler `b`.  One `dec` op per string; a case holds one (length, high type byte) row.
    /// `sweep-mini` is the part of it that is stored in corpus/codec (quick tier).
    fn exhaustive(&mut self, which: &str) -> Option<Vec<Vec<String>>> {
        let mini = match which {
            "sweep" => false,
            "sweep-mini" => true,
            _ => return None,
        };
        let tmpl = sweep_template();
        let mut cases: Vec<Vec<String>> = Vec::new();
        // (1) all strings of at most 2 bytes
        cases.push(vec!["dec -".to_string()]);
        cases.push((0..=255u8).map(|a| format!("dec {}", to_hex(&[a]))).collect());
        if !mini {
            for a in 0..=255u8 {
                cases.push((0..=255u8).map(|b| format!("dec {}", to_hex(&[a, b]))).collect());
            }
        }
        // (2) all type codes x lengths, filler a
        let special = sweep_special_types();
        for len in sweep_lens() {
            if mini {
                cases.push(TYPES.iter().map(|t| format!("dec {}", to_hex(&sweep_packet(&tmpl, *t, len, b'a')))).collect());
                continue;
            }
            for hi in 0..=255u16 {
                cases.push(
                    (0..=255u16)
                        .map(|lo| format!("dec {}", to_hex(&sweep_packet(&tmpl, hi << 8 | lo, len, b'a'))))
                        .collect(),
                );
            }
        }
        // (3) decoder-relevant type codes x wider length grid, filler b
        let mut lens_b: Vec<usize> = (3..=64).collect();
        lens_b.extend_from_slice(&[257, 258, 259, 1316, 1499, 1500]);
        for len in lens_b {
            let row: Vec<u16> = if mini { TYPES.to_vec() } else { special.clone() };
            cases.push(row.iter().map(|t| format!("dec {}", to_hex(&sweep_packet(&tmpl, *t, len, b'b')))).collect());
        }
        Some(cases)
    }

    fn start_case(&mut self) {}

    fn exec(&mut self, toks: &[&str], mon: &mut Mon) -> String {
        match toks {
            ["dec", h] => {
                let Some(b) = parse_hex(h) else { return "bad-op".into() };
                let b = &b[..];
                let pt = guard(mon, "get_packet_type", h, || get_packet_type(b));
                let seq = guard(mon, "get_srt_sequence_number", h, || get_srt_sequence_number(b));
                let retx = guard(mon, "is_srt_data_retransmit", h, || is_srt_data_retransmit(b));
                let r1 = guard(mon, "is_srtla_reg1", h, || is_srtla_reg1(b));
                let r2 = guard(mon, "is_srtla_reg2", h, || is_srtla_reg2(b));
                let r3 = guard(mon, "is_srtla_reg3", h, || is_srtla_reg3(b));
                let ka = guard(mon, "is_srtla_keepalive", h, || is_srtla_keepalive(b));
                let isack = guard(mon, "is_srt_ack", h, || is_srt_ack(b));
                let kats = guard(mon, "extract_keepalive_timestamp", h, || extract_keepalive_timestamp(b));
                let kainfo = guard(mon, "extract_keepalive_conn_info", h, || extract_keepalive_conn_info(b));
                let ack = guard(mon, "parse_srt_ack", h, || parse_srt_ack(b));
                let nak = guard(mon, "parse_srt_nak", h, || parse_srt_nak(b).to_vec());
                let sack = guard(mon, "parse_srtla_ack", h, || parse_srtla_ack(b).to_vec());

                // --- C15 monitors on the real decoders (model-independent) ---
                if let Some(n) = &nak {
                    let bound = 1000 + b.len().saturating_sub(4) / 4;
                    if n.len() > bound {
                        mon.fail("C15", "nak-bound", format!("parse_srt_nak returned {} > {} entries on {h}", n.len(), bound));
                    }
                    if !n.is_empty() {
                        mon.count("nak-nonempty");
                        mon.nontrivial();
                    }
                    if n.len() >= 1000 {
                        mon.count("nak-1000+");
                    }
                }
                if let Some(Some(a)) = ack {
                    mon.count("srt-ack-some");
                    mon.nontrivial();
                    if b.len() < 20 || a != u32::from_be_bytes([b[16], b[17], b[18], b[19]]) {
                        mon.fail("C15", "srt-ack-layout", format!("parse_srt_ack={a} not bytes 16..20 of {h}"));
                    }
                }
                if let Some(s) = &sack {
                    if !s.is_empty() {
                        mon.count("srtla-ack-nonempty");
                        mon.nontrivial();
                        for (i, v) in s.iter().enumerate() {
                            let o = 4 + 4 * i;
                            if o + 4 > b.len() || *v != u32::from_be_bytes([b[o], b[o + 1], b[o + 2], b[o + 3]]) {
                                mon.fail("C15", "srtla-ack-layout", format!("entry {i} of parse_srtla_ack not the word at {o} of {h}"));
                            }
                        }
                    }
                }
                if let Some(Some(s)) = seq {
                    mon.count("data-seq-some");
                    mon.nontrivial();
                    if b[0] & 0x80 != 0 || s != u32::from_be_bytes([b[0], b[1], b[2], b[3]]) {
                        mon.fail("C15", "data-layout", format!("sequence number {s} from a packet with the top bit set: {h}"));
                    }
                }
                if let Some(true) = retx {
                    mon.count("retransmit");
                    if b.len() < 8 || b[0] & 0x80 != 0 || b[4] & 0x04 == 0 {
                        mon.fail("C15", "retransmit-layout", format!("retransmit flag misread on {h}"));
                    }
                }
                if let Some(Some(_)) = kats {
                    mon.count("kats-some");
                    mon.nontrivial();
                }
                if let Some(Some(_)) = kainfo {
                    mon.count("kainfo-some");
                }
                if let Some(None) = pt {
                    mon.count("short<2");
                }

                let info = |i: Option<ConnectionInfo>| match i {
                    None => "-".to_string(),
                    Some(i) => format!(
                        "{}/{}/{}/{}/{}/{}",
                        i.conn_id, i.window, i.in_flight, i.rtt_ms, i.nak_count, i.bitrate_bytes_per_sec
                    ),
                };
                [
                    format!("pt={}", chk(pt, show_opt)),
                    format!("seq={}", chk(seq, show_opt)),
                    format!("retx={}", chk(retx, |x| show_bool(x).into())),
                    format!("r1={}", chk(r1, |x| show_bool(x).into())),
                    format!("r2={}", chk(r2, |x| show_bool(x).into())),
                    format!("r3={}", chk(r3, |x| show_bool(x).into())),
                    format!("ka={}", chk(ka, |x| show_bool(x).into())),
                    format!("isack={}", chk(isack, |x| show_bool(x).into())),
                    format!("kats={}", chk(kats, show_opt)),
                    format!("kainfo={}", chk(kainfo, info)),
                    format!("ack={}", chk(ack, show_opt)),
                    format!("nak={}", chk(nak, |x| show_list(&x))),
                    format!("sack={}", chk(sack, |x| show_list(&x))),
                ]
                .join(" ")
            }
            ["ka", now] => {
                let Ok(now) = now.parse::<u64>() else { return "bad-op".into() };
                let p = create_keepalive_packet(now);
                mon.nontrivial();
                if p.len() != 10 || extract_keepalive_timestamp(&p) != Some(now) || !is_srtla_keepalive(&p) {
                    mon.fail("C15", "roundtrip:keepalive", format!("keepalive({now}) does not decode back"));
                }
                to_hex(&p)
            }
            ["kaext", cid, w, inf, rtt, nak, br, now] => {
                let (Ok(cid), Ok(w), Ok(inf), Ok(rtt), Ok(nak), Ok(br), Ok(now)) = (
                    cid.parse::<u32>(),
                    w.parse::<i32>(),
                    inf.parse::<i32>(),
                    rtt.parse::<u32>(),
                    nak.parse::<u32>(),
                    br.parse::<u32>(),
                    now.parse::<u64>(),
                ) else {
                    return "bad-op".into();
                };
                let info = ConnectionInfo {
                    conn_id: cid,
                    window: w,
                    in_flight: inf,
                    rtt_ms: rtt,
                    nak_count: nak,
                    bitrate_bytes_per_sec: br,
                };
                let p = create_keepalive_packet_ext(info, now);
                mon.nontrivial();
                if p.len() != 38
                    || extract_keepalive_conn_info(&p) != Some(info)
                    || extract_keepalive_timestamp(&p) != Some(now)
                    || p[..10] != create_keepalive_packet(now)
                {
                    mon.fail("C15", "roundtrip:keepalive_ext", format!("keepalive_ext({info:?},{now}) does not decode back"));
                }
                to_hex(&p)
            }
            ["mkack", l] => {
                let Some(acks) = parse_list::<u32>(l) else { return "bad-op".into() };
                let p = create_ack_packet(&acks);
                mon.nontrivial();
                let back = parse_srtla_ack(&p).to_vec();
                if p.len() != 4 + 4 * acks.len() || back != acks || get_packet_type(&p) != Some(SRTLA_TYPE_ACK) {
                    mon.fail("C15", "roundtrip:srtla_ack", format!("ack packet {acks:?} does not decode back ({back:?})"));
                }
                to_hex(&p)
            }
            ["reg1", h] | ["reg2", h] => {
                let Some(id) = parse_hex(h) else { return "bad-op".into() };
                let Ok(id): Result<[u8; 256], _> = id.try_into() else { return "bad-op".into() };
                mon.nontrivial();
                let p = if toks[0] == "reg1" { create_reg1_packet(&id) } else { create_reg2_packet(&id) };
                let ok = p.len() == 258
                    && p[2..] == id
                    && if toks[0] == "reg1" { is_srtla_reg1(&p) } else { is_srtla_reg2(&p) };
                if !ok {
                    mon.fail("C15", "roundtrip:reg", format!("{} packet layout wrong", toks[0]));
                }
                to_hex(&p)
            }
            _ => "bad-op".into(),
        }
    }
}

fn main() {
    verif_harness::run_main("codec", Box::new(Codec));
}
