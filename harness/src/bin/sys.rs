//! Component `sys`: the REAL sender shell driven one event-loop arm at a time
//! (`handle_srt_packet`, `handle_uplink_packet`, `flush_all_batches`, `handle_housekeeping`, and the
//! tail of the housekeeping arm after a SIGHUP: `apply_connection_changes`, op `reload`)
//! over real loopback UDP sockets, under the virtual clock (C01, C04, C05, C08, C09, C10, C11, C14, C19).

use std::collections::{BTreeMap, BTreeSet, HashMap};
use std::net::{IpAddr, Ipv4Addr, SocketAddr, UdpSocket as StdUdp};
use std::os::fd::{AsRawFd, FromRawFd};
use std::sync::{Arc, Mutex};

use smallvec::SmallVec;
use srtla_core::config_snapshot::ConfigSnapshot;
use srtla_core::connection::{LinkPhase, SrtlaConnection};
use srtla_core::mode::SchedulingMode;
use srtla_core::priority::CriticalWindow;
use srtla_core::registration::SrtlaRegistrationManager;
use srtla_core::utils::verif_clock;
use srtla_protocol::*;
use std::sync::atomic::{AtomicU32, Ordering};

use srtla_send::net::{BatchUdpSocket, CallbackBinder, UplinkBinder, verif_fail};
use srtla_send::sender::verif_hooks::*;
use verif_harness::util::*;
use verif_harness::{Component, Mon, Rng, Tier};

struct World {
    links: Vec<SrtlaConnection>,
    io: ConnIoMap,
    receivers: BTreeMap<u64, StdUdp>, // conn_id -> harness-owned receiver socket
    reg: SrtlaRegistrationManager,
    trk: SequenceTracker,
    last_selected: Option<usize>,
    last_client: Option<SocketAddr>,
    cfg: ConfigSnapshot,
    crit: CriticalWindow,
    all_failed_at: Option<u64>,
    readers: HashMap<ConnectionId, ReaderHandle>,
    packet_tx: tokio::sync::mpsc::UnboundedSender<UplinkPacket>,
    _packet_rx: tokio::sync::mpsc::UnboundedReceiver<UplinkPacket>,
    instant_tx: InstantForwarder,
    instant_rx: tokio::sync::mpsc::UnboundedReceiver<(SocketAddr, SmallVec<u8, 64>)>,
    listener: tokio::net::UdpSocket,
    client: StdUdp,
    client_addr: SocketAddr,
    fail_pending: Vec<u64>,
    /// the PARTIAL ones among `fail_pending` (op `failafter`): (conn id, datagrams of the batch that go out before
    /// the send fails), oldest first like the live entries of the model's `failAfter`
    fail_after: Vec<(u64, usize)>,
    /// conn ids whose next socket re-creation fails (op `failbind`), newest first like the model's list
    bind_fail: Vec<u64>,
    /// per conn id: how many more `bind` calls the harness-owned binder of that link refuses
    bind_refusals: BTreeMap<u64, Arc<AtomicU32>>,
    /// op `deadsock`: per conn id the unconnected socket the harness swapped in (every send on it fails)
    /// and the working socket it replaced
    dead: BTreeMap<u64, (Arc<BatchUdpSocket>, Arc<BatchUdpSocket>)>,
    /// the `receiver_host:receiver_port` every uplink label names (`127.0.0.1:<port of this socket>`): a
    /// harness-owned socket nobody ever sends to. `connect_uplink` (op `reload`) connects the sockets of new
    /// uplinks there; the harness re-points them at a per-link receiver right after the call.
    reload_rx: StdUdp,
    reload_port: u16,
    /// uplinks created so far in this case: canonical conn ids are 1, 2, .. in creation order (the random
    /// ids `connect_uplink` draws are renamed right after the call)
    created: u64,
    /// receivers of the uplinks a reload removed: nothing may ever arrive there again
    removed_rx: Vec<(u64, StdUdp)>,
    /// op `hkarm`: the REAL weak-link filter and per-link CC controller the event loop owns next to the
    /// connections (`run_sender_with_config`: `weak_link_filter`, `link_cc_controller`); fresh per `init`
    weak_link_filter: srtla_core::selection::classifier::WeakLinkFilter,
    link_cc_controller: srtla_core::selection::link_cc::LinkCcController,
    /// op `hkarm` (task B3): the REAL stats container the event loop publishes from (`shared_stats`); one per `init`
    shared_stats: srtla_send::stats::SharedStats,
}

/// The address token of an uplink, read off its LABEL - the production format `<host>:<port> via <ip>` with
/// ip = 127.0.1.<addr>; the label is what `apply_connection_changes` keys on.
fn link_addr(c: &SrtlaConnection) -> Option<u8> {
    let (_, ip) = c.label.rsplit_once(" via ")?;
    let o = ip.parse::<Ipv4Addr>().ok()?.octets();
    (o[0] == 127 && o[1] == 0 && o[2] == 1 && (1..=254).contains(&o[3])).then_some(o[3])
}

fn addr_ip(a: u8) -> IpAddr {
    IpAddr::V4(Ipv4Addr::new(127, 0, 1, a))
}

fn uplink_label(port: u16, a: u8) -> String {
    format!("127.0.0.1:{port} via {}", addr_ip(a))
}

/// The harness owns the `UplinkBinder` it hands to the real code (one per link, stored in that link's
/// `ConnIo`): it refuses while the link's refusal counter is positive (consuming one refusal per call,
/// so `reconnect_uplink` fails before it replaces the socket), otherwise it leaves the fresh socket
/// unbound — `connect` to the loopback receiver then picks 127.0.0.1 and an ephemeral port, which is
/// what `SourceIpBinder` does for the link's source address 127.0.0.1.
fn refusing_binder(refusals: Arc<AtomicU32>) -> Arc<dyn UplinkBinder> {
    Arc::new(CallbackBinder(move |_fd: std::os::fd::RawFd, _ip: IpAddr| -> std::io::Result<()> {
        let left = refusals.load(Ordering::SeqCst);
        if left > 0 {
            refusals.store(left - 1, Ordering::SeqCst);
            Err(std::io::Error::other("verif: interface gone"))
        } else {
            Ok(())
        }
    }))
}

/// Ghost bookkeeping for the monitors (independent of the model).
#[derive(Default)]
struct Ghost {
    accepted: Vec<Vec<u8>>,                 // accepted client datagrams, index = tag
    tag_of: HashMap<Vec<u8>, usize>,        // content -> tag (generator makes payloads unique)
    pre_est_tags: BTreeSet<usize>,          // tags accepted BEFORE the session was established (pre-registration forwarding)
    wire_tags: BTreeMap<u64, Vec<usize>>,   // per conn id: tags seen on the wire, in order
    routed_data: u64,                       // data packets routed since case start
    probes: BTreeMap<u64, u64>,             // per conn id: duplicate copies seen
    lost_ok: BTreeSet<usize>,               // tags discarded by a reset / failed send
    dropped: BTreeSet<usize>,               // tags for which no link was returned
    last_attempt: BTreeMap<u64, (u64, bool)>, // conn id -> (time of last reconnect attempt, established before?)
    torn_at: BTreeMap<u64, u64>, // conn id -> time of the tear-down that left the link down (cleared on rejoin)
    win_injected: BTreeSet<u64>, // conn ids whose window was injected by `setlink w=` while the link was down
    last_hk: Option<u64>,        // time of the previous housekeeping tick (coverage counter only)
    heard_at: BTreeMap<u64, u64>, // conn id -> time of the last datagram (>= 2 bytes) the harness delivered on that uplink
    pulled_since: BTreeMap<u64, u64>, // conn id -> time of the op that engaged the link's silence pull (C13, last clause)
    /// per link index: is the link stall-gated by a FRESH gate pass at the instant of the client op now being judged
    /// (the project's own `select_connection_idx` run on a CLONE of the pre-state), `None` when not computed
    fresh_gate: Option<Vec<bool>>,
    live_at: BTreeMap<u64, u64>,  // conn id -> time of the last datagram that refreshes liveness: non-registration (C09) or REG3
    probe_armed: BTreeSet<u64>,   // conn ids on which a keepalive armed the RTT probe SINCE the link's last reset / sample
    max_cto: u64,                 // largest connection timeout configured so far in this case (>= the 5000 ms default)
    client_seen: bool,            // a non-empty datagram from the SRT client has been handed to the shell
    tracked: Vec<(u32, u64)>,     // (sequence number, time) of the data packets handed to the shell lately (newest last, <= 512)
    removed_addrs: BTreeSet<u8>,  // address tokens of the uplinks removed by a reload so far in this case
    reload_new_ids: BTreeSet<u64>, // conn ids of the uplinks a reload created in this case (coverage counters only)
    /// B1: per conn id the datagrams the harness SENT to the uplink's current socket and has not yet seen handed to
    /// the shell (cut to 1500 bytes, empty ones left out), oldest first
    rx_sent: BTreeMap<u64, std::collections::VecDeque<Vec<u8>>>,
}

struct SysComp {
    rt: tokio::runtime::Runtime,
    w: Option<World>,
    g: Ghost,
    /// the rest of this case uses a fault the model does not have (op `deadsock`): the real code is still
    /// run and monitored, the printed line is the constant `unmodelled` (the model driver prints the same)
    unmodelled: bool,
}

fn show_phase(p: &LinkPhase) -> String {
    match p {
        LinkPhase::Registering => "reg".into(),
        LinkPhase::Warming { rtt_probes, entered_ms } => format!("warm:{rtt_probes}:{entered_ms}"),
        LinkPhase::Live => "live".into(),
        LinkPhase::Degraded => "deg".into(),
    }
}

fn fb(x: f64) -> u64 {
    x.to_bits()
}

fn show_link(c: &SrtlaConnection) -> String {
    let p = c.verif_private();
    let log: Vec<String> = c.verif_packet_log().iter().map(|(s, t)| format!("{s}:{t}")).collect();
    let q: Vec<String> = c
        .batch_sender
        .verif_queue()
        .iter()
        .map(|(d, s, t)| format!("{}:{}:{}", show_opt(*s), t, d.len()))
        .collect();
    let regime = match c.batch_sender.verif_batch_size() {
        4 => "low",
        16 => "normal",
        _ => "high",
    };
    format!(
        "{}@{} c={} ph={} w={} inf={} log=[{}] hi={} lr={} ls={} lka={} proof={} gated={} lat={} rec={} gev={} pc={} pulled={} mark={} pulls={} cto={} rtt[lks={} wait={} lrm={} kx={} kv={} ki={} jit={} prev={} avgd={} min={} minf={} mins={} masd={} est={}] br[tot={} win={} lu={} cur={}] rc[la={} fc={} est={} grace={}] qm={} qat={} q=[{}] lfl={} regime={} weak={} cct={} ld={} cg[nak={} lnak={} lincr={} fr={} frs={} burst={} bstart={}]",
        c.conn_id,
        link_addr(c).map_or_else(|| "?".to_string(), |a| a.to_string()),
        show_bool(c.connected),
        show_phase(&c.phase),
        c.window,
        c.in_flight_packets,
        log.join(","),
        c.verif_highest_acked_seq(),
        show_opt(c.last_received),
        show_opt(c.last_sent),
        show_opt(c.verif_last_keepalive_sent()),
        c.last_ack_or_rtt_sample_ms,
        show_bool(p.stall_gated),
        p.stall_latched_since_ms,
        p.stall_recovery_since_ms,
        p.stall_gate_events,
        p.stall_probe_counter,
        show_bool(p.silence_pulled),
        show_opt(p.silence_pull_heard_mark),
        p.silence_pulls,
        p.conn_timeout_ms,
        c.rtt.last_keepalive_sent_ms,
        show_bool(c.rtt.waiting_for_keepalive_response),
        c.rtt.last_rtt_measurement_ms,
        fb(c.rtt.kalman_rtt.value()),
        fb(c.rtt.kalman_rtt.velocity()),
        show_bool(c.rtt.kalman_rtt.is_initialized()),
        fb(c.rtt.rtt_jitter_ms),
        fb(c.rtt.prev_rtt_ms),
        fb(c.rtt.rtt_avg_delta.value()),
        fb(c.rtt.rtt_min_ms),
        fb(c.rtt.rtt_min_fast_ms),
        fb(c.rtt.rtt_min_slow_ms),
        fb(c.rtt.rtt_masd_ms),
        fb(c.rtt.estimated_rtt_ms),
        c.bitrate.bytes_sent_total,
        c.bitrate.bytes_sent_window,
        c.bitrate.last_rate_update_ms,
        fb(c.bitrate.current_bitrate_bps),
        c.reconnection.last_reconnect_attempt_ms,
        c.reconnection.reconnect_failure_count,
        c.reconnection.connection_established_ms,
        c.reconnection.startup_grace_deadline_ms,
        fb(p.quality_multiplier),
        p.quality_calculated_ms,
        q.join(","),
        c.batch_sender.verif_last_flush_ms(),
        regime,
        show_bool(c.weak),
        c.cc_target_bps,
        show_bool(c.loss_degraded),
        c.congestion.nak_count,
        c.congestion.last_nak_time_ms,
        c.congestion.last_window_increase_ms,
        show_bool(c.congestion.fast_recovery_mode),
        c.congestion.fast_recovery_start_ms,
        c.congestion.nak_burst_count,
        c.congestion.nak_burst_start_time_ms
    )
}

fn fnv_bytes(b: &[u8]) -> u64 {
    let mut h: u64 = 14695981039346656037;
    for x in b {
        h ^= *x as u64;
        h = h.wrapping_mul(1099511628211);
    }
    h
}

fn id_from_seed(seed: u64, salt: u64) -> [u8; 256] {
    let mut id = [0u8; 256];
    for (i, b) in id.iter_mut().enumerate() {
        *b = ((seed * 31 + i as u64 * 7 + salt) % 256) as u8;
    }
    id
}

fn drain(sock: &StdUdp) -> Vec<Vec<u8>> {
    let mut out = Vec::new();
    let mut buf = [0u8; 2048];
    loop {
        match sock.recv(&mut buf) {
            Ok(n) => out.push(buf[..n].to_vec()),
            Err(_) => break,
        }
    }
    out
}

impl World {
    fn show_reg(&self) -> String {
        let s = self.reg.verif_state();
        let pr: Vec<String> = s.probe_results.iter().map(|(i, t, r)| format!("{i}:{t}:{}", show_opt(*r))).collect();
        format!(
            "reg[id={} pend={} pto={} act={} hc={} bc={} tgt={} next={} pr={} res=[{}]]",
            fnv_bytes(&self.reg.srtla_id),
            show_opt(s.pending_reg2_idx),
            s.pending_timeout_at_ms,
            s.active_connections,
            show_bool(s.has_connected),
            show_bool(s.broadcast_reg2_pending),
            show_opt(s.reg1_target_idx),
            s.reg1_next_send_at_ms,
            s.probing_state,
            pr.join(",")
        )
    }

    fn show(&self) -> String {
        let mut keys: Vec<u64> = self.io.keys().copied().collect();
        keys.sort_unstable();
        let fa: Vec<String> = self.fail_after.iter().map(|(id, k)| format!("{id}:{k}")).collect();
        format!(
            "sys[last={} ck={} afa={} fail={} fb={} fa={} io={}] {} | {}",
            show_opt(self.last_selected),
            show_bool(self.last_client.is_some()),
            show_opt(self.all_failed_at),
            show_list(&self.fail_pending),
            show_list(&self.bind_fail),
            show_list(&fa),
            show_list(&keys),
            self.show_reg(),
            self.links.iter().map(show_link).collect::<Vec<_>>().join(" | ")
        )
    }

    /// Re-arm the send-failure injections against the sockets' CURRENT fds; returns (id, fd) armed.
    fn arm_failures(&self) -> Vec<(u64, i32)> {
        verif_fail::clear();
        let mut armed = Vec::new();
        for id in &self.fail_pending {
            if let Some(io) = self.io.get(id) {
                let fd = io.socket.as_raw_fd();
                // a partial failure (op `failafter`): the first k datagrams of the batch go out, then the error
                match self.fail_after.iter().find(|(i, _)| i == id) {
                    Some((_, k)) => verif_fail::fail_after(fd, *k),
                    None => verif_fail::fail_next(fd),
                }
                armed.push((*id, fd));
            }
        }
        armed
    }

    /// An injection stays pending (keyed by conn id) until a `send_all_datagrams` consumed it.
    fn collect_failures(&mut self, armed: &[(u64, i32)]) {
        let mut left: Vec<i32> = verif_fail::pending();
        left.extend(verif_fail::pending_after().into_iter().map(|(fd, _)| fd));
        self.fail_pending.retain(|id| match armed.iter().find(|(i, _)| i == id) {
            Some((_, fd)) => left.contains(fd),
            None => true,
        });
        // a consumed partial failure takes its prefix length with it
        let pending = &self.fail_pending;
        self.fail_after.retain(|(id, _)| pending.contains(id));
        verif_fail::clear();
    }

    /// A bind-failure injection stays pending (keyed by conn id) until a `reconnect_uplink` of that
    /// link called the binder and was refused.
    fn collect_bind_failures(&mut self) {
        let ctr = &self.bind_refusals;
        self.bind_fail.retain(|id| ctr.get(id).is_some_and(|c| c.load(Ordering::SeqCst) > 0));
    }

    /// Everything that appeared on the wire (per conn id, in conn order then arrival order) and at the client.
    fn capture(&mut self) -> (Vec<(u64, Vec<u8>)>, Vec<Vec<u8>>) {
        let mut wire = Vec::new();
        for c in &self.links {
            if let Some(r) = self.receivers.get(&c.conn_id) {
                for d in drain(r) {
                    wire.push((c.conn_id, d));
                }
            }
        }
        let mut client = drain(&self.client);
        while let Ok((_, pkt)) = self.instant_rx.try_recv() {
            client.push(pkt.to_vec());
        }
        (wire, client)
    }
}

fn usable(c: &SrtlaConnection, now: u64) -> bool {
    c.connected && c.is_schedulable() && !c.is_timed_out(now)
}

fn is_internal(pt: u16) -> bool {
    matches!(pt, SRTLA_TYPE_REG2 | SRTLA_TYPE_REG3 | SRTLA_TYPE_REG_ERR | SRTLA_TYPE_REG_NGP | SRTLA_TYPE_ACK | SRTLA_TYPE_KEEPALIVE)
}

fn is_registration(pt: u16) -> bool {
    matches!(pt, SRTLA_TYPE_REG2 | SRTLA_TYPE_REG3 | SRTLA_TYPE_REG_ERR | SRTLA_TYPE_REG_NGP)
}

impl SysComp {
    /// `deadsock <cid> 1`: swap the link's uplink socket for an unconnected one (every send fails with
    /// EDESTADDRREQ: dead interface); `deadsock <cid> 0`: put the working socket back.
    fn dead_socket(&mut self, cid: &str, on: &str) {
        let _guard = self.rt.enter();
        let Some(w) = self.w.as_mut() else { return };
        let Ok(cid) = cid.parse::<u64>() else { return };
        let Some(io) = w.io.get_mut(&cid) else { return };
        if on == "1" {
            if w.dead.get(&cid).is_some_and(|(d, _)| Arc::ptr_eq(d, &io.socket)) {
                return;
            }
            let Ok(sock) = socket2::Socket::new(socket2::Domain::IPV4, socket2::Type::DGRAM, Some(socket2::Protocol::UDP)) else { return };
            if sock.set_nonblocking(true).is_err() {
                return;
            }
            let Ok(b) = BatchUdpSocket::new(sock) else { return };
            let d = Arc::new(b);
            let old = std::mem::replace(&mut io.socket, d.clone());
            w.dead.insert(cid, (d, old));
        } else if let Some((d, old)) = w.dead.remove(&cid) {
            if Arc::ptr_eq(&d, &io.socket) {
                io.socket = old;
            }
        }
    }

    /// `kapressure <plan>`: the real `handle_housekeeping`, one tick per plan character 1000 ms apart, over ONE
    /// connected, just-heard-from link whose I/O half is the production `BatchUdpSocket` on an AF_UNIX datagram
    /// pair (the far end plays the receiver). At a `1` tick the socket's send path is filled until the kernel
    /// says EAGAIN right before the pass, and the receiver catches up 40 ms later - a congested uplink whose send
    /// buffer is full of payload at the housekeeping instant. C14's cadence clause is about keepalives SENT: every
    /// tick on which the link is connected and live must put a keepalive stamped with that tick on the wire (late
    /// in wall-clock terms is fine), so consecutive keepalives are never more than two periods apart.
    fn ka_pressure(&mut self, plan: &str, mon: &mut Mon) {
        use std::io::ErrorKind;
        if plan.is_empty() || plan.len() > 32 || !plan.bytes().all(|b| b == b'0' || b == b'1') {
            mon.count("kapressure-unparsed");
            return;
        }
        const T0: u64 = 1_700_000_000_000;
        let plan: Vec<bool> = plan.bytes().map(|b| b == b'1').collect();
        let Ok((near, far)) = socket2::Socket::pair(socket2::Domain::UNIX, socket2::Type::DGRAM, None) else {
            mon.count("kapressure-skipped:io");
            return;
        };
        let _ = near.set_nonblocking(true);
        let _ = far.set_nonblocking(true);
        let far: std::os::unix::net::UnixDatagram = std::os::fd::OwnedFd::from(far).into();
        let far = Arc::new(far);
        let outcome: Result<Vec<(u64, bool, Vec<u64>)>, &'static str> = self.rt.block_on(async {
            let Ok(sock) = BatchUdpSocket::new(near) else { return Err("kapressure-skipped:io") };
            let socket = Arc::new(sock);
            let mut links = srtla_core::test_helpers::create_test_connections(1).await;
            let cid = links[0].conn_id;
            let mut io: ConnIoMap = HashMap::new();
            io.insert(cid, ConnIo { socket: socket.clone(), binder: Arc::new(srtla_send::net::SourceIpBinder), remote: "127.0.0.1:8080".parse().unwrap() });
            let mut reg = SrtlaRegistrationManager::new();
            reg.has_connected = true;
            let mut all_failed_at: Option<u64> = None;
            let mut readers: HashMap<ConnectionId, ReaderHandle> = HashMap::new();
            let (packet_tx, _packet_rx) = create_uplink_channel();
            let drain = |far: &std::os::unix::net::UnixDatagram| -> Vec<Vec<u8>> {
                let mut out = Vec::new();
                let mut buf = [0u8; 2048];
                while let Ok(n) = far.recv(&mut buf) {
                    out.push(buf[..n].to_vec());
                }
                out
            };
            let mut rows = Vec::new();
            for (k, full) in plan.iter().enumerate() {
                let now = T0 + 1000 * (k as u64 + 1);
                verif_clock::set(Some(now));
                links[0].last_received = Some(now);
                if !links[0].connected || links[0].is_timed_out(now) {
                    return Err("kapressure-skipped:link-not-live");
                }
                let mut got: Vec<Vec<u8>> = Vec::new();
                let drainer = if *full {
                    let filler = [0xEEu8; 1200];
                    let mut queued = 0usize;
                    loop {
                        match socket.try_send(&filler) {
                            Ok(_) => queued += 1,
                            Err(e) if e.kind() == ErrorKind::WouldBlock => break,
                            Err(_) => return Err("kapressure-skipped:io"),
                        }
                        if queued > 100_000 {
                            return Err("kapressure-skipped:never-full");
                        }
                    }
                    let far2 = far.clone();
                    Some(tokio::spawn(async move {
                        tokio::time::sleep(std::time::Duration::from_millis(40)).await;
                        let mut out = Vec::new();
                        let mut buf = [0u8; 2048];
                        while let Ok(n) = far2.recv(&mut buf) {
                            out.push(buf[..n].to_vec());
                        }
                        out
                    }))
                } else {
                    None
                };
                let r = tokio::time::timeout(std::time::Duration::from_secs(10), handle_housekeeping(&mut links, &mut io, &mut reg, false, now, &mut all_failed_at, &mut readers, &packet_tx)).await;
                if r.is_err() {
                    return Err("kapressure-skipped:housekeeping-hung");
                }
                if let Some(d) = drainer {
                    if let Ok(v) = d.await {
                        got.extend(v);
                    }
                }
                tokio::time::sleep(std::time::Duration::from_millis(15)).await;
                got.extend(drain(&far));
                let stamped = links[0].verif_last_keepalive_sent() == Some(now);
                let kas: Vec<u64> = got.iter().filter(|p| get_packet_type(p) == Some(SRTLA_TYPE_KEEPALIVE)).filter_map(|p| extract_keepalive_timestamp(p)).collect();
                let live = links[0].connected && !links[0].is_timed_out(now);
                rows.push((now, stamped && live, kas));
            }
            Ok(rows)
        });
        verif_clock::set(None);
        match outcome {
            Err(why) => mon.count(why),
            Ok(rows) => {
                mon.count("kapressure");
                mon.nontrivial();
                let mut last_on_wire: Option<u64> = None;
                for (k, (now, due, kas)) in rows.iter().enumerate() {
                    if plan[k] {
                        mon.count("kapressure-full-tick");
                    }
                    if kas.contains(now) {
                        last_on_wire = Some(*now);
                    } else if *due {
                        mon.fail("C14", "keepalive-not-on-wire-under-pressure", format!("tick {} (socket {} at the housekeeping instant): the link is connected, live and recorded a keepalive as sent at {now}, but no keepalive stamped {now} reached the receiver (it got {:?}); plan {:?}", k + 1, if plan[k] { "FULL, drained 40 ms later" } else { "writable" }, kas, plan.iter().map(|b| u8::from(*b)).collect::<Vec<_>>()));
                    }
                    if let Some(l) = last_on_wire {
                        if now - l > 2000 {
                            mon.fail("C14", "keepalive-gap-under-pressure", format!("no keepalive reached the wire between {l} and {now} ({} ms > two housekeeping periods) on a link that stayed connected and live", now - l));
                            last_on_wire = Some(*now);
                        }
                    }
                }
            }
        }
    }

    /// `shortsend <count> <size>`: the I/O half of every batch flush (`net::send_all_datagrams`) on a connected
    /// AF_UNIX datagram socket with a minimal send buffer, the same `sendmmsg` path as UDP but one that really
    /// back-pressures (loopback UDP never does): `sendmmsg` accepts only the first few datagrams of a batch. If the
    /// call reports success, every datagram must have arrived, once, in order, byte for byte (C01: a datagram is
    /// either transmitted or the failure is reported so that the link is torn down).
    fn short_send(&mut self, count: &str, size: &str, mon: &mut Mon) {
        use std::os::fd::OwnedFd;
        let (Ok(count), Ok(size)) = (count.parse::<usize>(), size.parse::<usize>()) else {
            mon.count("shortsend-unparsed");
            return;
        };
        if count == 0 || count > 200 || !(16..=1500).contains(&size) {
            mon.count("shortsend-unparsed");
            return;
        }
        let Ok((near, far)) = socket2::Socket::pair(socket2::Domain::UNIX, socket2::Type::DGRAM, None) else {
            mon.count("shortsend-skipped:io");
            return;
        };
        let _ = near.set_nonblocking(true);
        let _ = near.set_send_buffer_size(1);
        let _ = far.set_nonblocking(true);
        let bufs: Vec<Vec<u8>> = (0..count)
            .map(|k| {
                let mut b = vec![0u8; size];
                b[..4].copy_from_slice(&(k as u32).to_be_bytes());
                for (i, x) in b[4..].iter_mut().enumerate() {
                    *x = (k * 31 + i * 7) as u8;
                }
                b
            })
            .collect();
        let outcome: Result<(bool, Vec<Vec<u8>>), &'static str> = self.rt.block_on(async {
            let far: std::os::unix::net::UnixDatagram = OwnedFd::from(far).into();
            let Ok(far) = tokio::net::UnixDatagram::from_std(far) else { return Err("shortsend-skipped:io") };
            let Ok(sock) = BatchUdpSocket::new(near) else { return Err("shortsend-skipped:io") };
            let (tx, mut rx) = tokio::sync::mpsc::unbounded_channel::<Vec<u8>>();
            let reader = tokio::spawn(async move {
                let mut buf = vec![0u8; 4096];
                while let Ok(n) = far.recv(&mut buf).await {
                    if tx.send(buf[..n].to_vec()).is_err() {
                        return;
                    }
                }
            });
            let refs: Vec<&[u8]> = bufs.iter().map(|b| b.as_slice()).collect();
            let sent = tokio::time::timeout(std::time::Duration::from_secs(30), srtla_send::net::send_all_datagrams(&sock, &refs)).await;
            let Ok(sent) = sent else {
                reader.abort();
                return Err("shortsend-skipped:timeout");
            };
            let mut got: Vec<Vec<u8>> = Vec::new();
            while got.len() < count {
                match tokio::time::timeout(std::time::Duration::from_millis(1500), rx.recv()).await {
                    Ok(Some(p)) => got.push(p),
                    _ => break,
                }
            }
            while let Ok(Some(p)) = tokio::time::timeout(std::time::Duration::from_millis(30), rx.recv()).await {
                got.push(p);
            }
            reader.abort();
            Ok((sent.is_ok(), got))
        });
        match outcome {
            Err(why) => mon.count(why),
            Ok((ok, got)) => {
                mon.count("shortsend");
                if ok {
                    mon.nontrivial();
                    if got != bufs {
                        let seqs: Vec<u32> = got.iter().filter(|p| p.len() >= 4).map(|p| u32::from_be_bytes([p[0], p[1], p[2], p[3]])).collect();
                        mon.fail("C01", "send-all-incomplete", format!("send_all_datagrams reported success for a batch of {count} datagrams of {size} bytes on a back-pressured socket, but {} arrived (numbers {:?}{})", got.len(), &seqs[..seqs.len().min(24)], if seqs.len() > 24 { " ..." } else { "" }));
                    }
                } else {
                    mon.count("shortsend-reported-error");
                }
            }
        }
    }

    /// `liveloop modeswitch`: `run_sender_with_config` on loopback against a minimal receiver (answers the
    /// handshake, echoes keepalives, never sends ACK / SRTLA ACK / NAK) with no client traffic. Enhanced mode
    /// until the once-per-second time-based recovery has visibly lifted the window, then `set_mode(classic)`
    /// at run time; from the first telemetry snapshot that reports classic mode on, the window must not rise
    /// any more (C06 / C10: classic mode never applies time-based recovery). Every wait is a poll with a
    /// generous deadline; trouble with the environment skips the scenario, it never alarms.
    fn live_loop(&mut self, what: &str, mon: &mut Mon) {
        use srtla_send::config::DynamicConfig;
        use srtla_send::sender::run_sender_with_config;
        use srtla_send::stats::SharedStats;
        use srtla_send::subscriptions::SubscriptionHub;
        use std::sync::atomic::{AtomicBool, Ordering as AO};
        use std::time::{Duration, Instant};
        if what != "modeswitch" {
            mon.count("liveloop-unknown");
            return;
        }
        verif_clock::set(None);
        let Ok(rsock) = StdUdp::bind("127.0.0.1:0") else {
            mon.count("liveloop-skipped:io");
            return;
        };
        let _ = rsock.set_read_timeout(Some(Duration::from_millis(100)));
        let receiver_port = rsock.local_addr().map(|a| a.port()).unwrap_or(0);
        let srt_port = StdUdp::bind("[::]:0").ok().and_then(|s| s.local_addr().ok()).map(|a| a.port()).unwrap_or(0);
        let ips_path = std::env::temp_dir().join(format!("verif-liveloop-{}-{}.txt", std::process::id(), receiver_port));
        if receiver_port == 0 || srt_port == 0 || std::fs::write(&ips_path, "127.0.0.1\n").is_err() {
            mon.count("liveloop-skipped:io");
            return;
        }
        let stop = Arc::new(AtomicBool::new(false));
        let rthread = {
            let stop = stop.clone();
            std::thread::spawn(move || {
                let mut buf = [0u8; 2048];
                let mut group: Option<Vec<u8>> = None;
                while !stop.load(AO::Relaxed) {
                    let Ok((n, src)) = rsock.recv_from(&mut buf) else { continue };
                    if n < 2 {
                        continue;
                    }
                    let ty = u16::from_be_bytes([buf[0], buf[1]]);
                    if ty == SRTLA_TYPE_REG1 && n >= 258 {
                        group = Some(buf[2..258].to_vec());
                        let mut reply = buf[..258].to_vec();
                        reply[..2].copy_from_slice(&SRTLA_TYPE_REG2.to_be_bytes());
                        let _ = rsock.send_to(&reply, src);
                    } else if ty == SRTLA_TYPE_REG2 && n >= 258 {
                        if group.as_deref() == Some(&buf[2..258]) {
                            let _ = rsock.send_to(&SRTLA_TYPE_REG3.to_be_bytes(), src);
                        } else {
                            let _ = rsock.send_to(&SRTLA_TYPE_REG_NGP.to_be_bytes(), src);
                        }
                    } else if ty == SRTLA_TYPE_KEEPALIVE {
                        let _ = rsock.send_to(&buf[..n], src);
                    }
                }
            })
        };
        let Ok(rt) = tokio::runtime::Builder::new_multi_thread().worker_threads(2).enable_all().build() else {
            stop.store(true, AO::Relaxed);
            let _ = rthread.join();
            mon.count("liveloop-skipped:io");
            return;
        };
        let config = DynamicConfig::new();
        let stats = SharedStats::new();
        let sender = {
            let (config, stats) = (config.clone(), stats.clone());
            let file = ips_path.to_string_lossy().into_owned();
            rt.spawn(async move {
                let binder: Arc<dyn srtla_send::net::UplinkBinder> = Arc::new(srtla_send::net::SourceIpBinder);
                let _ = run_sender_with_config(srt_port, "127.0.0.1", receiver_port, &file, config, stats, CriticalWindow::new(), SubscriptionHub::new(), binder).await;
            })
        };
        let wait = |pred: &dyn Fn(&srtla_send::stats::StatsSnapshot) -> bool, secs: u64| -> Option<srtla_send::stats::StatsSnapshot> {
            let t0 = Instant::now();
            while t0.elapsed() < Duration::from_secs(secs) {
                let s = stats.get();
                if pred(&s) {
                    return Some(s);
                }
                std::thread::sleep(Duration::from_millis(40));
            }
            None
        };
        let outcome: Result<(i32, i32), &'static str> = (|| {
            // enhanced: registered, and the time-based recovery has lifted the window above 20000
            wait(&|s| s.links.len() == 1 && s.links[0].connected && s.links[0].window > 20000, 60).ok_or("liveloop-skipped:not-registered")?;
            config.set_mode(SchedulingMode::Classic);
            let first = wait(&|s| s.mode == "classic" && s.links.len() == 1 && s.links[0].connected, 60).ok_or("liveloop-skipped:no-classic-snapshot")?;
            let w_switch = first.links[0].window;
            // at least three more housekeeping passes, all of them classic
            std::thread::sleep(Duration::from_millis(3400));
            let later = stats.get();
            if later.mode != "classic" || later.links.len() != 1 {
                return Err("liveloop-skipped:lost-link");
            }
            Ok((w_switch, later.links[0].window))
        })();
        sender.abort();
        rt.shutdown_background();
        stop.store(true, AO::Relaxed);
        let _ = rthread.join();
        let _ = std::fs::remove_file(&ips_path);
        match outcome {
            Err(why) => mon.count(why),
            Ok((w_switch, w_later)) => {
                mon.count("liveloop-modeswitch");
                mon.nontrivial();
                if w_later > w_switch {
                    let what = format!("real event loop: after a run-time switch to classic mode (telemetry reports classic) the window rose {w_switch} -> {w_later} within 3.4 s with no ACK / NAK traffic at all: time-based recovery is still applied");
                    mon.fail("C06", "liveloop-classic-recovery", what.clone());
                    mon.fail("C10", "liveloop-classic-recovery", what);
                }
            }
        }
    }

    /// Is the link's current socket the dead one swapped in by `deadsock` (a successful re-creation ends that)?
    fn is_dead(w: &World, cid: u64) -> bool {
        match (w.dead.get(&cid), w.io.get(&cid)) {
            (Some((d, _)), Some(io)) => Arc::ptr_eq(d, &io.socket),
            _ => false,
        }
    }

    fn new() -> Self {
        SysComp {
            rt: tokio::runtime::Builder::new_current_thread().enable_all().build().unwrap(),
            w: None,
            g: Ghost::default(),
            unmodelled: false,
        }
    }

    fn init(&mut self, n: usize, seed: u64, now: u64) {
        let _guard = self.rt.enter();
        let mut links = Vec::new();
        let mut io: ConnIoMap = HashMap::new();
        let mut receivers = BTreeMap::new();
        let mut bind_refusals = BTreeMap::new();
        let reload_rx = StdUdp::bind("127.0.0.1:0").unwrap();
        reload_rx.set_nonblocking(true).unwrap();
        let reload_port = reload_rx.local_addr().unwrap().port();
        for i in 0..n {
            let id = ID_BASE.with(|s| s.get()) + (i + 1) as u64;
            let recv = StdUdp::bind("127.0.0.1:0").unwrap();
            recv.set_nonblocking(true).unwrap();
            // harness-owned receiver: room for a full backlog of MTU-sized datagrams between two captures
            let _ = socket2::SockRef::from(&recv).set_recv_buffer_size(2 << 20);
            let remote = recv.local_addr().unwrap();
            let sock = socket2::Socket::new(socket2::Domain::IPV4, socket2::Type::DGRAM, Some(socket2::Protocol::UDP)).unwrap();
            sock.bind(&"127.0.0.1:0".parse::<SocketAddr>().unwrap().into()).unwrap();
            sock.connect(&remote.into()).unwrap();
            sock.set_nonblocking(true).unwrap();
            let socket = Arc::new(BatchUdpSocket::new(sock).unwrap());
            let refusals = Arc::new(AtomicU32::new(0));
            io.insert(id, ConnIo { socket, binder: refusing_binder(refusals.clone()), remote });
            bind_refusals.insert(id, refusals);
            receivers.insert(id, recv);
            // start-up link i: conn id i + 1, address token i + 1 (label in the production format)
            let a = (i + 1).min(254) as u8;
            links.push(SrtlaConnection::new_registering(id, uplink_label(reload_port, a), addr_ip(a), now));
        }
        let mut reg = SrtlaRegistrationManager::new();
        reg.srtla_id = id_from_seed(seed, 0);
        // the probe id is private and random; it is only ever put on the wire inside probe REG2s,
        // which the observation prints as a type tag (see `canon_wire`)
        let (packet_tx, packet_rx) = create_uplink_channel();
        // B1 (receive side): one REAL reader task per uplink from start-up on, exactly as the loop does
        // (`sync_readers` right after `create_uplink_channel`); they feed the world's packet channel
        let mut readers: HashMap<ConnectionId, ReaderHandle> = HashMap::new();
        sync_readers(&links, &io, &mut readers, &packet_tx);
        let (instant_tx, instant_rx) = tokio::sync::mpsc::unbounded_channel();
        let listener = self.rt.block_on(async { tokio::net::UdpSocket::bind("127.0.0.1:0").await.unwrap() });
        let client = StdUdp::bind("127.0.0.1:0").unwrap();
        client.set_nonblocking(true).unwrap();
        let _ = socket2::SockRef::from(&client).set_recv_buffer_size(2 << 20);
        let client_addr = client.local_addr().unwrap();
        self.w = Some(World {
            links,
            io,
            receivers,
            reg,
            trk: SequenceTracker::new(),
            last_selected: None,
            last_client: None,
            cfg: ConfigSnapshot::default(),
            crit: CriticalWindow::new(),
            all_failed_at: None,
            readers,
            packet_tx,
            _packet_rx: packet_rx,
            instant_tx,
            instant_rx,
            listener,
            client,
            client_addr,
            fail_pending: Vec::new(),
            fail_after: Vec::new(),
            bind_fail: Vec::new(),
            bind_refusals,
            dead: BTreeMap::new(),
            reload_rx,
            reload_port,
            created: ID_BASE.with(|s| s.get()) + n as u64,
            removed_rx: Vec::new(),
            weak_link_filter: srtla_core::selection::classifier::WeakLinkFilter::new(),
            link_cc_controller: srtla_core::selection::link_cc::LinkCcController::new(),
            shared_stats: srtla_send::stats::SharedStats::new(),
        });
        self.g = Ghost::default();
    }

    /// Probe REG2s carry the manager's private random probe id: canonicalise them to the model's
    /// deterministic probe id so both sides print the same bytes.
    fn canon_wire(&self, seed_probe: &[u8; 256], d: &[u8]) -> Vec<u8> {
        let w = self.w.as_ref().unwrap();
        if d.len() == 258 && get_packet_type(d) == Some(SRTLA_TYPE_REG2) && d[2..] == w.reg.verif_probe_id()[..] {
            let mut v = d[..2].to_vec();
            v.extend_from_slice(seed_probe);
            v
        } else {
            d.to_vec()
        }
    }
}

fn parse_cfg(toks: &[&str]) -> Option<ConfigSnapshot> {
    Some(ConfigSnapshot {
        mode: if kv_bool(toks, "classic")? { SchedulingMode::Classic } else { SchedulingMode::Enhanced },
        quality_enabled: kv_bool(toks, "quality")?,
        stall_deselect: kv_bool(toks, "stall")?,
        stall_min_in_flight: kv_parse(toks, "minif")?,
        stall_ack_stale_ms: kv_parse(toks, "ceil")?,
        conn_timeout_ms: kv_parse(toks, "cto")?,
    })
}

#[derive(Clone)]
struct Pre {
    connected: bool,
    phase_reg: bool,
    established: u64,
    window: i32,
    in_flight: i32,
    nak: i32,
    bitrate: f64,
    timed_out: bool,
    usable: bool,
    queue: Vec<Vec<u8>>,
    log: Vec<i32>,
    proof: u64,
    waiting: bool,
    lrm: u64,
    last_attempt: u64,
    fail_count: u32,
    gated: bool,
    score_ref: i64,
    lka: Option<u64>,
    stamps: (bool, bool, bool, u64), // weak, loss_degraded, cc_backing_off, cc_target_bps (written by the stamping loop only)
    guard: (bool, u64, u64, bool), // stall_gated, latched since, recovery (rejoin dwell) since, silence_pulled
}

fn pre_of(c: &SrtlaConnection, now: u64) -> Pre {
    Pre {
        connected: c.connected,
        phase_reg: matches!(c.phase, LinkPhase::Registering),
        established: c.reconnection.connection_established_ms,
        window: c.window,
        in_flight: c.in_flight_packets,
        nak: c.congestion.nak_count,
        bitrate: c.bitrate.current_bitrate_bps,
        timed_out: c.is_timed_out(now),
        usable: usable(c, now),
        queue: c.batch_sender.verif_queue().into_iter().map(|(d, _, _)| d).collect(),
        log: c.verif_packet_log().iter().map(|(s, _)| *s).collect(),
        proof: c.last_ack_or_rtt_sample_ms,
        waiting: c.rtt.waiting_for_keepalive_response,
        lrm: c.rtt.last_rtt_measurement_ms,
        last_attempt: c.reconnection.last_reconnect_attempt_ms,
        fail_count: c.reconnection.reconnect_failure_count,
        lka: c.verif_last_keepalive_sent(),
        stamps: (c.weak, c.loss_degraded, c.cc_backing_off, c.cc_target_bps),
        gated: c.stall_gated,
        guard: {
            let p = c.verif_private();
            (p.stall_gated, p.stall_latched_since_ms, p.stall_recovery_since_ms, p.silence_pulled)
        },
        score_ref: if c.connected {
            c.window as i64 / (c.in_flight_packets as i64 + c.batch_sender.queued_count() as i64 + 1).max(1)
        } else {
            -1
        },
    }
}

impl Component for SysComp {
    fn rule(&self) -> &'static str {
        "sys: scripted-random event-loop histories (60-300 events) on the real shell over loopback sockets: \
         registration handshake (REG_NGP / REG2 / broadcast / REG3, with lost, late and wrong-link replies, optional \
         RTT probing), then client datagrams (data with increasing / repeated sequence numbers, retransmit flag, \
         control packets of 18 type codes, every size class 0 / 1..3 / 4..7 / 8..23 / 24..1316 / 1317..1500 bytes, \
         unique payloads), 15 ms flush ticks, housekeeping ticks 1000 ms or 1001..1999 ms apart, uplink traffic (SRT \
         ACK, NAK incl. ranges and long lists, SRTLA ACK lists up to 374 entries, keepalive echoes timely/late/future/\
         zero/truncated/with long trailers, unknown types, short datagrams, relayed datagrams of 63..1500 bytes, one \
         type-sweep sample per case over the SRT control page + neighbours of the SRTLA codes, odd-sized registration \
         replies, REG_ERR / REG_NGP mid-stream), uplink-channel backlogs up to 100 datagrams, link silence past the \
         timeout, send-failure injection, failed socket re-creation on reconnect (binder refusals, 1..7 in a row: back-off table up to the 120 s cap), config changes (mode, quality, guard, thresholds, timeout), critical windows, \
         weak / loss-degraded / CC-target stamps, injected window vectors on the boundaries of every window rule. \
         A third of the injected send failures are partial (`failafter <id> <k>`: the first min(k, batch) datagrams go out, \
         then the send reports the error), k in {1, 2, 3, size-1, size, size+1, 40} for the batch sizes 4 / 16 / 32. \
         Every case with index 6 mod 8 is a reload case: 5..10 uplink-set reloads (the real apply_connection_changes, \
         harness-tracked link list, addresses 1..9) in a running session - the selected uplink removed with queued \
         datagrams, an uplink removed with packets in flight, reloads in the middle of the REG1 / REG2 handshake, \
         uplinks added and brought up, removed addresses re-added, same / permuted / duplicated lists, all but one \
         removed, refused creations retried later, datagrams addressed to removed conn ids. \
         Every case with index 1 mod 3 runs the WHOLE housekeeping arm at its ticks (op hkarm: hk, then the real \
         WeakLinkFilter::classify, LinkCcController::tick_all and the stamping loop, mirrored statement by statement); \
         every case with index 5 mod 16 is the lopsided-share scenario (hkarm at every tick, one uplink starved by a \
         tiny window, late / missing keepalive echoes, phases under the 100 kbit/s floor, a NAK-heavy loss phase, an \
         optional reload) in which weak / probation / back-off / loss-degraded verdicts are reached and stamped. \
         Every case with index 3 mod 4 or 6 mod 16 (half of the reload cases) takes the SOCKET path for its uplink traffic (ops rxpush / rxerr / rxrun: the \
         datagram is sent to the uplink's real socket, read by the REAL reader task into the REAL packet channel and \
         handed to the shell by the REAL drain_packet_queue), with inert junk backlogs of 1 / 33..40 / 64..70 datagrams \
         (more than one recvmmsg batch, more than one drain budget), empty datagrams, receive-error sentinels and \
         relayable datagrams of 1499 / 1500 / 1501 / 2000 bytes. \
         Op hkarm ends with the stats publish of the arm: the REAL SharedStats::update + get() with the arm's own \
         arguments; the serde_json::Value of the snapshot (every field of every entry, floats as bits) is part of \
         the compared line, and the snapshot is checked against the RAW link / classifier / controller state \
         (stats-config-not-current, stats-link-misreported, stats-verdict-for-other-link). \
         Thorough tier: cases up to 450 steps. Non-trivial: registration completed and at least one datagram was put \
         on the wire."
    }

    fn gen_case(&mut self, rng: &mut Rng, tier: Tier, idx: usize) -> Vec<String> {
        let mut ops = gen_case(rng, tier, idx);
        // every 3rd case runs the WHOLE housekeeping arm at its ticks (op `hkarm`: `hk` + classify + tick_all +
        // the stamping loop on the real filter / controller) instead of the `handle_housekeeping` part alone
        if idx % 3 == 1 {
            for l in ops.iter_mut() {
                if let Some(rest) = l.strip_prefix("hk ") {
                    *l = format!("hkarm {rest}");
                }
            }
        }
        // B1: every case with index 3 mod 4 or 6 mod 16 takes the SOCKET path for its uplink traffic: an `uplink` op becomes
        // `rxpush` (the datagram is sent to the uplink's real socket and read by the real reader task) followed by
        // `rxrun` (the real `drain_packet_queue` on the real channel).  Around the datagram: inert junk the shell drops
        // (empty datagrams the reader skips, 1-byte datagrams, receive-error sentinels) in backlogs of 1 / 33..40 (more
        // than one recvmmsg batch) / 64..70 (more than one drain budget), and now and then a relayable datagram of
        // 1500 / 1501 / 2000 bytes (cut to the 1500-byte receive buffer).
        if idx % 4 == 3 || idx % 16 == 6 {
            let mut out = Vec::with_capacity(ops.len() * 2);
            for l in ops {
                let t: Vec<&str> = l.split(' ').collect();
                if let ["uplink", now, cid, h] = t.as_slice() {
                    if *h == "-" {
                        out.push(format!("rxerr {cid}"));
                        out.push(format!("rxrun {now}"));
                        continue;
                    }
                    let (junk, drains) = match rng.below(20) {
                        0..=9 => (String::new(), 1),
                        10..=12 => ("-,07,".to_string(), 1),
                        13..=15 => (format!("{}*07,", rng.range(33, 40)), 1),
                        16..=17 => (format!("{}*07,-,", rng.range(64, 70)), 2),
                        _ => ("-,".to_string(), 1),
                    };
                    if rng.chance(1, 12) {
                        out.push(format!("rxerr {cid}"));
                    }
                    out.push(format!("rxpush {cid} {junk}{h}"));
                    for _ in 0..drains {
                        out.push(format!("rxrun {now}"));
                    }
                    if rng.chance(1, 10) {
                        // an SRT control datagram of an unassigned type (relayed like any non-internal datagram)
                        // at and beyond the receive buffer size
                        let len = *rng.pick(&[1499usize, 1500, 1501, 2000]);
                        let mut b = vec![0x80u8, 0x07];
                        b.extend(rng.bytes(len - 2));
                        out.push(format!("rxpush {cid} {}", to_hex(&b)));
                        out.push(format!("rxrun {now}"));
                    }
                } else {
                    out.push(l);
                }
            }
            ops = out;
        }
        // production-width conn ids in every other case: the case's conn ids are shifted by a base >= 2^32 derived from
        // the case's own seed token (op `init n seed now base`; every op that names a conn id is rewritten).  The real
        // sender draws its ids as random u64s; with the ids 1, 2, .. of the plain cases a conn id narrowed to 32 bits
        // (a packed tracker entry, a map keyed by `as u32`, the keepalive's 32-bit telemetry id read back) is invisible.
        if idx % 2 == 1 {
            let base = ops.first().and_then(|l| {
                let t: Vec<&str> = l.split(' ').collect();
                match t.as_slice() {
                    ["init", _, seed, _] => seed.parse::<u64>().ok().map(|sd| (((sd % 1_000_000_000) + 1) << 32) | ((sd % 65_521) << 16)),
                    _ => None,
                }
            });
            if let Some(base) = base {
                let shift = |c: &str| c.parse::<u64>().ok().map(|c| (c + base).to_string());
                for l in ops.iter_mut() {
                    let t: Vec<&str> = l.split(' ').collect();
                    let new = match t.as_slice() {
                        ["init", n, seed, now] => Some(format!("init {n} {seed} {now} {base}")),
                        ["uplink", now, cid, h] => shift(cid).map(|c| format!("uplink {now} {c} {h}")),
                        ["burst", now, cid, n, h] => shift(cid).map(|c| format!("burst {now} {c} {n} {h}")),
                        ["failnext", cid] => shift(cid).map(|c| format!("failnext {c}")),
                        ["failbind", cid] => shift(cid).map(|c| format!("failbind {c}")),
                        ["failafter", cid, k] => shift(cid).map(|c| format!("failafter {c} {k}")),
                        ["rxpush", cid, specs] => shift(cid).map(|c| format!("rxpush {c} {specs}")),
                        ["rxerr", cid] => shift(cid).map(|c| format!("rxerr {c}")),
                        ["deadsock", cid, on] => shift(cid).map(|c| format!("deadsock {c} {on}")),
                        _ => None,
                    };
                    if let Some(n) = new {
                        *l = n;
                    }
                }
            }
        }
        ops
    }

    fn start_case(&mut self) {
        if let Some(w) = self.w.take() {
            for (_, r) in w.readers.iter() {
                r.handle.abort();
            }
            drop(w);
        }
        verif_fail::clear();
        verif_clock::set(None);
        self.g = Ghost::default();
        self.unmodelled = false;
    }

    fn exec(&mut self, toks: &[&str], mon: &mut Mon) -> String {
        if let ["shortsend", count, size] = toks {
            // `net::send_all_datagrams` under real back-pressure (short sendmmsg): monitor only, constant reply
            self.short_send(count, size, mon);
            return "shortsend-ok".into();
        }
        if let ["kapressure", plan] = toks {
            // the REAL housekeeping pass over a live link whose socket is full at the tick: monitor only, constant reply
            self.ka_pressure(plan, mon);
            return "kapressure-ok".into();
        }
        if let ["liveloop", what] = toks {
            // the REAL event loop against an in-process fake receiver, real clock: no model state, constant
            // reply (the model driver answers the same); monitors only
            self.live_loop(what, mon);
            return "liveloop-ok".into();
        }
        if let ["deadsock", cid, on] = toks {
            self.unmodelled = true;
            mon.count("unmodelled-case:deadsock");
            self.dead_socket(cid, on);
            return "unmodelled".into();
        }
        let out = self.exec_op(toks, mon);
        self.mon_c02(mon, toks);
        self.mon_link_set(mon, toks);
        if self.unmodelled { "unmodelled".into() } else { out }
    }

    fn end_case(&mut self, mon: &mut Mon) {
        // C01 exactly-once at the end of the case: every accepted tag was sent, is still queued,
        // was legitimately lost, or was dropped with no usable link.
        let Some(w) = self.w.as_ref() else { return };
        let mut seen: BTreeMap<usize, usize> = BTreeMap::new();
        for tags in self.g.wire_tags.values() {
            for t in tags {
                *seen.entry(*t).or_insert(0) += 1;
            }
        }
        let mut queued: BTreeSet<usize> = BTreeSet::new();
        for c in &w.links {
            for (d, _, _) in c.batch_sender.verif_queue() {
                if let Some(t) = self.g.tag_of.get(&d) {
                    queued.insert(*t);
                }
            }
        }
        for t in 0..self.g.accepted.len() {
            let n = seen.get(&t).copied().unwrap_or(0);
            if n == 0 && !queued.contains(&t) && !self.g.lost_ok.contains(&t) && !self.g.dropped.contains(&t) {
                mon.fail("C01", "datagram-vanished", format!("accepted datagram #{t} was neither sent, queued, discarded by a reset/failed send, nor dropped for lack of a link"));
            }
        }
        if !self.g.wire_tags.is_empty() && w.reg.has_connected {
            mon.nontrivial();
        }
    }
}

impl SysComp {
    /// C02 on the shell: after EVERY op each link's in-flight count equals the number of logged
    /// sequence numbers, is not negative, and the log holds no number twice.
    fn mon_c02(&self, mon: &mut Mon, toks: &[&str]) {
        let Some(w) = self.w.as_ref() else { return };
        for c in &w.links {
            let log = c.verif_packet_log();
            let n = log.len();
            let mut keys: Vec<i32> = log.iter().map(|(s, _)| *s).collect();
            keys.sort_unstable();
            keys.dedup();
            let op = || toks.iter().map(|t| &t[..t.len().min(40)]).collect::<Vec<_>>().join(" ");
            if c.in_flight_packets < 0 {
                mon.fail("C02", "sys-inflight-negative", format!("link {} in_flight {} after `{}`", c.conn_id, c.in_flight_packets, op()));
            }
            if c.in_flight_packets as i64 != n as i64 {
                mon.fail("C02", "sys-inflight-vs-log", format!("link {} in_flight {} but the packet log holds {n} numbers after `{}`", c.conn_id, c.in_flight_packets, op()));
            }
            if keys.len() != n {
                mon.fail("C02", "sys-log-duplicate", format!("link {} packet log holds a sequence number twice after `{}`", c.conn_id, op()));
            }
            if n > 0 {
                mon.count("c02-nonempty-log-checked");
            }
        }
    }

    fn exec_op(&mut self, toks: &[&str], mon: &mut Mon) -> String {
        let op = toks.join(" ");
        if let ["init", n, seed, now] | ["init", n, seed, now, _] = toks {
            let (Ok(n), Ok(seed), Ok(now)) = (n.parse::<usize>(), seed.parse::<u64>(), now.parse::<u64>()) else {
                return "bad-op".into();
            };
            // production-width conn ids: `base + i + 1` (the real ids are random u64s; with the ids 1, 2, .. every
            // narrowing cast of a conn id is the identity)
            let base = match toks.get(4) {
                None => 0u64,
                Some(b) => match b.parse::<u64>() {
                    Ok(b) if b < u64::MAX - 100_000 => b,
                    _ => return "bad-op".into(),
                },
            };
            ID_BASE.with(|s| s.set(base));
            self.init(n, seed, now);
            self.g.accepted.clear();
            // remember the seed for probe-id canonicalisation
            self.g.routed_data = 0;
            SEED.with(|s| s.set(seed));
            return self.w.as_ref().unwrap().show();
        }
        if self.w.is_none() {
            return "bad-op".into();
        }
        let seed = SEED.with(|s| s.get());
        let seed_probe = id_from_seed(seed, 101);

        // ---- the tail of the housekeeping arm after a SIGHUP: own execution path, own monitors (the generic
        // monitors align the pre- and post-state of the links by INDEX, which a reload breaks)
        if let ["reload", now, addrs, fails] = toks {
            let (Ok(now), Some(addrs), Some(fails)) = (now.parse::<u64>(), parse_addr_list(addrs), parse_addr_list(fails)) else {
                return "bad-op".into();
            };
            return self.reload_op(now, &addrs, &fails, &seed_probe, mon);
        }

        // ---- B1: the receive side (real reader tasks, the real packet channel)
        if let ["rxpush", cid, specs] = toks {
            return self.rx_push(cid, specs, mon);
        }
        if let ["rxerr", cid] = toks {
            return self.rx_err(cid, mon);
        }

        // ---- parse
        enum Op {
            RxRun(u64),
            Probe(u64),
            Client(u64, Vec<u8>),
            Uplink(u64, u64, Vec<u8>),
            Burst(u64, u64, usize, Vec<u8>),
            Flush(u64),
            Hk(u64),
            Cfg(ConfigSnapshot),
            Crit(u64),
            Fail(u64),
            FailAfter(u64, usize),
            FailBind(u64),
            SetLink(usize, Vec<(String, String)>),
            Trk(u32, u64),
        }
        let parsed = match toks {
            ["probe", now] => now.parse().ok().map(Op::Probe),
            ["client", now, h] => now.parse().ok().zip(parse_hex(h)).map(|(a, b)| Op::Client(a, b)),
            ["uplink", now, cid, h] => match (now.parse(), cid.parse(), parse_hex(h)) {
                (Ok(a), Ok(b), Some(c)) => Some(Op::Uplink(a, b, c)),
                _ => None,
            },
            ["burst", now, cid, n, h] => match (now.parse(), cid.parse(), n.parse::<usize>(), parse_hex(h)) {
                (Ok(a), Ok(b), Ok(c), Some(d)) if (1..=1000).contains(&c) => Some(Op::Burst(a, b, c, d)),
                _ => None,
            },
            ["flush", now] => now.parse().ok().map(Op::Flush),
            ["rxrun", now] => now.parse().ok().map(Op::RxRun),
            ["hk", now] => now.parse().ok().map(Op::Hk),
            // the housekeeping arm up to and including the stamping loop: `hk`, then the arm's tail (`arm_tail`)
            ["hkarm", now] => now.parse().ok().map(Op::Hk),
            ["cfg", rest @ ..] => parse_cfg(rest).map(Op::Cfg),
            ["crit", d] => d.parse().ok().map(Op::Crit),
            ["failnext", cid] => cid.parse().ok().map(Op::Fail),
            ["failafter", cid, k] => cid.parse().ok().zip(k.parse().ok()).map(|(a, b)| Op::FailAfter(a, b)),
            ["failbind", cid] => cid.parse().ok().map(Op::FailBind),
            ["setlink", i, rest @ ..] => i.parse().ok().and_then(|i| {
                let mut v = Vec::new();
                for t in rest {
                    let (k, val) = t.split_once('=')?;
                    v.push((k.to_string(), val.to_string()));
                }
                Some(Op::SetLink(i, v))
            }),
            ["trk", seq, now] => seq.parse().ok().zip(now.parse().ok()).map(|(a, b)| Op::Trk(a, b)),
            _ => None,
        };
        let Some(parsed) = parsed else { return "bad-op".into() };

        // ---- ops without effects on the wire
        match &parsed {
            Op::Cfg(c) => {
                let w = self.w.as_mut().unwrap();
                w.cfg = *c;
                return format!("wire=[] client=[] err=0 | {}", w.show());
            }
            Op::Crit(d) => {
                let w = self.w.as_mut().unwrap();
                w.crit.extend_to(*d);
                return format!("wire=[] client=[] err=0 | {}", w.show());
            }
            Op::Fail(cid) => {
                let w = self.w.as_mut().unwrap();
                if w.fail_pending.contains(cid) || !w.links.iter().any(|c| c.conn_id == *cid) {
                    return "bad-op".into();
                }
                w.fail_pending.insert(0, *cid);
                return format!("wire=[] client=[] err=0 | {}", w.show());
            }
            Op::FailAfter(cid, k) => {
                // the next batch send of that link puts the first min(k, len) datagrams on the wire, THEN fails
                let w = self.w.as_mut().unwrap();
                if w.fail_pending.contains(cid) || !w.links.iter().any(|c| c.conn_id == *cid) {
                    return "bad-op".into();
                }
                w.fail_pending.insert(0, *cid);
                w.fail_after.push((*cid, *k));
                mon.count("failafter-injected");
                return format!("wire=[] client=[] err=0 | {}", w.show());
            }
            Op::FailBind(cid) => {
                // the binder of that link refuses once: its next `reconnect_uplink` fails
                let w = self.w.as_mut().unwrap();
                if w.bind_fail.contains(cid) || !w.links.iter().any(|c| c.conn_id == *cid) {
                    return "bad-op".into();
                }
                w.bind_fail.insert(0, *cid);
                if let Some(c) = w.bind_refusals.get(cid) {
                    c.store(1, Ordering::SeqCst);
                }
                mon.count("failbind-injected");
                return format!("wire=[] client=[] err=0 | {}", w.show());
            }
            Op::SetLink(i, kvs) => {
                let w = self.w.as_mut().unwrap();
                let Some(c) = w.links.get_mut(*i) else { return "bad-op".into() };
                for (k, v) in kvs {
                    match k.as_str() {
                        "weak" => c.weak = v == "1",
                        "ld" => c.loss_degraded = v == "1",
                        "cct" => match v.parse() {
                            Ok(x) => c.cc_target_bps = x,
                            Err(_) => return "bad-op".into(),
                        },
                        "w" => match v.parse() {
                            Ok(x) => c.window = x,
                            Err(_) => return "bad-op".into(),
                        },
                        "br" => match v.parse::<u64>() {
                            Ok(x) => c.bitrate.current_bitrate_bps = f64::from_bits(x),
                            Err(_) => return "bad-op".into(),
                        },
                        _ => return "bad-op".into(),
                    }
                }
                // a window injected into a link that is down survives REG3 (only tear-down resets it):
                // the clean-rejoin monitor must not blame the code for it
                if kvs.iter().any(|(k, _)| k == "w") && !c.connected {
                    self.g.win_injected.insert(c.conn_id);
                }
                return w.show();
            }
            Op::Trk(seq, now) => {
                let w = self.w.as_ref().unwrap();
                return format!("get={}", show_opt(w.trk.get(*seq, *now)));
            }
            _ => {}
        }

        let now = match &parsed {
            Op::Probe(n) | Op::Flush(n) | Op::Hk(n) | Op::RxRun(n) => *n,
            Op::Client(n, _) | Op::Uplink(n, _, _) | Op::Burst(n, _, _, _) => *n,
            _ => 0,
        };
        // the housekeeping arm of the event loop first publishes the configured liveness window onto the links
        // (`sync_conn_timeout`, /repo fix f969643; tie c pin `event-loop: housekeeping arm`), then runs the pass:
        // done here so that the monitors' pre-state is the state the pass itself sees
        if let Op::Hk(_) = &parsed {
            let w = self.w.as_mut().unwrap();
            let cfg = w.cfg;
            srtla_core::selection::sync_conn_timeout(&mut w.links, &cfg);
        }
        // ---- pre-state for the monitors
        let pre: Vec<Pre> = self.w.as_ref().unwrap().links.iter().map(|c| pre_of(c, now)).collect();
        let pre_ids: Vec<u64> = self.w.as_ref().unwrap().links.iter().map(|c| c.conn_id).collect();
        let pre_fail: Vec<u64> = self.w.as_ref().unwrap().fail_pending.clone();
        let pre_fail_after: Vec<(u64, usize)> = self.w.as_ref().unwrap().fail_after.clone();
        let pre_bind_fail: Vec<u64> = self.w.as_ref().unwrap().bind_fail.clone();
        let pre_has_connected = self.w.as_ref().unwrap().reg.verif_state().has_connected;
        let pre_client_known = self.w.as_ref().unwrap().last_client.is_some();
        let cfg = self.w.as_ref().unwrap().cfg;
        // a datagram whose conn id names no current uplink (the uplink was removed by a reload while the datagram
        // sat in the channel): the whole observable state before the arm
        let pre_show_unknown_link: Option<String> = match &parsed {
            Op::Uplink(_, cid, _) | Op::Burst(_, cid, _, _) if !pre_ids.contains(cid) => Some(self.w.as_ref().unwrap().show()),
            _ => None,
        };

        // ---- execute on the real shell
        // B1: what the real packet channel holds before the arm (op `rxrun`)
        let rx_before: Vec<(u64, Vec<u8>)> = if let Op::RxRun(_) = &parsed { self.w.as_mut().unwrap().chan_snapshot() } else { Vec::new() };
        verif_clock::set(Some(now));
        let mut hk_err = false;
        {
            let w = self.w.as_mut().unwrap();
            let armed = w.arm_failures();
            let rt = &self.rt;
            match &parsed {
                Op::Probe(now) => {
                    let probes = w.reg.start_probing(&mut w.links, *now);
                    rt.block_on(async {
                        for (idx, pkt) in probes {
                            if let Some(conn) = w.links.get(idx)
                                && let Some(io) = w.io.get(&conn.conn_id)
                            {
                                let _ = io.socket.send(&pkt).await;
                            }
                        }
                    });
                }
                Op::Client(_, data) => {
                    let mut buf = vec![0u8; 1500.max(data.len())];
                    buf[..data.len()].copy_from_slice(data);
                    let res = Ok((data.len(), w.client_addr));
                    let reg_complete = w.reg.has_connected;
                    // C04 "not currently stall-gated", judged against a gate pass made NOW on a clone of the pre-state -
                    // not against the flags the implementation happens to hold (a must-land path that consults the
                    // flags before anything refreshed them routes by a stale gate and the flags look fine)
                    self.g.fresh_gate = None;
                    if reg_complete && w.cfg.stall_deselect && get_srt_sequence_number(data).is_some() {
                        let mut cl: Vec<SrtlaConnection> = w.links.iter().map(full_clone).collect();
                        let _ = srtla_core::selection::select_connection_idx(&mut cl, w.last_selected, now, &w.cfg);
                        self.g.fresh_gate = Some(cl.iter().map(|c| c.stall_gated).collect());
                    }
                    rt.block_on(handle_srt_packet(
                        res,
                        &mut buf,
                        &mut w.links,
                        &w.io,
                        &mut w.last_selected,
                        &mut w.trk,
                        &mut w.last_client,
                        reg_complete,
                        &w.cfg,
                        &w.crit,
                    ));
                }
                Op::Uplink(_, cid, data) => {
                    let pkt = UplinkPacket { conn_id: *cid, bytes: SmallVec::from_slice_copy(data) };
                    rt.block_on(handle_uplink_packet(
                        pkt,
                        &mut w.links,
                        &w.io,
                        &mut w.reg,
                        &w.instant_tx,
                        w.last_client,
                        &w.listener,
                        &w.trk,
                        &w.cfg,
                    ));
                }
                Op::Burst(_, cid, n, data) => {
                    // a backlog of n datagrams in the uplink channel, drained the way the event loop
                    // does after every arm: `drain_packet_queue` until the channel is empty
                    let (tx, mut rx) = create_uplink_channel();
                    for _ in 0..*n {
                        let _ = tx.send(UplinkPacket { conn_id: *cid, bytes: SmallVec::from_slice_copy(data) });
                    }
                    let mut rounds = 0;
                    while !rx.is_empty() && rounds < *n + 2 {
                        rt.block_on(drain_packet_queue(
                            &mut rx,
                            &mut w.links,
                            &w.io,
                            &mut w.reg,
                            &w.instant_tx,
                            w.last_client,
                            &w.listener,
                            &w.trk,
                            &w.cfg,
                        ));
                        rounds += 1;
                    }
                }
                Op::Flush(_) => {
                    rt.block_on(flush_all_batches(&mut w.links, &w.io));
                }
                Op::RxRun(_) => {
                    // the REAL `drain_packet_queue` on the REAL channel the reader tasks feed
                    rt.block_on(drain_packet_queue(
                        &mut w._packet_rx,
                        &mut w.links,
                        &w.io,
                        &mut w.reg,
                        &w.instant_tx,
                        w.last_client,
                        &w.listener,
                        &w.trk,
                        &w.cfg,
                    ));
                }
                Op::Hk(now) => {
                    let classic = w.cfg.mode.is_classic();
                    let r = rt.block_on(handle_housekeeping(
                        &mut w.links,
                        &mut w.io,
                        &mut w.reg,
                        classic,
                        *now,
                        &mut w.all_failed_at,
                        &mut w.readers,
                        &w.packet_tx,
                    ));
                    hk_err = r.is_err();
                    // B1: the arm ends with the REAL `sync_readers` (idempotent when the link set did not change)
                    let _guard = rt.enter();
                    sync_readers(&w.links, &w.io, &mut w.readers, &w.packet_tx);
                }
                _ => {}
            }
            w.collect_failures(&armed);
            w.collect_bind_failures();
        }
        verif_clock::set(None);
        let (wire, client) = self.w.as_mut().unwrap().capture();
        let wire: Vec<(u64, Vec<u8>)> = wire.into_iter().map(|(id, d)| (id, self.canon_wire(&seed_probe, &d))).collect();
        let new_client: Option<&[u8]> = match &parsed {
            Op::Client(_, data) if !data.is_empty() => Some(data),
            _ => None,
        };
        self.count_partial_sends(&pre, &pre_ids, &pre_fail_after, new_client, &wire, mon);

        // ---- monitors
        if let Some(pre_show) = &pre_show_unknown_link {
            mon.count("uplink-datagram-for-unknown-conn-id");
            let post_show = self.w.as_ref().unwrap().show();
            if !wire.is_empty() || !client.is_empty() || *pre_show != post_show {
                mon.fail("C19", "sys-datagram-for-removed-uplink-not-ignored", format!("`{}` names a conn id no current uplink has (ids {pre_ids:?}), yet it put {} datagram(s) on uplink sockets, {} on the client socket, state changed: {}", &op[..op.len().min(60)], wire.len(), client.len(), *pre_show != post_show));
            }
        }
        // op `hkarm`: the generic monitors judge the `handle_housekeeping` part exactly as for `hk` (the stamped
        // verdicts must not move THERE); the classifier / controller / stamping tail of the arm runs afterwards
        let arm = toks[0] == "hkarm";
        // B1: a drain that handed exactly one datagram of two or more bytes to the shell (junk of < 2 bytes and
        // sentinels are inert) is judged by the generic monitors exactly like the `uplink` op of that datagram
        let rx_after: Vec<(u64, Vec<u8>)> = if let Op::RxRun(_) = &parsed { self.w.as_mut().unwrap().chan_snapshot() } else { Vec::new() };
        let rx_equiv: Option<String> = if let Op::RxRun(_) = &parsed {
            self.rx_run_monitors(now, &rx_before, &rx_after, pre_client_known, &pre_ids, &client, mon)
        } else {
            None
        };
        let mon_op = if arm { format!("hk {now}") } else if let Some(e) = &rx_equiv { e.clone() } else { op.clone() };
        self.monitors(&parsed_kind(&parsed), now, &pre, &pre_ids, &pre_fail, &pre_bind_fail, pre_has_connected, pre_client_known, &cfg, &wire, &client, mon, &mon_op);
        let arm_out = if arm { self.arm_tail(now, mon) } else { String::new() };

        let w = self.w.as_ref().unwrap();
        let ws: Vec<String> = wire.iter().map(|(id, d)| format!("{id}:{}", to_hex(d))).collect();
        let cs: Vec<String> = client.iter().map(|d| to_hex(d)).collect();
        let rx_out = if let Op::RxRun(_) = &parsed { format!(" | {}", show_chan(&rx_after)) } else { String::new() };
        format!("wire=[{}] client=[{}] err={} | {}{}{}", ws.join(","), cs.join(","), show_bool(hk_err), w.show(), arm_out, rx_out)
    }

    /// The tail of the housekeeping arm of `run_sender_with_config` (src/sender/mod.rs, pinned as `event-loop:
    /// housekeeping arm`) after `handle_housekeeping`, statement by statement on the real filter / controller /
    /// connections under the virtual clock: `classify`, `tick_all(.., now_ms())`, the stamping loop.  Returns the
    /// extra observation ` | arm[..]` (the classification result, the snapshot map sorted by conn id, the
    /// `cc_backing_off` flags the dump does not print) and runs the arm-level monitors on the RAW state.
    fn arm_tail(&mut self, now: u64, mon: &mut Mon) -> String {
        use srtla_core::selection::link_cc::CcState;
        let w = self.w.as_mut().unwrap();
        verif_clock::set(Some(now));
        // ---- mirrored statements
        let classification = w.weak_link_filter.classify(&w.links);
        let link_cc_snapshots = w.link_cc_controller.tick_all(&w.links, srtla_core::utils::now_ms());
        for conn in w.links.iter_mut() {
            conn.weak = classification
                .per_link
                .iter()
                .find(|e| e.conn_id == conn.conn_id)
                .map(|e| e.weak)
                .unwrap_or(false);
            let cc_snap = link_cc_snapshots.get(&conn.conn_id);
            conn.cc_backing_off = cc_snap.map(|s| s.state == CcState::BackingOff).unwrap_or(false);
            conn.cc_target_bps = cc_snap.map(|s| s.target_bps).unwrap_or(0);
            conn.loss_degraded = cc_snap.map(|s| s.loss_degraded).unwrap_or(false);
        }
        // (task B3) the stats publish of the arm: the REAL `SharedStats::update` + `get()`, same arguments
        let stats_prev = w.shared_stats.get(); // (harness only: what a `get_stats` caller saw until now)
        w.shared_stats.update(&w.links, &w.cfg, Some(&classification), Some(&link_cc_snapshots));
        let stats_snap = w.shared_stats.get();
        verif_clock::set(None);
        if stats_prev.total_links > 0 && (stats_prev.mode != stats_snap.mode || stats_prev.quality_enabled != stats_snap.quality_enabled) {
            mon.count("hkarm-stats-config-change-reported");
        }
        if stats_prev.total_links > 0 && stats_prev.total_links != stats_snap.total_links {
            mon.count("hkarm-stats-link-count-changed");
        }
        let stats_out = stats_tail(w, now, &classification, &link_cc_snapshots, &stats_snap, mon);
        // ---- monitors, from the property texts, on the raw connection state after the loop
        mon.count("hkarm");
        let total: f64 = w.links.iter().filter(|c| c.connected).map(|c| c.bitrate.current_bitrate_bps.max(0.0)).sum();
        let n_conn = w.links.iter().filter(|c| c.connected).count();
        for c in &w.links {
            if c.weak && !c.connected {
                mon.fail("C17", "arm-weak-while-disconnected", format!("tick {now}: link {} is not connected, yet the arm stamped it weak", c.conn_id));
            }
            // strictly under the floor by more than any summation-order effect
            if c.weak && (n_conn == 0 || total < 100_000.0 * (1.0 - 1e-9)) {
                mon.fail("C17", "arm-weak-under-floor", format!("tick {now}: total bitrate of the connected links {total} bit/s is under the 100 kbit/s floor ({n_conn} connected), yet link {} is stamped weak", c.conn_id));
            }
            if c.cc_target_bps != 0 && !(100_000..=200_000_000).contains(&c.cc_target_bps) {
                mon.fail("C16", "arm-target-out-of-bounds", format!("tick {now}: link {} stamped cc_target_bps {} outside {{0}} u [100000, 200000000]", c.conn_id, c.cc_target_bps));
            }
            if c.weak { mon.count("hkarm-weak-stamped"); }
            if c.cc_backing_off { mon.count("hkarm-ccb-stamped"); }
            if c.loss_degraded { mon.count("hkarm-ld-stamped"); }
            if c.cc_target_bps != 0 { mon.count("hkarm-target-nonzero"); }
            if c.cc_target_bps > 100_000 { mon.count("hkarm-target-above-floor"); }
            if !c.connected { mon.count("hkarm-link-disconnected-at-tick"); }
        }
        if n_conn > 0 && total < 100_000.0 { mon.count("hkarm-under-floor"); }
        if n_conn > 0 && total >= 100_000.0 { mon.count("hkarm-classified"); }
        for e in &classification.per_link {
            mon.count(&format!("hkarm-reason:{:?}", e.reason));
        }
        let ids: BTreeSet<u64> = w.links.iter().map(|c| c.conn_id).collect();
        for id in link_cc_snapshots.keys() {
            if !ids.contains(id) {
                mon.fail("C16", "arm-entry-for-absent-link", format!("tick {now}: the controller reports an entry for conn id {id}, which no link has (links {ids:?})"));
            }
        }
        for id in &ids {
            if !link_cc_snapshots.contains_key(id) {
                mon.fail("C16", "arm-entry-for-absent-link", format!("tick {now}: the controller has no entry for the present link {id} right after its tick"));
            }
        }
        // ---- observation
        let cls: Vec<String> = classification
            .per_link
            .iter()
            .map(|e| format!("{}:{}:{:?}:{}:{}", e.conn_id, show_bool(e.weak), e.reason, e.share_permille, e.threshold_permille))
            .collect();
        let mut keys: Vec<u64> = link_cc_snapshots.keys().copied().collect();
        keys.sort_unstable();
        let cc: Vec<String> = keys
            .iter()
            .map(|id| {
                let p = &link_cc_snapshots[id];
                format!(
                    "{id}:st={},cm={},tgt={},ewma={},var={},min={},lpm={},lewma={},deg={}",
                    p.state.as_str(),
                    p.climb_mode.as_str(),
                    p.target_bps,
                    fb(p.rtt_ewma_ms),
                    fb(p.rtt_var_ms),
                    fb(p.rtt_min_ms),
                    p.loss_permille,
                    fb(p.loss_ewma),
                    show_bool(p.loss_degraded)
                )
            })
            .collect();
        let ccb: Vec<String> = w.links.iter().map(|c| show_bool(c.cc_backing_off).to_string()).collect();
        format!(
            " | arm[sel={} est={} cls=[{}] cc=[{}] ccb=[{}]]{}",
            classification.selected_delay_ms,
            classification.estimated_max_delay_ms,
            cls.join(";"),
            cc.join(";"),
            ccb.join(","),
            stats_out
        )
    }
}

impl SysComp {
    /// Coverage of the PARTIAL send failures (op `failafter`) this op consumed - counters only; the C01 monitors
    /// themselves go by what was SEEN on the wire (a prefix datagram is sent, the rest of the batch is lost to a
    /// failed send). The batch of a consumed failure is the link's queue before the op, plus the new datagram in a
    /// client op (only the enqueue that fills the batch sends on the threshold path).
    fn count_partial_sends(&self, pre: &[Pre], pre_ids: &[u64], pre_fail_after: &[(u64, usize)], new_client: Option<&[u8]>, wire: &[(u64, Vec<u8>)], mon: &mut Mon) {
        let w = self.w.as_ref().unwrap();
        for (id, k) in pre_fail_after.iter().filter(|e| !w.fail_after.contains(e)) {
            mon.count("partial-send-consumed");
            let Some(i) = pre_ids.iter().position(|x| x == id) else { continue };
            let Some(c) = w.links.get(i).filter(|c| c.conn_id == *id) else { continue };
            let len = pre[i].queue.len() + usize::from(new_client.is_some());
            let on_wire = wire.iter().filter(|(wid, d)| wid == id && (pre[i].queue.contains(d) || new_client == Some(d.as_slice()))).count();
            if on_wire >= 1 && on_wire < len {
                mon.count("partial-send-prefix-on-wire");
            }
            if *k >= len && on_wire == len {
                // the whole batch is on the wire, yet the send reported a failure
                let was_reset = !c.connected && c.in_flight_packets == 0 && c.batch_sender.queued_count() == 0;
                mon.count(if new_client.is_some() && was_reset { "partial-send-k-ge-len" } else { "partial-send-k-ge-len-timer-path" });
            }
        }
    }
}

// ------------------------------------------------------------------------------------------ B1: receive side

fn show_chan(v: &[(u64, Vec<u8>)]) -> String {
    let es: Vec<String> = v.iter().map(|(id, b)| format!("{id}:{}:{}", b.len(), fnv_bytes(b))).collect();
    format!("chan=[{}]", es.join(","))
}

/// `hex` or `N*hex` (N copies, 1..=200), comma separated; at most 400 datagrams of at most 4000 bytes.
fn parse_rx_specs(s: &str) -> Option<Vec<Vec<u8>>> {
    let mut out = Vec::new();
    for t in s.split(',') {
        let parts: Vec<&str> = t.split('*').collect();
        match parts.as_slice() {
            [h] => out.push(parse_hex(h)?),
            [n, h] => {
                if n.is_empty() || n.len() > 18 || !n.bytes().all(|b| b.is_ascii_digit()) {
                    return None;
                }
                let n: usize = n.parse().ok()?;
                if n == 0 || n > 200 {
                    return None;
                }
                let b = parse_hex(h)?;
                for _ in 0..n {
                    out.push(b.clone());
                }
            }
            _ => return None,
        }
    }
    if out.len() > 400 || out.iter().any(|b| b.len() > 4000) {
        return None;
    }
    Some(out)
}

impl World {
    /// The whole content of the REAL packet channel, oldest first; every packet is put back in the same order
    /// (the reader tasks only run inside `block_on`, so nothing can slip in between).
    fn chan_snapshot(&mut self) -> Vec<(u64, Vec<u8>)> {
        let mut v = Vec::new();
        while let Ok(p) = self._packet_rx.try_recv() {
            v.push((p.conn_id, p.bytes.to_vec()));
        }
        for (id, b) in &v {
            let _ = self.packet_tx.send(UplinkPacket { conn_id: *id, bytes: SmallVec::from_slice_copy(b) });
        }
        v
    }
}

impl SysComp {
    /// `rxpush <cid> <specs>`: the datagrams ARRIVE at uplink `cid` - the harness receiver of that uplink sends them to
    /// the uplink's REAL current socket; then the REAL reader task runs until the channel holds what was sent
    /// (bounded wait, no timing assertion).  Observation: the channel content.
    fn rx_push(&mut self, cid: &str, specs: &str, mon: &mut Mon) -> String {
        let (Ok(cid), Some(ds)) = (cid.parse::<u64>(), parse_rx_specs(specs)) else { return "bad-op".into() };
        if self.unmodelled {
            return "unmodelled".into();
        }
        let before = self.w.as_mut().unwrap().chan_snapshot();
        let mut expected: Vec<Vec<u8>> = Vec::new();
        {
            let w = self.w.as_mut().unwrap();
            let present = w.links.iter().any(|c| c.conn_id == cid);
            if let (true, Some(io), Some(recv)) = (present, w.io.get(&cid), w.receivers.get(&cid)) {
                if let Some(local) = io.socket.get_ref().local_addr().ok().and_then(|a| a.as_socket()) {
                    for d in &ds {
                        match recv.send_to(d, local) {
                            Ok(_) => {
                                if !d.is_empty() {
                                    expected.push(d[..d.len().min(1500)].to_vec());
                                }
                                mon.count(if d.is_empty() { "rx-push-empty" } else if d.len() > 1500 { "rx-push-oversize" } else { "rx-push" });
                            }
                            Err(_) => mon.count("rx-push-send-failed"),
                        }
                    }
                    if ds.len() > 32 {
                        mon.count("rx-push-over-one-recvmmsg-batch");
                    }
                    let target = before.len() + expected.len();
                    let rx = &w._packet_rx;
                    // once datagrams have gone missing a few times in this process the long wait buys nothing more: a
                    // change that loses them would otherwise cost ~3 s per op and the check would not end in time
                    let rounds = if RX_LOST.load(std::sync::atomic::Ordering::Relaxed) >= 1 { 120 } else { 2000 };
                    self.rt.block_on(async {
                        for round in 0..rounds {
                            if rx.len() >= target && round >= 2 {
                                break;
                            }
                            tokio::time::sleep(std::time::Duration::from_millis(if round < 50 { 0 } else { 1 })).await;
                        }
                    });
                }
            } else {
                mon.count("rx-push-no-such-uplink");
            }
        }
        let after = self.w.as_mut().unwrap().chan_snapshot();
        // ---- monitors (C09: "a datagram arrives on an uplink"): what the reader delivered into the channel
        if after.len() < before.len() || after[..before.len()] != before[..] {
            mon.fail("C09", "rx-order", format!("`rxpush {cid}`: the packets already queued in the channel changed ({} before, {} after)", before.len(), after.len()));
        } else {
            let new: Vec<&(u64, Vec<u8>)> = after[before.len()..].iter().collect();
            let got: Vec<&Vec<u8>> = new.iter().filter(|(id, b)| *id == cid && !b.is_empty()).map(|(_, b)| b).collect();
            if new.iter().any(|(id, _)| *id != cid) {
                mon.fail("C09", "rx-order", format!("`rxpush {cid}`: a packet stamped with another conn id appeared in the channel"));
            }
            for e in &expected {
                let n = got.iter().filter(|g| **g == e).count();
                let m = expected.iter().filter(|x| *x == e).count();
                if n < m {
                    RX_LOST.fetch_add(1, std::sync::atomic::Ordering::Relaxed);
                    mon.fail("C09", "rx-datagram-not-delivered", format!("a datagram of {} bytes sent to the current socket of uplink {cid} did not reach the packet channel ({n} of {m} copies; bounded wait of ~3 s)", e.len()));
                    break;
                }
                if n > m {
                    mon.fail("C09", "rx-delivered-twice", format!("a datagram of {} bytes sent {m} time(s) to uplink {cid} is {n} times in the packet channel", e.len()));
                    break;
                }
            }
            if got.len() == expected.len() && got.iter().zip(expected.iter()).any(|(g, e)| *g != e) {
                mon.fail("C09", "rx-order", format!("uplink {cid}: the reader delivered the datagrams in another order than they arrived"));
            }
            if got.len() > expected.len() {
                mon.fail("C09", "rx-delivered-twice", format!("uplink {cid}: {} datagrams sent, {} packets delivered into the channel", expected.len(), got.len()));
            }
        }
        self.g.rx_sent.entry(cid).or_default().extend(expected);
        show_chan(&after)
    }

    /// `rxerr <cid>`: the reader of `cid` reports a receive error.  The error itself is NOT provoked on the socket: the
    /// harness puts into the REAL channel what the reader's `Err` arm sends (the empty sentinel), if `cid` has a reader.
    fn rx_err(&mut self, cid: &str, mon: &mut Mon) -> String {
        let Ok(cid) = cid.parse::<u64>() else { return "bad-op".into() };
        if self.unmodelled {
            return "unmodelled".into();
        }
        let w = self.w.as_mut().unwrap();
        if w.readers.contains_key(&cid) {
            let _ = w.packet_tx.send(UplinkPacket { conn_id: cid, bytes: SmallVec::new() });
            mon.count("rx-error-sentinel");
        }
        let after = w.chan_snapshot();
        show_chan(&after)
    }

    /// Monitors of op `rxrun`, from C09's text, on the RAW observations (channel before / after, client socket).
    /// Returns the equivalent `uplink` op when exactly one datagram of two or more bytes was handed to the shell.
    #[allow(clippy::too_many_arguments)]
    fn rx_run_monitors(
        &mut self,
        now: u64,
        before: &[(u64, Vec<u8>)],
        after: &[(u64, Vec<u8>)],
        client_known: bool,
        pre_ids: &[u64],
        client: &[Vec<u8>],
        mon: &mut Mon,
    ) -> Option<String> {
        mon.count("rx-run");
        let taken = before.len() - after.len().min(before.len());
        if taken != before.len().min(64) || before[taken..] != after[..] {
            mon.fail("C09", "rx-order", format!("drain_packet_queue took {taken} of {} queued packets (budget 64) or re-ordered the rest", before.len()));
        }
        if before.len() > 64 {
            mon.count("rx-run-over-drain-budget");
        }
        let handed = &before[..taken.min(before.len())];
        // every relayable datagram that was handed over reaches the client, in order; nothing else does
        let mut want: Vec<&Vec<u8>> = Vec::new();
        for (id, b) in handed {
            if b.is_empty() {
                mon.count("rx-run-sentinel");
                continue;
            }
            if let Some(q) = self.g.rx_sent.get_mut(id) {
                match q.front() {
                    Some(f) if f == b => {
                        q.pop_front();
                    }
                    other => {
                        mon.fail("C09", "rx-order", format!("uplink {id}: the shell was handed a datagram of {} bytes that is not the oldest one outstanding on that uplink's socket", b.len()));
                        // C14: "RTT comes only from echoes": a keepalive-typed datagram that reaches the shell ALTERED (padded,
                        // cut short of its receive buffer) is not the echo that arrived - a sample taken from it is not a
                        // sample of an echo
                        if let Some(f) = other {
                            if f.len() >= 2 && get_packet_type(f) == Some(SRTLA_TYPE_KEEPALIVE) && (b.starts_with(f) || f.starts_with(b)) {
                                mon.fail("C14", "rx-echo-altered", format!("uplink {id}: a keepalive echo of {} bytes arrived on the socket, the shell was handed {} bytes", f.len(), b.len()));
                            }
                        }
                    }
                }
            }
            if b.len() >= 2 && pre_ids.contains(id) {
                self.g.heard_at.insert(*id, now);
                let pt = get_packet_type(b).unwrap();
                if !is_registration(pt) || pt == SRTLA_TYPE_REG3 {
                    self.g.live_at.insert(*id, now);
                }
                if client_known && !is_internal(pt) {
                    want.push(b);
                }
            }
        }
        let mut k = 0;
        for d in client {
            if k < want.len() && d == want[k] {
                k += 1;
            } else if k > 0 && d == want[k - 1] {
                // the second copy of an SRT ACK (fast path + forward list)
                if get_packet_type(d) != Some(SRT_TYPE_ACK) {
                    mon.fail("C09", "rx-delivered-twice", format!("a relayed datagram of {} bytes (not an SRT ACK) reached the client twice", d.len()));
                }
            } else {
                mon.fail("C09", "rx-order", format!("the client received a datagram of {} bytes that is not the next relayable datagram handed to the shell", d.len()));
            }
        }
        if k < want.len() {
            mon.fail("C09", "rx-datagram-not-delivered", format!("{} relayable datagram(s) were handed to the shell by the drain, only {k} reached the client", want.len()));
        }
        if !want.is_empty() {
            mon.count("rx-run-relayed");
        }
        let solid: Vec<&(u64, Vec<u8>)> = handed.iter().filter(|(_, b)| b.len() >= 2).collect();
        match solid.as_slice() {
            [(id, b)] => Some(format!("uplink {now} {id} {}", to_hex(b))),
            _ => None,
        }
    }
}

// ------------------------------------------------------------------------------------------ op `hkarm`: stats publish

/// Canonical text of the `serde_json::Value` of a `StatsSnapshot` (what the `stats` topic carries): object keys in
/// increasing order, `k=v` joined by `,` inside `{}`; arrays `[a;b]`; booleans `1`/`0`; integers in decimal; floats as
/// IEEE bits (`null` for a non-finite one: that is what serde_json makes of it); strings verbatim except `ip` /
/// `label`, which are reduced to the address token of the uplink (the port in the label differs from run to run).
fn canon_stats(key: &str, v: &serde_json::Value) -> String {
    use serde_json::Value;
    match v {
        Value::Null => "null".to_string(),
        Value::Bool(b) => show_bool(*b).to_string(),
        Value::Number(n) => {
            if let Some(u) = n.as_u64() {
                u.to_string()
            } else if let Some(i) = n.as_i64() {
                i.to_string()
            } else {
                n.as_f64().map_or_else(|| "?".to_string(), |f| fb(f).to_string())
            }
        }
        Value::String(s) => {
            if key == "ip" || key == "label" {
                let ip = s.rsplit_once(" via ").map_or(s.as_str(), |(_, ip)| ip);
                match ip.parse::<Ipv4Addr>().map(|a| a.octets()) {
                    Ok([127, 0, 1, a]) => a.to_string(),
                    _ => format!("?{}", s.replace(' ', "_")),
                }
            } else {
                s.replace(' ', "_")
            }
        }
        Value::Array(a) => format!("[{}]", a.iter().map(|x| canon_stats(key, x)).collect::<Vec<_>>().join(";")),
        Value::Object(m) => {
            let mut keys: Vec<&String> = m.keys().collect();
            keys.sort();
            format!("{{{}}}", keys.iter().map(|k| format!("{k}={}", canon_stats(k, &m[k.as_str()]))).collect::<Vec<_>>().join(","))
        }
    }
}

/// `is_timed_out` re-stated from the property text against an EXPLICIT timeout (the configured one): a link that is
/// not connected is timed out unless it never was established and its start-up grace still runs; a connected link is
/// timed out once nothing was received for `cto` ms.
fn timed_out_against(c: &SrtlaConnection, now: u64, cto: u64) -> bool {
    if !c.connected {
        !(c.reconnection.connection_established_ms == 0 && now < c.reconnection.startup_grace_deadline_ms)
    } else {
        c.last_received.is_some_and(|lr| now.saturating_sub(lr) >= cto)
    }
}

/// Monitors on the published snapshot (RAW link / classifier / controller state against what the snapshot says,
/// independent of the model) and the observation ` | stats{..}`.
fn stats_tail(
    w: &World,
    now: u64,
    classification: &srtla_core::selection::classifier::ClassificationResult,
    cc: &HashMap<u64, srtla_core::selection::link_cc::LinkCcSnapshot>,
    snap: &srtla_send::stats::StatsSnapshot,
    mon: &mut Mon,
) -> String {
    mon.count("hkarm-stats");
    // C18: the configuration block of the snapshot is the configuration in force
    let classic = matches!(w.cfg.mode, SchedulingMode::Classic);
    let want_mode = if classic { "classic" } else { "enhanced" };
    if snap.mode != want_mode || snap.quality_enabled != (w.cfg.quality_enabled && !classic) {
        mon.fail("C18", "stats-config-not-current", format!("tick {now}: configuration is mode={want_mode} quality_enabled={}, the published snapshot says mode={} quality_enabled={}", w.cfg.quality_enabled, snap.mode, snap.quality_enabled));
    }
    if classic { mon.count("hkarm-stats-classic"); }
    if !w.cfg.quality_enabled { mon.count("hkarm-stats-quality-off"); }
    if w.cfg.conn_timeout_ms != 5000 { mon.count("hkarm-stats-timeout-not-default"); }
    let fail_link = |mon: &mut Mon, sig: &str, props: &[&str], desc: String| {
        for p in props {
            mon.fail(p, sig, desc.clone());
        }
    };
    if snap.links.len() != w.links.len() || snap.total_links != w.links.len() {
        fail_link(mon, "stats-link-misreported", &["C14", "C08", "C18", "C20"], format!("tick {now}: {} links, the snapshot has {} entries and total_links={}", w.links.len(), snap.links.len(), snap.total_links));
    }
    let mut active = 0usize;
    let (mut tw, mut tif) = (0i64, 0i64);
    for (i, c) in w.links.iter().enumerate() {
        let Some(e) = snap.links.get(i) else { break };
        let to = timed_out_against(c, now, w.cfg.conn_timeout_ms);
        if c.connected && !to {
            active += 1;
            tw += c.window as i64;
            tif += c.in_flight_packets as i64;
        }
        if to { mon.count("hkarm-stats-timed-out"); }
        if c.connected && to { mon.count("hkarm-stats-connected-and-timed-out"); }
        // C14 / C08: the entry at index i is link i's own state
        if e.label != c.label || e.ip != c.local_ip || e.connected != c.connected || e.window != c.window || e.in_flight != c.in_flight_packets || e.nak_count != c.congestion.nak_count || e.timed_out != to {
            fail_link(mon, "stats-link-misreported", &["C14", "C08", "C18", "C20"], format!("tick {now}: entry {i} of the snapshot says label={} connected={} window={} in_flight={} nak_count={} timed_out={}; link {} at index {i} has label={} connected={} window={} in_flight={} nak_count={} timed out against the configured {} ms: {to}", e.label, e.connected, e.window, e.in_flight, e.nak_count, e.timed_out, c.conn_id, c.label, c.connected, c.window, c.in_flight_packets, c.congestion.nak_count, w.cfg.conn_timeout_ms));
        }
        // C17 / C16: the verdict fields are those of THIS link's conn id - in the classification / the controller's
        // map of this tick, and on the link itself (the stamping loop ran just before)
        let ce = classification.per_link.iter().find(|x| x.conn_id == c.conn_id);
        let weak = ce.is_some_and(|x| x.weak);
        if e.weak != weak || e.weak != c.weak {
            fail_link(mon, "stats-verdict-for-other-link", &["C17"], format!("tick {now}: entry {i} (link {}) reports weak={}, the classifier's verdict for that conn id is {weak}, the link is stamped {}", c.conn_id, e.weak, c.weak));
        }
        if e.weak { mon.count("hkarm-stats-weak-reported"); }
        let cs = cc.get(&c.conn_id);
        let (tgt, deg, st) = (cs.map_or(0, |s| s.target_bps), cs.is_some_and(|s| s.loss_degraded), cs.map_or("unknown", |s| s.state.as_str()));
        if e.cc_target_bps != tgt || e.cc_target_bps != c.cc_target_bps || e.cc_loss_degraded != deg || e.cc_loss_degraded != c.loss_degraded || e.cc_state != st || (e.cc_state == "backing_off") != c.cc_backing_off {
            fail_link(mon, "stats-verdict-for-other-link", &["C16"], format!("tick {now}: entry {i} (link {}) reports cc_target_bps={} cc_loss_degraded={} cc_state={}; the controller's entry for that conn id has {tgt} / {deg} / {st}, the link is stamped {} / {} / backing_off={}", c.conn_id, e.cc_target_bps, e.cc_loss_degraded, e.cc_state, c.cc_target_bps, c.loss_degraded, c.cc_backing_off));
        }
        if e.cc_target_bps != 0 { mon.count("hkarm-stats-target-reported"); }
        if e.in_flight_cap_active { mon.count("hkarm-stats-cap-active"); }
        if e.stall_gated { mon.count("hkarm-stats-latched"); }
    }
    if snap.links.len() == w.links.len() && (snap.active_links != active || snap.total_window as i64 != tw || snap.total_in_flight as i64 != tif) {
        fail_link(mon, "stats-link-misreported", &["C14", "C08", "C18", "C20"], format!("tick {now}: aggregates active_links={} total_window={} total_in_flight={}, the links connected and live against the configured timeout give {active} / {tw} / {tif}", snap.active_links, snap.total_window, snap.total_in_flight));
    }
    if w.links.len() >= 2 && w.links.iter().enumerate().any(|(i, c)| c.conn_id != ID_BASE.with(|s| s.get()) + (i + 1) as u64) { mon.count("hkarm-stats-after-index-shift"); }
    match serde_json::to_value(snap) {
        Ok(v) => format!(" | stats{}", canon_stats("", &v)),
        Err(e) => format!(" | stats-unserialisable:{}", e.to_string().replace(' ', "_")),
    }
}

// ------------------------------------------------------------------------------------------ op `reload`

/// `parseNatList` of the model driver for address tokens: `-` = the empty list, else comma-separated
/// decimals; every token must be 1..=254 (the last octet of 127.0.1.<addr>).
fn parse_addr_list(s: &str) -> Option<Vec<u8>> {
    if s == "-" {
        return Some(Vec::new());
    }
    s.split(',')
        .map(|t| {
            if t.is_empty() || t.len() > 18 || !t.bytes().all(|b| b.is_ascii_digit()) {
                return None;
            }
            let v: u64 = t.parse().ok()?;
            (1..=254).contains(&v).then_some(v as u8)
        })
        .collect()
}

/// What the reload monitors compare: one record per link, taken before and after the call.
struct LinkSnap {
    id: u64,
    addr: Option<u8>,
    dump: String,
    label: String,
    local_ip: IpAddr,
    /// identity of the socket the I/O map holds for the link: (Arc pointer, fd)
    sock: Option<(usize, i32)>,
    queue: Vec<Vec<u8>>,
    in_flight: i32,
}

fn link_snap(c: &SrtlaConnection, io: &ConnIoMap) -> LinkSnap {
    LinkSnap {
        id: c.conn_id,
        addr: link_addr(c),
        dump: show_link(c),
        label: c.label.clone(),
        local_ip: c.local_ip,
        sock: io.get(&c.conn_id).map(|x| (Arc::as_ptr(&x.socket) as usize, x.socket.as_raw_fd())),
        queue: c.batch_sender.verif_queue().into_iter().map(|(d, _, _)| d).collect(),
        in_flight: c.in_flight_packets,
    }
}

/// The fields (space-separated tokens of the dump) in which two link dumps differ.
fn dump_diff(a: &str, b: &str) -> String {
    let (ta, tb): (Vec<&str>, Vec<&str>) = (a.split(' ').collect(), b.split(' ').collect());
    if ta.len() != tb.len() {
        return format!("`{a}` -> `{b}`");
    }
    let d: Vec<String> = ta.iter().zip(tb.iter()).filter(|(x, y)| x != y).map(|(x, y)| format!("{x} -> {y}")).collect();
    d.join(", ")
}

impl SysComp {
    /// After EVERY op: each link's label has the production shape `127.0.0.1:<receiver port> via 127.0.1.<addr>`
    /// and agrees with its `local_ip` (the printed address token is read off the label); nothing has arrived on
    /// the receiver of an uplink a reload removed, nor on the configured receiver address itself (the harness
    /// re-points every uplink socket at a per-link receiver).
    fn mon_link_set(&self, mon: &mut Mon, toks: &[&str]) {
        let Some(w) = self.w.as_ref() else { return };
        let op = || toks.iter().map(|t| &t[..t.len().min(40)]).collect::<Vec<_>>().join(" ");
        for c in &w.links {
            let ok = link_addr(c).is_some_and(|a| c.label == uplink_label(w.reload_port, a) && c.local_ip == addr_ip(a));
            if !ok {
                mon.fail("C19", "sys-label-format", format!("link {}: label `{}` / local_ip {} is not `127.0.0.1:{} via 127.0.1.<addr>` with the same address after `{}`", c.conn_id, c.label, c.local_ip, w.reload_port, op()));
            }
        }
        for (id, rx) in &w.removed_rx {
            let got = drain(rx);
            if let Some(d) = got.first() {
                mon.fail("C19", "sys-datagram-to-removed-uplink", format!("{} datagram(s) (first: {}) were sent on the socket of uplink {id}, which a reload removed, by `{}`", got.len(), to_hex(&d[..d.len().min(24)]), op()));
            }
        }
        let got = drain(&w.reload_rx);
        if let Some(d) = got.first() {
            mon.fail("C19", "sys-datagram-to-removed-uplink", format!("{} datagram(s) (first: {}) were sent by `{}` on a socket that is not the socket of any current uplink (it is still connected to the configured receiver address, where `connect_uplink` left it)", got.len(), to_hex(&d[..d.len().min(24)]), op()));
        }
    }

    /// `reload <now> <addrs> <fails>`: the REAL `apply_connection_changes` (the tail of the housekeeping arm
    /// after a SIGHUP) with the desired address list 127.0.1.<a> for a in `addrs` and a binder that refuses the
    /// addresses in `fails`. New uplinks get the next canonical conn ids and their own harness receiver.
    fn reload_op(&mut self, now: u64, addrs: &[u8], fails: &[u8], seed_probe: &[u8; 256], mon: &mut Mon) -> String {
        let op = format!("reload {now} {} {}", join_list(addrs), join_list(fails));
        // ---- pre-state
        let (before, pre_last, pre_reg, pre_pending, trk_before, pre_keys) = {
            let w = self.w.as_ref().unwrap();
            let before: Vec<LinkSnap> = w.links.iter().map(|c| link_snap(c, &w.io)).collect();
            let trk: Vec<(Option<u64>, Option<u64>)> = self.g.tracked.iter().map(|(s, t)| (w.trk.get(*s, now), w.trk.get(*s, *t))).collect();
            let keys: BTreeSet<u64> = w.io.keys().copied().collect();
            (before, w.last_selected, w.show_reg(), w.reg.verif_state().pending_reg2_idx, trk, keys)
        };
        let before_ids: BTreeSet<u64> = before.iter().map(|l| l.id).collect();

        // ---- the real call
        let refused: Vec<IpAddr> = fails.iter().map(|a| addr_ip(*a)).collect();
        let attempts: Arc<Mutex<Vec<IpAddr>>> = Arc::default();
        let log = attempts.clone();
        // harness-owned binder: refuses the addresses in `fails`, leaves every other socket unbound (as
        // `refusing_binder` does: `connect` to the loopback receiver then picks 127.0.0.1 and an ephemeral port)
        let binder: Arc<dyn UplinkBinder> = Arc::new(CallbackBinder(move |_fd: std::os::fd::RawFd, ip: IpAddr| -> std::io::Result<()> {
            log.lock().unwrap().push(ip);
            if refused.contains(&ip) { Err(std::io::Error::other("verif: interface gone")) } else { Ok(()) }
        }));
        let new_ips: Vec<IpAddr> = addrs.iter().map(|a| addr_ip(*a)).collect();
        verif_clock::set(Some(now));
        {
            let w = self.w.as_mut().unwrap();
            let mut links: SmallVec<SrtlaConnection, 4> = SmallVec::from_vec(std::mem::take(&mut w.links));
            let port = w.reload_port;
            self.rt.block_on(apply_connection_changes(&mut links, &mut w.io, &new_ips, "127.0.0.1", port, &mut w.last_selected, &mut w.trk, &binder));
            w.links = links.into_vec();
        }
        verif_clock::set(None);
        let attempts: Vec<IpAddr> = std::mem::take(&mut *attempts.lock().unwrap());

        // ---- every NEW uplink (conn id not present before), in order: canonical id instead of the random one
        // (nothing else holds the id yet), its own harness receiver (the real socket is re-pointed at it by a
        // second `connect` on the same fd, `io.remote` follows so that `reconnect_uplink` connects there too),
        // its own refusing binder
        {
            let _guard = self.rt.enter();
            let w = self.w.as_mut().unwrap();
            for k in 0..w.links.len() {
                let rid = w.links[k].conn_id;
                if before_ids.contains(&rid) {
                    continue;
                }
                w.created += 1;
                let cid = w.created;
                w.links[k].conn_id = cid;
                self.g.reload_new_ids.insert(cid);
                let Some(mut io) = w.io.remove(&rid) else {
                    mon.fail("C19", "sys-added-set", format!("new uplink {} (canonical id {cid}) has no entry in the I/O map after `{op}`", w.links[k].label));
                    continue;
                };
                let recv = StdUdp::bind("127.0.0.1:0").unwrap();
                recv.set_nonblocking(true).unwrap();
                let _ = socket2::SockRef::from(&recv).set_recv_buffer_size(2 << 20);
                let remote = recv.local_addr().unwrap();
                let sock = std::mem::ManuallyDrop::new(unsafe { socket2::Socket::from_raw_fd(io.socket.as_raw_fd()) });
                if sock.connect(&remote.into()).is_err() {
                    mon.count("reload-repoint-failed");
                }
                io.remote = remote;
                let refusals = Arc::new(AtomicU32::new(0));
                io.binder = refusing_binder(refusals.clone());
                w.io.insert(cid, io);
                w.bind_refusals.insert(cid, refusals);
                w.receivers.insert(cid, recv);
            }
        }

        // ---- REMOVED uplinks: their receivers go to the side list (nothing may arrive there any more), their
        // reader tasks are stopped (`sync_readers` in the real arm); failure injections keyed by their ids stay
        let listed = |l: &LinkSnap| l.addr.is_some_and(|a| addrs.contains(&a));
        let after_ids: BTreeSet<u64> = self.w.as_ref().unwrap().links.iter().map(|c| c.conn_id).collect();
        let removed: Vec<&LinkSnap> = before.iter().filter(|l| !after_ids.contains(&l.id)).collect();
        {
            let w = self.w.as_mut().unwrap();
            for r in &removed {
                if let Some(rx) = w.receivers.remove(&r.id) {
                    w.removed_rx.push((r.id, rx));
                }
                w.dead.remove(&r.id);
                self.g.rx_sent.remove(&r.id);
                // C01 accounting: a datagram queued on an uplink that is no longer listed is discarded with it
                if !listed(r) {
                    for d in &r.queue {
                        if let Some(t) = self.g.tag_of.get(d) {
                            self.g.lost_ok.insert(*t);
                            mon.count("c01-queued-discarded-by-reload");
                        }
                    }
                }
            }
        }
        // B1: the arm calls the REAL `sync_readers` right after `apply_connection_changes` (readers of the removed conn
        // ids aborted and dropped, one reader spawned per new uplink on its socket)
        {
            let _guard = self.rt.enter();
            let w = self.w.as_mut().unwrap();
            sync_readers(&w.links, &w.io, &mut w.readers, &w.packet_tx);
            for c in &w.links {
                if !w.readers.contains_key(&c.conn_id) {
                    mon.fail("C09", "rx-no-reader-for-uplink", format!("after `{op}` + sync_readers the uplink {} has no reader task", c.conn_id));
                }
            }
            let ids: BTreeSet<u64> = w.links.iter().map(|c| c.conn_id).collect();
            if w.readers.keys().any(|k| !ids.contains(k)) {
                mon.fail("C09", "rx-reader-for-removed-uplink", format!("after `{op}` + sync_readers a reader task is left for a conn id no uplink has"));
            }
        }
        let (wire, client) = self.w.as_mut().unwrap().capture();
        let wire: Vec<(u64, Vec<u8>)> = wire.into_iter().map(|(id, d)| (id, self.canon_wire(seed_probe, &d))).collect();

        // ---- monitors (C19 apply clauses, C11 anchor, C05 tracker, C01 accounting above)
        let w = self.w.as_ref().unwrap();
        let g = &mut self.g;
        let after: Vec<LinkSnap> = w.links.iter().map(|c| link_snap(c, &w.io)).collect();
        mon.count("reload");
        if !wire.is_empty() || !client.is_empty() {
            mon.fail("C19", "sys-reload-sent", format!("`{op}` put {} datagram(s) on uplink sockets and {} on the client socket", wire.len(), client.len()));
        }
        // survivors: still there, byte-identical record, same socket
        let mut surv_pos: Vec<usize> = Vec::new();
        for b in before.iter().filter(|l| listed(l)) {
            match after.iter().position(|a| a.id == b.id) {
                None => mon.fail("C19", "sys-survivor-changed", format!("uplink {}@{} is in the new address list {addrs:?} but `{op}` removed it", b.id, show_opt(b.addr))),
                Some(p) => {
                    surv_pos.push(p);
                    let a = &after[p];
                    if a.dump != b.dump || a.label != b.label || a.local_ip != b.local_ip {
                        mon.fail("C19", "sys-survivor-changed", format!("surviving uplink {}@{} changed by `{op}`: {} (label `{}` -> `{}`, local_ip {} -> {})", b.id, show_opt(b.addr), dump_diff(&b.dump, &a.dump), b.label, a.label, b.local_ip, a.local_ip));
                    }
                    if a.sock != b.sock || b.sock.is_none() {
                        mon.fail("C19", "sys-survivor-changed", format!("socket of surviving uplink {}@{} changed by `{op}`: (Arc, fd) {:?} -> {:?}", b.id, show_opt(b.addr), b.sock, a.sock));
                    }
                }
            }
        }
        if !surv_pos.windows(2).all(|p| p[0] < p[1]) {
            mon.fail("C19", "sys-survivor-order", format!("`{op}`: the surviving uplinks sit at positions {surv_pos:?} (in their old order): relative order not kept"));
        }
        if let Some(f) = after.iter().position(|a| !before_ids.contains(&a.id)) {
            if after[f..].iter().any(|a| before_ids.contains(&a.id)) {
                mon.fail("C19", "sys-survivor-order", format!("`{op}`: a new uplink sits at position {f}, before a surviving one (ids after: {:?})", after.iter().map(|a| a.id).collect::<Vec<_>>()));
            }
        }
        // removed: gone, with their I/O half
        for b in before.iter().filter(|l| !listed(l)) {
            if after_ids.contains(&b.id) {
                mon.fail("C19", "sys-removed-set", format!("uplink {}@{} is not in the new address list {addrs:?} but is still there after `{op}`", b.id, show_opt(b.addr)));
            }
            if w.io.contains_key(&b.id) {
                mon.fail("C19", "sys-removed-set", format!("uplink {}@{} is not in the new address list {addrs:?} but its I/O entry is still in the map after `{op}`", b.id, show_opt(b.addr)));
            }
        }
        // added: exactly the first occurrences of the listed addresses no link carried before the call, minus
        // the refused ones, in list order, one connect attempt each, each a fresh registering link
        let carried: Vec<u8> = before.iter().filter_map(|l| l.addr).collect();
        let mut needed: Vec<u8> = Vec::new();
        for a in addrs {
            if !carried.contains(a) && !needed.contains(a) {
                needed.push(*a);
            }
        }
        let want_added: Vec<Option<u8>> = needed.iter().copied().filter(|a| !fails.contains(a)).map(Some).collect();
        let got_added: Vec<Option<u8>> = after.iter().filter(|a| !before_ids.contains(&a.id)).map(|a| a.addr).collect();
        if got_added != want_added {
            mon.fail("C19", "sys-added-set", format!("`{op}` on uplinks carrying {carried:?}: new uplinks for addresses {got_added:?}, expected {want_added:?} (in this order)"));
        }
        let want_attempts: Vec<IpAddr> = needed.iter().map(|a| addr_ip(*a)).collect();
        if attempts != want_attempts {
            mon.fail("C19", "sys-added-set", format!("`{op}` on uplinks carrying {carried:?}: connect attempts for {attempts:?}, expected one each for {want_attempts:?}"));
        }
        for c in w.links.iter().filter(|c| !before_ids.contains(&c.conn_id)) {
            let fresh = !c.connected
                && matches!(c.phase, LinkPhase::Registering)
                && c.window == 20000
                && c.in_flight_packets == 0
                && c.verif_packet_log().is_empty()
                && c.batch_sender.queued_count() == 0
                && c.last_received.is_none()
                && c.reconnection.startup_grace_deadline_ms == now + 5000
                && c.reconnection.connection_established_ms == 0
                && w.io.contains_key(&c.conn_id);
            // the start-up constructor on the same (id, label, address, clock) is the reference for everything else
            let reference = link_addr(c).map(|a| show_link(&SrtlaConnection::new_registering(c.conn_id, uplink_label(w.reload_port, a), addr_ip(a), now)));
            if !fresh || reference.as_deref() != Some(&show_link(c)) {
                mon.fail("C19", "sys-added-set", format!("new uplink {} is not a fresh registering link after `{op}` (io entry: {}): {}", c.conn_id, w.io.contains_key(&c.conn_id), match &reference {
                    Some(r) => dump_diff(r, &show_link(c)),
                    None => show_link(c),
                }));
            }
        }
        // I/O map keys = conn ids of the links
        let keys: BTreeSet<u64> = w.io.keys().copied().collect();
        if pre_keys == before_ids && keys != after_ids {
            mon.fail("C19", "sys-io-keys", format!("after `{op}` the I/O map holds keys {keys:?}, the uplinks have conn ids {after_ids:?}"));
        }
        // registration manager untouched
        if w.show_reg() != pre_reg {
            mon.fail("C19", "sys-reload-touched-registration", format!("`{op}`: registration manager {pre_reg} -> {}", w.show_reg()));
        }
        // C07: "accepts a REG2 only from the uplink that REG1 was sent on" - the manager names that uplink by POSITION,
        // so a reload that removes nothing (add-only, same list, re-ordered file) must leave every surviving uplink at
        // its position (a removal shifts positions in the unchanged code as well: documented observation, not judged)
        if removed.is_empty() {
            if let Some(i) = pre_pending {
                mon.count("reload-with-pending-registration-nothing-removed");
                let was = before.get(i).map(|l| l.id);
                let is = after.get(i).map(|l| l.id);
                if was != is {
                    mon.fail("C07", "sys-reload-moved-pending-registration", format!("`{op}` removed nothing, yet the position {i} on which the outstanding REG1 was sent now holds uplink {is:?} instead of {was:?}: a REG2 arriving on another uplink would be accepted"));
                }
            }
        }
        // C11: the remembered previous selection is forgotten iff the vector shifted
        if !removed.is_empty() {
            if w.last_selected.is_some() {
                mon.fail("C11", "sys-anchor-after-reload", format!("`{op}` removed uplinks {:?} but the previous selection is still index {:?} (was {pre_last:?}): it now names a different uplink or none", removed.iter().map(|r| r.id).collect::<Vec<_>>(), w.last_selected));
            }
        } else if w.last_selected != pre_last {
            mon.fail("C11", "sys-anchor-after-reload", format!("`{op}` removed nothing but the previous selection changed {pre_last:?} -> {:?}", w.last_selected));
        }
        // C05: no tracker entry names a removed uplink; entries naming a survivor (or nobody) are unchanged
        let removed_ids: BTreeSet<u64> = removed.iter().map(|r| r.id).collect();
        for (k, (sq, t)) in g.tracked.iter().enumerate() {
            let post = (w.trk.get(*sq, now), w.trk.get(*sq, *t));
            let pre = trk_before[k];
            for (b, a, at) in [(pre.0, post.0, now), (pre.1, post.1, *t)] {
                if let Some(id) = a {
                    if removed_ids.contains(&id) {
                        mon.fail("C05", "sys-tracker-names-removed-uplink", format!("after `{op}` the tracker still answers {id} (a removed uplink) for sequence number {sq} at time {at}"));
                    }
                }
                match b {
                    Some(id) if removed_ids.contains(&id) => mon.count("reload-tracker-entry-of-removed-uplink"),
                    _ => {
                        if a != b {
                            mon.fail("C05", "sys-tracker-names-removed-uplink", format!("`{op}` changed the tracker's answer for sequence number {sq} at time {at} from {b:?} to {a:?} although {b:?} is not a removed uplink"));
                        } else if b.is_some() {
                            mon.count("reload-tracker-entry-of-survivor-kept");
                        }
                    }
                }
            }
        }
        // ---- coverage
        let removed_idx: Vec<usize> = before.iter().enumerate().filter(|(_, l)| !after_ids.contains(&l.id)).map(|(i, _)| i).collect();
        if pre_last.is_some_and(|i| removed_idx.contains(&i)) {
            mon.count("reload-removed-selected");
        }
        if removed.iter().any(|r| !r.queue.is_empty()) {
            mon.count("reload-removed-with-queue");
        }
        if removed.iter().any(|r| r.in_flight > 0) {
            mon.count("reload-removed-with-inflight");
        }
        if pre_pending.is_some_and(|p| removed_idx.iter().any(|i| *i <= p)) {
            mon.count("reload-removed-pending-registration");
        }
        if !got_added.is_empty() {
            mon.count("reload-added");
        }
        if got_added.iter().flatten().any(|a| g.removed_addrs.contains(a)) {
            mon.count("reload-readded-address");
        }
        if removed.is_empty() && needed.is_empty() {
            mon.count("reload-same-list");
        }
        if !removed.is_empty() && after.len() == 1 {
            mon.count("reload-all-but-one");
        }
        if needed.iter().any(|a| fails.contains(a)) {
            mon.count("reload-creation-failed");
        }
        if !removed.is_empty() {
            mon.count("reload-removed");
        }
        for r in &removed {
            if let Some(a) = r.addr {
                g.removed_addrs.insert(a);
            }
        }

        let ws: Vec<String> = wire.iter().map(|(id, d)| format!("{id}:{}", to_hex(d))).collect();
        let cs: Vec<String> = client.iter().map(|d| to_hex(d)).collect();
        format!("wire=[{}] client=[{}] err=0 | {}", ws.join(","), cs.join(","), w.show())
    }
}

/// A separately constructed connection with every field the scheduler reads copied (guard state included).
fn full_clone(c: &SrtlaConnection) -> SrtlaConnection {
    let mut d = SrtlaConnection::new_registering(c.conn_id, c.label.clone(), c.local_ip, 0);
    d.connected = c.connected;
    d.window = c.window;
    d.in_flight_packets = c.in_flight_packets;
    d.packet_log = c.packet_log.clone();
    d.highest_acked_seq = c.highest_acked_seq;
    d.last_received = c.last_received;
    d.last_sent = c.last_sent;
    d.last_keepalive_sent = c.last_keepalive_sent;
    d.last_ack_or_rtt_sample_ms = c.last_ack_or_rtt_sample_ms;
    d.rtt = c.rtt.clone();
    d.congestion = c.congestion.clone();
    d.bitrate = c.bitrate.clone();
    d.reconnection = c.reconnection.clone();
    let _ = d.batch_sender.drain(c.batch_sender.verif_last_flush_ms());
    for (data, seq, t) in c.batch_sender.verif_queue() {
        d.batch_sender.queue_packet(&data, seq, t);
    }
    d.batch_sender.set_regime(c.batch_sender.regime());
    d.phase = c.phase;
    d.weak = c.weak;
    d.cc_backing_off = c.cc_backing_off;
    d.cc_target_bps = c.cc_target_bps;
    d.loss_degraded = c.loss_degraded;
    d.verif_set_private(c.verif_private());
    d
}

/// how many times op `rxpush` has seen a datagram NOT reach the packet channel in this process
static RX_LOST: std::sync::atomic::AtomicUsize = std::sync::atomic::AtomicUsize::new(0);

thread_local! {
    static SEED: std::cell::Cell<u64> = const { std::cell::Cell::new(0) };
    static ID_BASE: std::cell::Cell<u64> = const { std::cell::Cell::new(0) };
}

#[derive(Clone, Copy, PartialEq)]
enum Kind {
    Probe,
    Client,
    Uplink,
    Flush,
    Hk,
    Other,
}

fn parsed_kind<T>(_p: &T) -> KindCarrier {
    KindCarrier
}
struct KindCarrier;

impl SysComp {
    #[allow(clippy::too_many_arguments)]
    fn monitors(
        &mut self,
        _k: &KindCarrier,
        now: u64,
        pre: &[Pre],
        pre_ids: &[u64],
        pre_fail: &[u64],
        pre_bind_fail: &[u64],
        pre_has_connected: bool,
        pre_client_known: bool,
        cfg: &ConfigSnapshot,
        wire: &[(u64, Vec<u8>)],
        client: &[Vec<u8>],
        mon: &mut Mon,
        op: &str,
    ) {
        let toks: Vec<&str> = op.split(' ').collect();
        let kind = match toks[0] {
            "probe" => Kind::Probe,
            "client" => Kind::Client,
            "uplink" => Kind::Uplink,
            "flush" => Kind::Flush,
            "hk" => Kind::Hk,
            _ => Kind::Other,
        };
        if toks[0] == "burst" && toks.len() == 5 {
            // C09 over a backlog: every queued copy of a relayable datagram reaches the client
            let w = self.w.as_ref().unwrap();
            let data = parse_hex(toks[4]).unwrap_or_default();
            let cnt: usize = toks[3].parse().unwrap_or(0);
            let known_link = toks[2].parse::<u64>().ok().is_some_and(|cid| w.links.iter().any(|c| c.conn_id == cid));
            if data.len() >= 2 && known_link {
                if let Ok(cid) = toks[2].parse::<u64>() {
                    self.g.heard_at.insert(cid, now);
                    if get_packet_type(&data).is_some_and(|pt| !is_registration(pt) || pt == SRTLA_TYPE_REG3) {
                        self.g.live_at.insert(cid, now);
                    }
                }
                let pt = get_packet_type(&data).unwrap();
                let got = client.iter().filter(|d| **d == data).count();
                if pre_client_known && !is_internal(pt) {
                    mon.count("burst-relayed");
                    if cnt > 64 {
                        mon.count("burst-over-drain-budget");
                    }
                    if got < cnt {
                        mon.fail("C09", "backlog-not-relayed", format!("{cnt} copies of a type {pt:#x} datagram were queued on the uplink channel, only {got} reached the client after draining"));
                    }
                    if client.iter().any(|d| *d != data) {
                        mon.fail("C09", "relay-modified", "client received a datagram that differs from the queued one".into());
                    }
                } else if !client.is_empty() && (is_internal(pt) || !pre_client_known) {
                    mon.fail("C09", "internal-delivered", format!("backlog of type {pt:#x} datagrams produced {} client datagrams", client.len()));
                }
            }
        }
        let w = self.w.as_ref().unwrap();
        let g = &mut self.g;
        let n = w.links.len();
        let consumed_fail: Vec<u64> = pre_fail.iter().copied().filter(|id| !w.fail_pending.contains(id)).collect();
        let consumed_bind: Vec<u64> = pre_bind_fail.iter().copied().filter(|id| !w.bind_fail.contains(id)).collect();

        // ---------- the classifier / link-CC verdicts stamped on a link (weak, loss_degraded, cc_backing_off,
        // cc_target_bps) are written by the housekeeping arm's stamping loop only (`setlink` here): no
        // event-loop arm may clear or change them behind the controller's back
        g.max_cto = g.max_cto.max(cfg.conn_timeout_ms).max(5000);
        for i in 0..n.min(pre.len()) {
            let c = &w.links[i];
            if c.conn_id != pre_ids[i] {
                continue;
            }
            let post = (c.weak, c.loss_degraded, c.cc_backing_off, c.cc_target_bps);
            if post != pre[i].stamps {
                let what = format!("link {}: (weak, loss_degraded, cc_backing_off, cc_target_bps) {:?} -> {:?} by `{}`", c.conn_id, pre[i].stamps, post, &op[..op.len().min(60)]);
                if post.1 != pre[i].stamps.1 || post.2 != pre[i].stamps.2 || post.3 != pre[i].stamps.3 {
                    mon.fail("C16", "verdict-changed-outside-tick", what.clone());
                }
                if post.0 != pre[i].stamps.0 {
                    mon.fail("C17", "verdict-changed-outside-tick", what);
                }
            }
        }

        // ---------- classify wire datagrams
        for (id, d) in wire {
            let pt = get_packet_type(d);
            let is_ka = pt == Some(SRTLA_TYPE_KEEPALIVE) && kind == Kind::Hk;
            let is_reg = matches!(pt, Some(SRTLA_TYPE_REG1) | Some(SRTLA_TYPE_REG2)) && d.len() == 258 && kind != Kind::Client && kind != Kind::Flush;
            if is_ka || is_reg {
                continue;
            }
            match g.tag_of.get(d) {
                Some(t) => {
                    // C04, second sentence, at WIRE level: once the session is established an uplink that is
                    // registering (not registered since its last tear-down) carries no client datagram at
                    // all - every tear-down empties its queue, nothing is enqueued on it afterwards
                    // (a datagram ACCEPTED before the session existed was routed by the pre-registration fallback, which
                    // C04 does not constrain - "after the session is established, every unique copy ... is routed to" -;
                    // it may still sit in a registering link's queue when another link's REG3 establishes the session and
                    // leaves with the next flush: witness tools/witness/c04-prereg-queue-flushed-after-establishment.ops.
                    // Withdrawn as demanding more than C04 states; recorded as an observation in DESIGN 13.12)
                    if pre_has_connected && !g.pre_est_tags.contains(t) {
                        if let Some(i) = pre_ids.iter().position(|x| x == id) {
                            if i < pre.len() && pre[i].phase_reg && !pre[i].connected {
                                mon.fail("C04", "client-data-on-registering-link", format!("link {id} was registering (not connected) when `{}` put client datagram #{t} on its wire", &op[..op.len().min(40)]));
                            } else {
                                mon.count("client-data-on-registered-link");
                            }
                        }
                    }
                    let v = g.wire_tags.entry(*id).or_default();
                    if v.last().is_some_and(|l| *l >= *t) {
                        mon.fail("C01", "order", format!("link {id}: datagram #{t} went on the wire after #{} ({op})", v.last().unwrap()));
                    }
                    if v.contains(t) {
                        mon.fail("C01", "sent-twice-on-link", format!("link {id}: datagram #{t} sent twice"));
                    }
                    v.push(*t);
                    mon.count("wire-data");
                    if g.reload_new_ids.contains(id) {
                        mon.count("reload-new-uplink-carried-data");
                    }
                }
                None => {
                    // the datagram about to be accepted by this very op is registered below; check after
                    if kind != Kind::Client {
                        mon.fail("C01", "corrupted", format!("link {id}: unknown datagram {} on the wire ({op})", to_hex(&d[..d.len().min(24)])));
                    }
                }
            }
        }

        // ---------- teardown causes (C08) and resets: which links were reset by this op
        let mut reset: Vec<bool> = vec![false; n];
        for i in 0..n.min(pre.len()) {
            if w.links[i].conn_id != pre_ids[i] {
                continue;
            }
            let c = &w.links[i];
            let torn = (pre[i].connected && !c.connected) || (!pre[i].phase_reg && matches!(c.phase, LinkPhase::Registering));
            let attempt = c.reconnection.last_reconnect_attempt_ms != pre[i].last_attempt;
            let reg3_here = kind == Kind::Uplink
                && toks.len() == 4
                && toks[2].parse::<u64>().ok() == Some(c.conn_id)
                && parse_hex(toks[3]).is_some_and(|d| get_packet_type(&d) == Some(SRTLA_TYPE_REG3));
            let regerr_here = kind == Kind::Uplink
                && toks.len() == 4
                && toks[2].parse::<u64>().ok() == Some(c.conn_id)
                && parse_hex(toks[3]).is_some_and(|d| get_packet_type(&d) == Some(SRTLA_TYPE_REG_ERR));
            reset[i] = torn || attempt || reg3_here || regerr_here;
            if torn {
                mon.count("teardown");
                let by_timeout = kind == Kind::Hk && pre[i].timed_out;
                let by_send = (kind == Kind::Client) && consumed_fail.contains(&c.conn_id);
                let by_regerr = kind == Kind::Uplink
                    && toks.len() == 4
                    && toks[2].parse::<u64>().ok() == Some(c.conn_id)
                    && parse_hex(toks[3]).is_some_and(|d| get_packet_type(&d) == Some(SRTLA_TYPE_REG_ERR));
                if !(by_timeout || by_send || by_regerr) {
                    mon.fail("C08", "teardown-without-cause", format!("link {} torn down by `{}` without timeout / send failure / REG_ERR (pre: connected={} timed_out={})", c.conn_id, &op[..op.len().min(60)], pre[i].connected, pre[i].timed_out));
                }
                if by_timeout && pre[i].connected {
                    // connected link: silence must have lasted the CONFIGURED timeout (the value in force at
                    // this tick, not whatever copy the link carried); ghost = datagrams the harness delivered
                    mon.count("teardown-by-timeout");
                    if let Some(h) = g.live_at.get(&c.conn_id) {
                        let silent = now.saturating_sub(*h);
                        if silent < cfg.conn_timeout_ms {
                            mon.fail("C08", "torn-down-before-configured-timeout", format!("link {} torn down by housekeeping at {now} after {silent} ms of silence (last liveness-refreshing datagram delivered at {h}); the configured timeout is {} ms", c.conn_id, cfg.conn_timeout_ms));
                        } else {
                            mon.count("teardown-after-configured-timeout");
                        }
                    }
                }
            }
            // C13: the latch and the rejoin dwell are judged at scheduling decisions only; between decisions
            // nothing short of a link reset (tear-down / reconnect attempt) may release a latched uplink - not a
            // registration reply on a registered link, not return traffic, not a housekeeping pass
            if kind != Kind::Client && kind != Kind::Other && !(torn || attempt || regerr_here) {
                let p = c.verif_private();
                if pre[i].guard.1 != 0 {
                    mon.count("latched-link-between-decisions");
                    if p.stall_latched_since_ms == 0 || (pre[i].guard.0 && !p.stall_gated) {
                        mon.fail("C13", "latch-released-between-decisions", format!("link {} was latched (since {}, gated={}) and `{}` - no scheduling decision, no link reset, guard still on - left it latched_since={} gated={}", c.conn_id, pre[i].guard.1, pre[i].guard.0, &op[..op.len().min(60)], p.stall_latched_since_ms, p.stall_gated));
                    }
                }
                if pre[i].guard.2 != p.stall_recovery_since_ms && pre[i].guard.1 != 0 {
                    mon.fail("C13", "dwell-moved-between-decisions", format!("link {}: rejoin dwell start {} -> {} by `{}` (no scheduling decision)", c.conn_id, pre[i].guard.2, p.stall_recovery_since_ms, &op[..op.len().min(60)]));
                }
            }
            // C13, last clause: "the silence pull releases only when the uplink is heard from again or disconnects".
            // Heard = a datagram of two or more bytes was DELIVERED on that uplink since the pull engaged (the harness's
            // own record, not the link's last_received - a receive ERROR, the reader's empty marker, is not hearing).
            {
                let p = c.verif_private();
                if op.starts_with("setlink") || torn || attempt || regerr_here || !cfg.stall_deselect {
                    g.pulled_since.remove(&c.conn_id);
                } else if !pre[i].guard.3 && p.silence_pulled {
                    g.pulled_since.insert(c.conn_id, now);
                    mon.count("silence-pull-engaged");
                } else if pre[i].guard.3 && !p.silence_pulled {
                    if let Some(t0) = g.pulled_since.remove(&c.conn_id) {
                        let heard = g.heard_at.get(&c.conn_id).is_some_and(|h| *h >= t0);
                        mon.count(if heard { "silence-pull-released-heard" } else { "silence-pull-released-otherwise" });
                        if !heard && c.connected && pre[i].connected {
                            mon.fail("C13", "pull-released-unheard", format!("link {}: silence pull engaged at {t0}, released by `{}` at {now} although no datagram has been delivered on that uplink since (last one: {:?}), it stayed connected, was not reset and the guard is on", c.conn_id, &op[..op.len().min(60)], g.heard_at.get(&c.conn_id)));
                        }
                    }
                }
            }
            if torn || attempt {
                g.win_injected.remove(&c.conn_id);
            }
            // C14 ghost: a probe is outstanding only if a keepalive armed it since the link's last reset
            if torn || attempt || regerr_here {
                g.probe_armed.remove(&c.conn_id);
            }
            if kind == Kind::Hk && !pre[i].waiting && c.rtt.waiting_for_keepalive_response && !(torn || attempt) {
                g.probe_armed.insert(c.conn_id);
            }
            // C06 / C08: every tear-down (timeout reconnect, failed send, REG_ERR - on a registered link or
            // not) returns the window to 20000 with nothing in flight, logged or queued
            if (torn || regerr_here) && (c.window != 20000 || c.in_flight_packets != 0 || !c.verif_packet_log().is_empty() || c.batch_sender.queued_count() != 0 || c.connected) {
                let what = format!("link {} after a tear-down by `{}`: window {} in_flight {} logged {} queued {} connected {}", c.conn_id, &op[..op.len().min(60)], c.window, c.in_flight_packets, c.verif_packet_log().len(), c.batch_sender.queued_count(), c.connected);
                mon.fail("C06", "teardown-window-not-reset", what.clone());
                mon.fail("C08", "unclean-teardown", what);
            }
            if regerr_here {
                mon.count("regerr-teardown");
                if !pre[i].connected {
                    mon.count("regerr-on-unregistered-link");
                    if pre[i].window != 20000 {
                        mon.count("regerr-on-unregistered-link-with-moved-window");
                    }
                }
            }
            // C08 detection: a connected link on which nothing has arrived for longer than the largest
            // timeout configured so far cannot still be connected after a housekeeping pass
            // (it may stay `connected` for a while when its reconnect attempt is still paced by the retry
            // interval, but then it must count as timed out: no data, no keepalives, due for re-registration)
            if kind == Kind::Hk && pre[i].connected && c.connected {
                if let Some(h) = g.heard_at.get(&c.conn_id) {
                    if now.saturating_sub(*h) > g.max_cto {
                        if !c.is_timed_out(now) {
                            mon.fail("C08", "silent-link-not-detected", format!("link {} still counts as live (connected, not timed out) after the housekeeping pass at {now} although nothing has arrived on it since {h} ({} ms > every configured timeout <= {} ms)", c.conn_id, now - h, g.max_cto));
                        } else {
                            mon.count("silent-connected-link-paced-retry");
                        }
                    } else {
                        mon.count("connected-link-heard-within-timeout");
                    }
                }
            }
            // retry spacing
            if attempt && kind == Kind::Hk {
                mon.count("reconnect-attempt");
                if let Some((t_prev, _)) = g.last_attempt.get(&c.conn_id) {
                    let min_gap = if pre[i].established == 0 { 1000 } else { 5000 };
                    if now.saturating_sub(*t_prev) < min_gap {
                        mon.fail("C08", "retry-too-soon", format!("link {} retried after {} ms (< {min_gap})", c.conn_id, now - t_prev));
                    }
                }
                g.last_attempt.insert(c.conn_id, (now, pre[i].established != 0));
                // the code's own back-off table, read off the PRE-state: 5/10/20/40/80 s for 0..4 recorded
                // failures, 120 s from 5 on (independent of the model)
                if pre[i].established != 0 && pre[i].last_attempt != 0 {
                    let table = [5_000u64, 10_000, 20_000, 40_000, 80_000, 120_000];
                    let need = table[(pre[i].fail_count as usize).min(5)];
                    if now.saturating_sub(pre[i].last_attempt) < need {
                        mon.fail("C08", "backoff-not-honoured", format!("link {} retried {} ms after its previous attempt with {} recorded failures (back-off {need})", c.conn_id, now - pre[i].last_attempt, pre[i].fail_count));
                    }
                    if pre[i].fail_count > 0 {
                        mon.count(match pre[i].fail_count {
                            1 => "retry-after-backoff-10s",
                            2 => "retry-after-backoff-20s",
                            3 => "retry-after-backoff-40s",
                            4 => "retry-after-backoff-80s",
                            _ => "retry-after-backoff-120s",
                        });
                    }
                }
                // a failed socket re-creation (binder refused): the link is marked for recovery — down,
                // clean accounting, failure counter NOT reset (one more than before if established)
                if consumed_bind.contains(&c.conn_id) {
                    mon.count("reconnect-bind-failed");
                    let want_fc = if pre[i].established != 0 { pre[i].fail_count.saturating_add(1) } else { pre[i].fail_count };
                    if c.connected || !c.verif_packet_log().is_empty() || c.batch_sender.queued_count() != 0 || c.reconnection.reconnect_failure_count != want_fc {
                        mon.fail("C08", "failed-reconnect-state", format!("link {} after a failed socket re-creation: connected={} log={} queued={} failure counter {} (expected {want_fc})", c.conn_id, c.connected, c.verif_packet_log().len(), c.batch_sender.queued_count(), c.reconnection.reconnect_failure_count));
                    }
                } else if pre[i].established != 0 && c.reconnection.reconnect_failure_count != 0 {
                    mon.fail("C08", "failcount-after-reconnect", format!("link {} re-created its socket but keeps failure counter {}", c.conn_id, c.reconnection.reconnect_failure_count));
                }
                if c.window != 20000 || c.in_flight_packets != 0 || !matches!(c.phase, LinkPhase::Registering) {
                    mon.fail("C08", "unclean-teardown", format!("link {} after reconnect attempt: window {} in_flight {} phase {}", c.conn_id, c.window, c.in_flight_packets, show_phase(&c.phase)));
                }
            }
            if consumed_bind.contains(&c.conn_id) && !(attempt && kind == Kind::Hk) {
                mon.fail("C08", "bind-failure-without-attempt", format!("link {}: an injected binder refusal was consumed by `{}` without a reconnect attempt", c.conn_id, &op[..op.len().min(60)]));
            }
            // "connected again within 30 s once the path delivers and the receiver answers" needs a
            // registration attempt at least every 30 s while the link is down and past its grace
            // (stated on `down`, not on the code's own timed-out verdict: a link that is not registered
            // must keep trying whatever it has heard since the tear-down)
            if torn {
                g.torn_at.insert(c.conn_id, now);
            }
            if c.connected {
                g.torn_at.remove(&c.conn_id);
            }
            // The 30 s bound is for a down link whose failure counter is 0 — what every tear-down cause in
            // the property's fault classes (silence, send error, REG_ERR / REG_NGP) leaves. A counter k > 0
            // exists only after failed socket RE-CREATIONS (binder error, op `failbind`), which are outside
            // those classes and are what makes the property's "back-off never exceeding 120 s" reachable:
            // there the bound is the back-off table itself — the attempt is due at the first tick at or
            // after last_attempt + min(5000 * 2^min(k,5), 120000) (not earlier: `backoff-not-honoured`).
            if kind == Kind::Hk && !pre[i].connected && !c.connected && !attempt {
                let past_grace = pre[i].established != 0 || now > w.links[i].reconnection.startup_grace_deadline_ms;
                if pre[i].fail_count == 0 {
                    let la = pre[i].last_attempt.max(g.torn_at.get(&c.conn_id).copied().unwrap_or(0));
                    if la != 0 && now.saturating_sub(la) >= 30_000 && past_grace {
                        mon.fail("C08", "retry-gap-exceeds-30s", format!("link {} is down, its tear-down / last registration attempt was {} ms ago and this tick makes none (timed_out verdict: {}): a repaired path cannot be connected again within 30 s", c.conn_id, now - la, pre[i].timed_out));
                    }
                } else {
                    let table = [5_000u64, 10_000, 20_000, 40_000, 80_000, 120_000];
                    let need = table[(pre[i].fail_count as usize).min(5)];
                    mon.count("down-with-failure-counter-tick");
                    if pre[i].last_attempt != 0 && now.saturating_sub(pre[i].last_attempt) >= need && past_grace {
                        mon.fail("C08", "backoff-overshoot", format!("link {} is down with {} recorded re-creation failures, its last attempt was {} ms ago (back-off {need}) and this tick makes none", c.conn_id, pre[i].fail_count, now - pre[i].last_attempt));
                    }
                }
            }
            // retries forever: a timed-out link whose last attempt is >= 120 s old must retry now
            if kind == Kind::Hk && pre[i].timed_out && !attempt {
                let la = pre[i].last_attempt;
                let past_grace = pre[i].established != 0 || now > w.links[i].reconnection.startup_grace_deadline_ms;
                if la != 0 && now.saturating_sub(la) >= 120_000 && past_grace {
                    mon.fail("C08", "retry-missing", format!("link {} timed out, last attempt {} ms ago, no retry", c.conn_id, now - la));
                }
            }
            // clean rejoin on REG3
            if kind == Kind::Uplink && !pre[i].connected && c.connected {
                mon.count("reg3-connected");
                if g.reload_new_ids.contains(&c.conn_id) {
                    mon.count("reload-new-uplink-registered");
                }
                let clean = c.in_flight_packets == 0 && matches!(c.phase, LinkPhase::Warming { .. }) && c.verif_packet_log().is_empty() && c.batch_sender.queued_count() == 0;
                let injected = g.win_injected.remove(&c.conn_id);
                if !clean || (pre[i].established != 0 && c.window != 20000 && !injected) {
                    mon.fail("C08", "unclean-rejoin", format!("link {} connected with window {} in_flight {} phase {}", c.conn_id, c.window, c.in_flight_packets, show_phase(&c.phase)));
                }
            }
        }

        // ---------- lost-ok bookkeeping: queued before, not on wire now, not queued after
        for i in 0..n.min(pre.len()) {
            if w.links[i].conn_id != pre_ids[i] {
                continue;
            }
            let after: Vec<Vec<u8>> = w.links[i].batch_sender.verif_queue().into_iter().map(|(d, _, _)| d).collect();
            for d in &pre[i].queue {
                let on_wire = wire.iter().any(|(id, x)| *id == pre_ids[i] && x == d);
                if !on_wire && !after.contains(d) {
                    if let Some(t) = g.tag_of.get(d) {
                        let failed = consumed_fail.contains(&pre_ids[i]);
                        if reset[i] || failed {
                            g.lost_ok.insert(*t);
                            mon.count("lost-by-reset-or-failed-send");
                        } else {
                            mon.fail("C01", "queue-discarded", format!("link {}: queued datagram #{t} disappeared without reset or send failure ({})", pre_ids[i], &op[..op.len().min(60)]));
                        }
                    }
                }
            }
            if w.links[i].batch_sender.queued_count() >= 32 {
                mon.fail("C01", "held>=32", format!("link {} holds {} datagrams", pre_ids[i], w.links[i].batch_sender.queued_count()));
            }
            if kind == Kind::Flush && w.links[i].batch_sender.queued_count() != 0 {
                mon.fail("C01", "flush-left-queue", format!("link {} still holds {} datagrams after a flush tick", pre_ids[i], w.links[i].batch_sender.queued_count()));
            }
        }

        match kind {
            Kind::Client => {
                let data = parse_hex(toks[2]).unwrap_or_default();
                mon.count(match data.len() {
                    0 => "client-len-0",
                    1..=3 => "client-len-1..3",
                    4..=7 => "client-len-4..7",
                    8..=23 => "client-len-8..23",
                    24..=1316 => "client-len-24..1316",
                    _ => "client-len-1317..1500",
                });
                if data.is_empty() {
                    return;
                }
                g.client_seen = true;
                let tag = g.accepted.len();
                g.accepted.push(data.clone());
                g.tag_of.insert(data.clone(), tag);
                if !pre_has_connected {
                    g.pre_est_tags.insert(tag);
                }
                let is_data = get_srt_sequence_number(&data).is_some();
                if let Some(sq) = get_srt_sequence_number(&data) {
                    // ghost for the reload monitors (C05): the numbers the shell was handed lately
                    g.tracked.retain(|(x, _)| *x != sq);
                    g.tracked.push((sq, now));
                    if g.tracked.len() > 512 {
                        g.tracked.remove(0);
                    }
                }
                // where did it go: on the wire in this op, or in some queue now
                let mut holders: Vec<usize> = Vec::new();
                for (i, c) in w.links.iter().enumerate() {
                    let on_wire = wire.iter().any(|(id, x)| *id == c.conn_id && *x == data);
                    let queued = c.batch_sender.verif_queue().iter().any(|(d, _, _)| *d == data);
                    if on_wire {
                        let v = g.wire_tags.entry(c.conn_id).or_default();
                        if v.last().is_some_and(|l| *l >= tag) {
                            mon.fail("C01", "order", format!("link {}: datagram #{tag} after #{}", c.conn_id, v.last().unwrap()));
                        }
                        v.push(tag);
                        mon.count("wire-data");
                    }
                    if on_wire || queued {
                        holders.push(i);
                    }
                }
                // a failed threshold flush discards the batch that contained the new datagram
                let failed_here: Vec<usize> = (0..n).filter(|i| consumed_fail.contains(&w.links[*i].conn_id)).collect();
                for (id, x) in wire {
                    if g.tag_of.get(x).is_none() && get_packet_type(x) != Some(SRTLA_TYPE_KEEPALIVE) {
                        mon.fail("C01", "corrupted", format!("link {id}: unknown datagram on the wire during client op"));
                    }
                }
                if !pre_has_connected {
                    mon.count("pre-registration-forward");
                    if holders.is_empty() {
                        if failed_here.is_empty() {
                            g.dropped.insert(tag);
                        } else {
                            g.lost_ok.insert(tag);
                        }
                    }
                    return;
                }
                if is_data {
                    g.routed_data += u64::from(!holders.is_empty() || !failed_here.is_empty());
                }
                // C12: with the stall guard off EVERY routing decision leaves every stall flag and latch cleared
                if !cfg.stall_deselect {
                    mon.count("decision-with-guard-off");
                    for c in w.links.iter() {
                        let p = c.verif_private();
                        if p.stall_gated || p.stall_latched_since_ms != 0 || p.stall_recovery_since_ms != 0 || p.silence_pulled {
                            mon.fail("C12", "sys-off-not-cleared", format!("guard off, yet after routing datagram #{tag} link {} has stall_gated={} latched_since={} recovery_since={} silence_pulled={}", c.conn_id, p.stall_gated, p.stall_latched_since_ms, p.stall_recovery_since_ms, p.silence_pulled));
                        }
                    }
                }
                let any_usable = pre.iter().enumerate().any(|(i, _)| {
                    // usable under the configured timeout (select refreshes it before deciding)
                    let c = &w.links[i];
                    pre[i].connected && !pre[i].phase_reg && {
                        let lr = c.last_received;
                        // evaluate on the pre-state: last_received is not changed by a client op unless reset
                        let _ = lr;
                        !timed_out_with(&pre[i], c, now, cfg.conn_timeout_ms, reset[i])
                    }
                });
                if holders.is_empty() {
                    if failed_here.is_empty() {
                        g.dropped.insert(tag);
                        mon.count("dropped-no-link");
                        if any_usable {
                            mon.fail("C01", "dropped-with-usable", format!("datagram #{tag} dropped although a usable link exists ({})", &op[..op.len().min(40)]));
                            mon.fail("C03", "sys-blackout", format!("datagram #{tag} dropped although a usable link exists"));
                        }
                    } else {
                        g.lost_ok.insert(tag);
                    }
                    return;
                }
                // unique copy = the link the shell recorded as last selected
                let uniq = w.last_selected;
                match uniq {
                    Some(u) if holders.contains(&u) || failed_here.contains(&u) => {
                        let c = &w.links[u];
                        if let Some(fg) = g.fresh_gate.take() {
                            mon.count("fresh-gate-judged");
                            if !reset[u] && fg.get(u).copied().unwrap_or(false) {
                                mon.fail("C04", "sys-routed-to-link-gated-at-that-instant", format!("datagram #{tag} routed to link {}: a gate pass made at that instant on a copy of the pre-state (select_connection_idx at {now}) marks the link stall-gated; the flags the shell routed by: gated={} latched_since={} pulled={}", c.conn_id, c.stall_gated, c.verif_private().stall_latched_since_ms, c.verif_private().silence_pulled));
                            }
                        }
                        if !reset[u] && (!c.is_schedulable() || c.is_timed_out(now) || c.stall_gated || !c.connected) {
                            mon.fail("C04", "sys-ineligible-route", format!("datagram #{tag} routed to link {} (schedulable={} timed_out={} gated={} connected={})", c.conn_id, c.is_schedulable(), c.is_timed_out(now), c.stall_gated, c.connected));
                        }
                        // "not timed out" judged by what the harness actually delivered, not by the implementation's
                        // own predicate: nothing has arrived on the chosen uplink for longer than every timeout
                        // configured so far
                        if !reset[u] {
                            if let Some(h) = g.heard_at.get(&c.conn_id) {
                                if now.saturating_sub(*h) > g.max_cto {
                                    mon.fail("C04", "sys-routed-to-silent-link", format!("datagram #{tag} routed to link {} at {now} although nothing has arrived on that uplink since {h} ({} ms > every configured timeout <= {} ms); the link reports timed_out={}", c.conn_id, now - h, g.max_cto, c.is_timed_out(now)));
                                } else {
                                    mon.count("routed-to-recently-heard-link");
                                }
                            }
                        }
                        // C10: classic mode, guard off = the reference algorithm
                        if cfg.mode.is_classic() && !cfg.stall_deselect {
                            let mut best: Option<usize> = None;
                            let mut best_score: i64 = -1;
                            for (i, p) in pre.iter().enumerate() {
                                if p.phase_reg || timed_out_with(p, &w.links[i], now, cfg.conn_timeout_ms, reset[i]) {
                                    continue;
                                }
                                if p.score_ref > best_score {
                                    best_score = p.score_ref;
                                    best = Some(i);
                                }
                            }
                            mon.count("classic-reference-decision");
                            if best != Some(u) {
                                mon.fail("C10", "classic-choice", format!("classic mode chose link index {u}, reference window/(in_flight+queued+1) chooses {best:?} ({})", &op[..op.len().min(40)]));
                            }
                        }
                    }
                    _ => {
                        mon.fail("C01", "unique-copy-missing", format!("datagram #{tag} is held by links {holders:?} but last_selected is {uniq:?}"));
                        // C11: "the previously selected uplink" (the hysteresis reference of the next decision) is
                        // the uplink that carried the previous datagram, whatever kind of datagram it was
                        if !cfg.mode.is_classic() {
                            mon.fail("C11", "anchor-not-on-carrier", format!("datagram #{tag} ({}) went to link index {holders:?} but the shell remembers {uniq:?} as previously selected", if is_data { "data" } else { "control" }));
                        }
                    }
                }
                // C05: the tracker remembers the link that carries the UNIQUE copy (never a probe link)
                if let (Some(u), Some(sq)) = (uniq, get_srt_sequence_number(&data))
                    && (holders.contains(&u) || failed_here.contains(&u))
                {
                    let got = w.trk.get(sq, now);
                    if got != Some(w.links[u].conn_id) {
                        mon.fail("C05", "sys-tracker-carrier", format!("data packet {sq} was routed to link {} (unique copy) but the tracker remembers {got:?}", w.links[u].conn_id));
                        if cfg.mode.is_classic() {
                            // the -100 of a NAK goes to the remembered carrier: a wrong memory moves the wrong window
                            mon.fail("C10", "sys-tracker-carrier", format!("classic mode: data packet {sq} (retransmit flag {}) was routed to link {} but the tracker remembers {got:?}: a NAK for it is charged elsewhere or nowhere", is_srt_data_retransmit(&data), w.links[u].conn_id));
                        }
                    } else {
                        mon.count("tracker-remembers-unique-carrier");
                    }
                }
                // extra copies only on stall-gated, connected links (probes)
                for h in &holders {
                    if Some(*h) != uniq {
                        let c = &w.links[*h];
                        *g.probes.entry(c.conn_id).or_insert(0) += 1;
                        mon.count("probe-copy");
                        if !reset[*h] && !(c.stall_gated && c.connected) {
                            mon.fail("C01", "copy-on-ungated-link", format!("datagram #{tag} duplicated on link {} which is not stall-gated", c.conn_id));
                        }
                        if !is_data {
                            mon.fail("C01", "control-duplicated", format!("control datagram #{tag} duplicated"));
                        }
                        let p = g.probes[&c.conn_id];
                        if p * 100 > g.routed_data {
                            mon.fail("C01", "probe-rate", format!("link {}: {p} duplicates for {} routed data packets", c.conn_id, g.routed_data));
                        }
                    }
                }
            }
            Kind::Uplink => {
                let Some(cid) = toks[2].parse::<u64>().ok() else { return };
                let data = parse_hex(toks[3]).unwrap_or_default();
                let Some(i) = w.links.iter().position(|c| c.conn_id == cid) else { return };
                if data.len() >= 2 {
                    g.heard_at.insert(cid, now);
                    let pt = get_packet_type(&data).unwrap();
                    if !is_registration(pt) || pt == SRTLA_TYPE_REG3 {
                        g.live_at.insert(cid, now);
                    }
                    // "once a client address is known": the shell has received a non-empty datagram from the
                    // client (ghost), whatever became of that datagram
                    if g.client_seen != pre_client_known {
                        mon.fail("C09", "client-address-not-learned", format!("a client datagram has {}been received but the shell's client address is {}", if g.client_seen { "" } else { "not " }, if pre_client_known { "set" } else { "unset" }));
                    }
                    let pre_client_known = g.client_seen;
                    if pre_client_known {
                        if is_internal(pt) {
                            mon.count("uplink-internal");
                            if !client.is_empty() {
                                mon.fail("C09", "internal-delivered", format!("SRTLA-internal datagram type {pt:#x} delivered to the client"));
                            }
                        } else {
                            mon.count("uplink-relayed");
                            if data.len() > 64 {
                                mon.count("uplink-relayed>64bytes");
                            }
                            if data.len() > 1316 {
                                mon.count("uplink-relayed>1316bytes");
                            }
                            mon.nontrivial();
                            if !client.iter().any(|d| *d == data) {
                                mon.fail("C09", "not-relayed", format!("datagram type {pt:#x} ({} bytes) was not delivered unchanged to the client; client got {} datagrams", data.len(), client.len()));
                            }
                            if client.iter().any(|d| *d != data) {
                                mon.fail("C09", "relay-modified", format!("client received a datagram that differs from the one injected"));
                            }
                        }
                    } else if !client.is_empty() {
                        mon.fail("C09", "relay-before-client", "datagram delivered before a client address is known".into());
                    }
                    let c = &w.links[i];
                    if !is_registration(pt) && c.last_received != Some(now) {
                        mon.fail("C09", "liveness-not-stamped", format!("non-registration datagram did not refresh last_received (is {:?}, now {now})", c.last_received));
                    }
                    // proof stamps
                    for (j, c) in w.links.iter().enumerate() {
                        if j < pre.len() && c.last_ack_or_rtt_sample_ms != pre[j].proof && !reset[j] {
                            // "an SRTLA ACK this link EARNED": replayed entry by entry on a ghost of the packet logs - a
                            // number is credited to the arrival link if that link holds it, otherwise to the first other
                            // holder in index order, and to nobody else (a duplicate-probe copy in a latched link's log
                            // earns nothing while the carrier still holds the number)
                            let earned = pt == SRTLA_TYPE_ACK && {
                                let nl = w.links.len().min(pre.len());
                                let mut logs: Vec<Vec<i32>> = pre.iter().map(|p| p.log.clone()).collect();
                                let mut credited = false;
                                for sq in parse_srtla_ack(&data) {
                                    let si = sq as i32;
                                    let h = if logs[i].contains(&si) { Some(i) } else { (0..nl).find(|k| *k != i && logs[*k].contains(&si)) };
                                    if let Some(h) = h {
                                        logs[h].retain(|x| *x != si);
                                        if h == j {
                                            credited = true;
                                        }
                                    }
                                }
                                credited
                            };
                            let echoed = pt == SRTLA_TYPE_KEEPALIVE && j == i && pre[j].waiting && {
                                let ts = extract_keepalive_timestamp(&data);
                                ts.is_some_and(|ts| now.saturating_sub(ts) > 0 && now.saturating_sub(ts) <= 10_000)
                            };
                            if !(earned || echoed) {
                                mon.fail("C09", "proof-without-cause", format!("link {} delivery proof {} -> {} without an earned SRTLA ACK or an answered keepalive (type {pt:#x})", c.conn_id, pre[j].proof, c.last_ack_or_rtt_sample_ms));
                                // C13: the latch's release condition reads this stamp: anything else that refreshes
                                // it (a cumulative ACK carried by another link, a draining backlog) can un-latch a blind link
                                mon.fail("C13", "proof-without-cause", format!("link {} delivery proof {} -> {} by a datagram of type {pt:#x} arriving on link {}: neither an SRTLA ACK this link earned nor an answered keepalive on it", c.conn_id, pre[j].proof, c.last_ack_or_rtt_sample_ms, w.links[i].conn_id));
                            }
                            mon.count("proof-stamped");
                        }
                    }
                    // C02: a cumulative SRT ACK retires every number at or below it ON EVERY LINK, whichever link it
                    // arrives on and whatever ACKs came before (a duplicate ACK after a re-send must still sweep the
                    // link that carried the re-send). The number is read from the datagram bytes.
                    if pt == SRT_TYPE_ACK && data.len() >= 20 && !reset.iter().any(|r| *r) {
                        let a = u32::from_be_bytes([data[16], data[17], data[18], data[19]]);
                        if a <= 0x7fff_ffff {
                            mon.count("srt-ack-datagram");
                            for (j, c) in w.links.iter().enumerate() {
                                let left: Vec<i32> = c.verif_packet_log().iter().map(|(s, _)| *s).filter(|s| *s >= 0 && *s <= a as i32).collect();
                                if !left.is_empty() {
                                    mon.fail("C02", "sys-cumack-left-older", format!("link {} still has {:?} outstanding after a cumulative SRT ACK at {a} arrived on link {} (pre: this link held {:?})", c.conn_id, &left[..left.len().min(8)], w.links[i].conn_id, pre.get(j).map(|p| p.log.iter().filter(|s| **s <= a as i32).take(8).collect::<Vec<_>>())));
                                }
                            }
                        }
                    }
                    // C10 / C06 window rules over ONE SRTLA ACK datagram, replayed entry by entry on a ghost:
                    // +29 on the link that held the number (arrival link first) only while its remaining
                    // in-flight x 1000 exceeds its window, +1 on every connected link that has heard
                    // anything per acknowledged number, cap 60000
                    if pt == SRTLA_TYPE_ACK && !reset.iter().any(|r| *r) {
                        let list = parse_srtla_ack(&data);
                        let nl = w.links.len().min(pre.len());
                        let mut gw: Vec<i32> = pre.iter().map(|p| p.window).collect();
                        let mut hw = gw.clone(); // as if the +1s were credited after the whole datagram
                        let mut logs: Vec<Vec<i32>> = pre.iter().map(|p| p.log.clone()).collect();
                        let mut straddled = false;
                        for (k, sq) in list.iter().enumerate() {
                            let si = *sq as i32;
                            let h = if logs[i].contains(&si) { Some(i) } else { (0..nl).find(|j| *j != i && logs[*j].contains(&si)) };
                            if let Some(h) = h {
                                logs[h].retain(|x| *x != si);
                                let inf_after = logs[h].len() as i32;
                                let earn = inf_after.saturating_mul(1000) > gw[h];
                                let earn_h = inf_after.saturating_mul(1000) > hw[h];
                                if k >= 1 && earn != earn_h {
                                    straddled = true;
                                }
                                if earn {
                                    gw[h] = (gw[h] + 29).min(60000);
                                }
                                if earn_h {
                                    hw[h] = (hw[h] + 29).min(60000);
                                }
                            }
                            for j in 0..nl {
                                if pre[j].connected && w.links[j].last_received.is_some() {
                                    gw[j] = (gw[j] + 1).min(60000);
                                }
                            }
                        }
                        if list.len() >= 2 {
                            mon.count("sack-multi-entry-datagram");
                        }
                        if straddled {
                            mon.count("ack-threshold-straddled");
                        }
                        // C15 at the point of consumption (and C02): every number the frame lists - one per
                        // 4 payload bytes, 0 included - is retired from the log that held it; nothing else is
                        for j in 0..nl {
                            let mut got: Vec<i32> = w.links[j].verif_packet_log().iter().map(|(s, _)| *s).collect();
                            let mut want = logs[j].clone();
                            got.sort_unstable();
                            want.sort_unstable();
                            if got != want {
                                let what = format!("link {}: after an SRTLA ACK datagram listing {:?} (arrival link {}) the packet log holds {:?}; retiring exactly the listed numbers gives {:?}", w.links[j].conn_id, &list[..list.len().min(12)], w.links[i].conn_id, &got[..got.len().min(12)], &want[..want.len().min(12)]);
                                mon.fail("C15", "ack-frame-entry-not-consumed", what.clone());
                                mon.fail("C02", "ack-frame-entry-not-consumed", what);
                            }
                        }
                        for j in 0..nl {
                            if w.links[j].window != gw[j] {
                                let prop = if cfg.mode.is_classic() { "C10" } else { "C06" };
                                mon.fail(prop, "sys-ack-rule", format!("link {}: window {} -> {} on an SRTLA ACK datagram of {} entries arriving on link {}, the reference rules give {}", w.links[j].conn_id, pre[j].window, w.links[j].window, list.len(), w.links[i].conn_id, gw[j]));
                            }
                        }
                    }
                    // C14: RTT sample from a keepalive only while a probe is outstanding and 0 < rtt <= 10 s
                    let c = &w.links[i];
                    if pt == SRTLA_TYPE_KEEPALIVE {
                        let sampled = c.rtt.last_rtt_measurement_ms == now && (pre[i].lrm != now || c.last_ack_or_rtt_sample_ms == now && pre[i].proof != now);
                        if sampled && c.last_ack_or_rtt_sample_ms == now && pre[i].proof != now {
                            mon.count("keepalive-sample");
                            let ts = extract_keepalive_timestamp(&data);
                            let ok = pre[i].waiting && ts.is_some_and(|ts| now.saturating_sub(ts) > 0 && now.saturating_sub(ts) <= 10_000);
                            if !ok {
                                mon.fail("C14", "sample-without-probe", format!("keepalive RTT sample taken: waiting={} ts={ts:?} now={now}", pre[i].waiting));
                            }
                            // ghost: the probe must have been armed by a keepalive sent since the link's last reset
                            if !g.probe_armed.remove(&cid) {
                                mon.fail("C14", "sample-after-reset", format!("link {cid}: a keepalive RTT sample was taken at {now} (echo ts {ts:?}) although no keepalive has armed a probe since the link's last reset: the echo of a keepalive from BEFORE the reset was sampled"));
                            } else {
                                mon.count("keepalive-sample-on-armed-probe");
                            }
                        }
                        if c.rtt.waiting_for_keepalive_response && pre[i].waiting {
                            mon.fail("C14", "waiting-not-cleared", "a keepalive-typed reply left the waiting flag set".into());
                        }
                    }
                }
                for c in &w.links {
                    let s = c.get_smooth_rtt_ms();
                    if !s.is_finite() || s < 0.0 {
                        mon.fail("C14", "smooth-rtt-invalid", format!("link {} smoothed RTT {s}", c.conn_id));
                    }
                }
            }
            Kind::Hk => {
                if let Some(t) = g.last_hk {
                    mon.count(match now.saturating_sub(t) {
                        0..=999 => "hk-gap<1000",
                        1000 => "hk-gap=1000",
                        1001..=1999 => "hk-gap-1001..1999",
                        _ => "hk-gap>=2000",
                    });
                }
                g.last_hk = Some(now);
                let classic = cfg.mode.is_classic();
                for i in 0..n.min(pre.len()) {
                    let c = &w.links[i];
                    if c.conn_id != pre_ids[i] {
                        continue;
                    }
                    // C14 frames on the wire this tick
                    let kas: Vec<&Vec<u8>> = wire.iter().filter(|(id, d)| *id == c.conn_id && get_packet_type(d) == Some(SRTLA_TYPE_KEEPALIVE)).map(|(_, d)| d).collect();
                    for ka in &kas {
                        mon.count("keepalive-sent");
                        let info = extract_keepalive_conn_info(ka);
                        let ok = ka.len() == 38
                            && ka[..10] == create_keepalive_packet(now)
                            && info.is_some_and(|f| {
                                f.conn_id == c.conn_id as u32
                                    && f.window == pre[i].window
                                    && f.in_flight == pre[i].in_flight
                                    && f.nak_count == pre[i].nak as u32
                                    && f.bitrate_bytes_per_sec == (pre[i].bitrate / 8.0) as u32
                            });
                        if !ok {
                            mon.fail("C14", "keepalive-frame", format!("link {}: keepalive {} does not carry now={now} / window {} / in-flight {} / naks {} / rate {}", c.conn_id, to_hex(ka), pre[i].window, pre[i].in_flight, pre[i].nak, (pre[i].bitrate / 8.0) as u32));
                        }
                    }
                    if kas.len() > 2 {
                        mon.fail("C14", "keepalive-flood", format!("{} keepalives in one tick", kas.len()));
                    }
                    // cadence: a link connected and not timed out at this tick has a keepalive no older than one period
                    if pre[i].connected && !pre[i].timed_out {
                        let lka = c.verif_last_keepalive_sent();
                        if !lka.is_some_and(|t| now.saturating_sub(t) < 1000) {
                            mon.fail("C14", "keepalive-missing", format!("link {} connected and live at tick {now} but last keepalive is {lka:?}", c.conn_id));
                        }
                        if lka == Some(now) && pre[i].lka != Some(now) && kas.is_empty() && !Self::is_dead(w, c.conn_id) {
                            mon.fail("C14", "keepalive-not-on-wire", format!("link {} stamped a keepalive at {now} but none reached the wire", c.conn_id));
                        }
                    } else if !kas.is_empty() && pre[i].timed_out {
                        mon.fail("C04", "keepalive-on-timed-out", format!("link {} timed out but got a keepalive", c.conn_id));
                    }
                    // C10 / C06: classic mode never applies time-based recovery
                    if classic && !reset[i] && c.window != pre[i].window {
                        mon.fail("C10", "classic-recovery", format!("classic mode: housekeeping moved window of link {} {} -> {}", c.conn_id, pre[i].window, c.window));
                        mon.fail("C06", "classic-recovery", format!("classic mode: housekeeping moved window of link {} {} -> {}", c.conn_id, pre[i].window, c.window));
                    }
                    if !classic && !reset[i] && (c.window < pre[i].window || c.window > 60000) {
                        mon.fail("C06", "recovery-decreased-window", format!("housekeeping moved window of link {} {} -> {}", c.conn_id, pre[i].window, c.window));
                    }
                }
            }
            _ => {}
        }
    }
}

/// `is_timed_out` of the pre-state under the configured timeout (the selection pass refreshes the
/// per-link copy before deciding).
fn timed_out_with(p: &Pre, c: &SrtlaConnection, now: u64, cto: u64, was_reset: bool) -> bool {
    if was_reset {
        return p.timed_out;
    }
    // last_received / grace are unchanged by a client op on a link that was not reset
    if !p.connected {
        if p.established == 0 && now < c.reconnection.startup_grace_deadline_ms {
            return false;
        }
        // a link that is not registered is due for (re-)registration whatever it has heard
        return true;
    }
    c.last_received.is_some_and(|lr| now.saturating_sub(lr) >= cto)
}

// ------------------------------------------------------------------------------------------ generator

fn data_packet(seq: u32, retx: bool, len: usize, counter: u64, rng: &mut Rng) -> Vec<u8> {
    let len = len.max(24);
    let mut b = rng.bytes(len);
    b[..4].copy_from_slice(&(seq & 0x7fff_ffff).to_be_bytes());
    b[4] = if retx { b[4] | 0x04 } else { b[4] & !0x04 };
    b[8..16].copy_from_slice(&counter.to_be_bytes());
    b
}

fn control_packet(ty: u16, len: usize, counter: u64, rng: &mut Rng) -> Vec<u8> {
    let len = len.max(24);
    let mut b = rng.bytes(len);
    b[..2].copy_from_slice(&ty.to_be_bytes());
    b[8..16].copy_from_slice(&counter.to_be_bytes());
    b
}

/// Type codes a client datagram may carry besides plain data: every SRT control type, the
/// all-ones code and the SRTLA codes (the uplink path must forward them like anything else).
const CLIENT_TYPES: [u16; 18] = [
    0x8000, 0x8001, 0x8002, 0x8003, 0x8004, 0x8005, 0x8006, 0x8007, 0x8008, 0xfffe, 0xffff, 0x9000, 0x9100, 0x9200,
    0x9201, 0x9202, 0x9210, 0x9211,
];

/// Return-path type sweep: the SRT control page, the neighbours of every SRTLA code, the
/// top-bit / zero / all-ones boundaries (none of them a registration reply).
const UPLINK_SWEEP_TYPES: [u16; 24] = [
    0x8000, 0x8001, 0x8002, 0x8003, 0x8004, 0x8005, 0x8006, 0x8007, 0x8fff, 0x9000, 0x9001, 0x90ff, 0x9100, 0x9101,
    0x91ff, 0x9200, 0x9203, 0x920f, 0x9212, 0x9213, 0x0000, 0x7fff, 0xfffe, 0xffff,
];

/// A client datagram of exactly `len >= 1` bytes: SRT data carrying `seq` (top bit clear) when
/// `seq` is given, else a datagram whose first two bytes are `ty`. Datagrams of 16 bytes and more
/// carry the unique payload counter at 8..16; shorter ones are made unique by the caller.
fn sized_client(rng: &mut Rng, len: usize, seq: Option<u32>, ty: u16, retx: bool, counter: u64) -> Vec<u8> {
    let mut b = rng.bytes(len);
    match seq {
        Some(sq) => {
            let h = (sq & 0x7fff_ffff).to_be_bytes();
            for i in 0..len.min(4) {
                b[i] = h[i];
            }
            if len > 4 {
                b[4] = if retx { b[4] | 0x04 } else { b[4] & !0x04 };
            }
        }
        None => {
            let h = ty.to_be_bytes();
            for i in 0..len.min(2) {
                b[i] = h[i];
            }
        }
    }
    if len >= 16 {
        b[8..16].copy_from_slice(&counter.to_be_bytes());
    }
    b
}

/// One length out of every client size class: 1..3 (no sequence number), 4..7 (sequence number, no
/// flag byte), 8..23 (retransmit flag readable, shorter than every generator so far), 24..1316, 1317..1500.
fn client_len_class(rng: &mut Rng) -> usize {
    match rng.below(5) {
        0 => rng.range(1, 3) as usize,
        1 => rng.range(4, 7) as usize,
        2 => rng.range(8, 23) as usize,
        3 => *rng.pick(&[24usize, 25, 187, 1315, 1316]),
        _ => *rng.pick(&[1317usize, 1400, 1472, 1499, 1500]),
    }
}

/// A send-failure injection for an uplink that exists: two in three fail before anything is sent (`failnext`), one in
/// three fails PART-WAY through the batch (`failafter <id> <k>`: the first min(k, len) datagrams go out first), k on
/// the boundaries of the three batch sizes 4 / 16 / 32 - inside the batch (1, 2, 3, size - 1) and at / past its end
/// (size, size + 1, 40: the whole batch is on the wire and the send still reports a failure).
fn send_failure_op(rng: &mut Rng, id: u64) -> String {
    if rng.chance(1, 3) {
        let size = *rng.pick(&[4u64, 16, 32]);
        let k = *rng.pick(&[1, 2, 3, size - 1, size, size + 1, 40]);
        format!("failafter {id} {k}")
    } else {
        format!("failnext {id}")
    }
}

/// Random bind-failure injections per link in the data phase of a case (the dedicated scenario
/// below injects its own 1..3, in some cases 6..7, consecutive failures). Every failed socket
/// re-creation of an established link doubles its reconnect back-off: 10 s, 20 s, 40 s, 80 s, 120 s.
const BINDFAIL_BUDGET: u32 = 3;

fn gen_case(rng: &mut Rng, tier: Tier, idx: usize) -> Vec<String> {
    // special scenarios reaching code the scripted-random histories rarely or never reach
    // (found by an LLVM coverage run of the real code under this harness, see DESIGN.md section 11)
    if idx == 41 && matches!(std::env::var("VERIF_PROP").as_deref(), Ok("C06") | Ok("C10") | Err(_)) {
        // whole-loop scenario (real time, ~8 s): runtime mode switch, then no time-based recovery
        return vec!["liveloop modeswitch".to_string()];
    }
    if idx % 40 == 33 && matches!(std::env::var("VERIF_PROP").as_deref(), Ok("C01") | Err(_)) {
        // the I/O half of a flush under real back-pressure (short sendmmsg)
        return vec![format!("shortsend {} {}", rng.pick(&[16usize, 32, 40, 3, 64]), rng.pick(&[1316usize, 1316, 188, 1500, 64]))];
    }
    if idx % 40 == 13 && matches!(std::env::var("VERIF_PROP").as_deref(), Ok("C14") | Err(_)) {
        // keepalive cadence when the link's socket is momentarily full at the housekeeping instant
        let n = rng.range(4, 9);
        let plan: String = (0..n).map(|k| if k > 0 && rng.chance(3, 5) { '1' } else { '0' }).collect();
        return vec![format!("kapressure {plan}")];
    }
    if idx % 29 == 11 {
        return gen_long_rtt_history(rng);
    }
    if idx % 37 == 19 {
        return gen_never_connects(rng);
    }
    if idx % 41 == 23 {
        return gen_dead_socket(rng);
    }
    if idx % 43 == 29 {
        return gen_idle_session_timeout(rng);
    }
    if idx % 16 == 5 {
        // the whole housekeeping arm under lopsided traffic shares (verdicts change: weak / probation / back-off)
        return gen_lopsided(rng);
    }
    if idx % 8 == 6 {
        // uplink-set reloads (SIGHUP) in a running session; tested AFTER the special scenarios above, so it takes
        // no index from them (within the first 120 cases none of theirs is 6 mod 8 anyway)
        return gen_reload(rng, tier);
    }
    let n = rng.range(1, 4) as usize;
    let seed = rng.below(1 << 30);
    let mut now: u64 = rng.time_base(1_000_000, 500_000);
    let mut ops = vec![format!("init {n} {seed} {now}")];
    let id = id_from_seed(seed, 0);
    // the receiver answers REG1 with a REG2 carrying the full group id (first 128 bytes ours)
    let mut group_id = id;
    for b in group_id[128..].iter_mut() {
        *b = b.wrapping_add(17);
    }
    let cfg_line = |rng: &mut Rng| -> String {
        format!(
            "cfg classic={} quality={} stall={} minif={} ceil={} cto={}",
            if rng.chance(1, 3) { 1 } else { 0 },
            rng.below(2),
            if rng.chance(3, 4) { 1 } else { 0 },
            rng.pick(&[32i32, 32, 4, 1]),
            rng.pick(&[3000u64, 3000, 1000, 500]),
            rng.pick(&[5000u64, 5000, 5000, 2000, 10000, 60000, 30000, 1000])
        )
    };
    if rng.chance(2, 3) {
        ops.push(cfg_line(rng));
    }
    let hexs = |b: &[u8]| to_hex(b);
    let reg_pkt = |ty: u16, id: &[u8]| -> Vec<u8> {
        let mut v = ty.to_be_bytes().to_vec();
        v.extend_from_slice(id);
        v
    };
    // ---------------- handshake
    let probing = rng.chance(1, 3);
    if probing {
        ops.push(format!("probe {now}"));
        for i in 0..n {
            if rng.chance(4, 5) {
                now += rng.below(80);
                ops.push(format!("uplink {now} {} {}", i + 1, hexs(&SRTLA_TYPE_REG_NGP.to_be_bytes())));
            }
        }
        now += rng.range(0, 2100);
        ops.push(format!("hk {now}"));
    }
    if idx % 7 == 3 {
        // some cases send data before registration completes (pre-registration forwarding)
        for k in 0..rng.range(1, 5) {
            now += rng.below(10);
            ops.push(format!("client {now} {}", hexs(&data_packet(1000 + k as u32, false, 32, 9_000_000 + k, rng))));
        }
        ops.push(format!("flush {now}"));
        // the receiver reports one of them lost (moves the window of the still unregistered link), then
        // rejects the link: a tear-down of a link that was never registered
        if rng.chance(2, 3) {
            now += rng.below(20);
            let lnk = rng.range(1, n as u64);
            let mut nak = vec![0x80, 0x03, 0, 0];
            nak.extend_from_slice(&1000u32.to_be_bytes());
            for j in 1..=n as u64 {
                if j == lnk || rng.chance(1, 2) {
                    ops.push(format!("uplink {now} {j} {}", hexs(&nak)));
                }
            }
            if rng.chance(2, 3) {
                now += rng.below(20);
                for j in 1..=n as u64 {
                    if rng.chance(2, 3) {
                        ops.push(format!("uplink {now} {j} {}", hexs(&SRTLA_TYPE_REG_ERR.to_be_bytes())));
                    }
                }
            }
        }
    }
    let first = rng.below(n as u64) as usize;
    now += rng.below(50);
    ops.push(format!("uplink {now} {} {}", first + 1, hexs(&SRTLA_TYPE_REG_NGP.to_be_bytes())));
    if rng.chance(1, 6) {
        // lost REG2: wait out the 4 s deadline, then a fresh NGP
        now += 4000 + rng.below(300);
        ops.push(format!("hk {now}"));
        now += rng.below(50);
        ops.push(format!("uplink {now} {} {}", first + 1, hexs(&SRTLA_TYPE_REG_NGP.to_be_bytes())));
    }
    if rng.chance(1, 6) && n > 1 {
        // REG2 from the wrong link / short REG2 first
        now += rng.below(20);
        let other = (first + 1) % n;
        ops.push(format!("uplink {now} {} {}", other + 1, hexs(&reg_pkt(SRTLA_TYPE_REG2, &group_id))));
        ops.push(format!("uplink {now} {} {}", first + 1, hexs(&reg_pkt(SRTLA_TYPE_REG2, &group_id[..100]))));
    }
    now += rng.below(60);
    ops.push(format!("uplink {now} {} {}", first + 1, hexs(&reg_pkt(SRTLA_TYPE_REG2, &group_id))));
    now += rng.range(1, 1000);
    ops.push(format!("hk {now}"));
    let mut up: Vec<bool> = vec![false; n];
    for i in 0..n {
        if rng.chance(7, 8) {
            now += rng.below(40);
            ops.push(format!("uplink {now} {} {}", i + 1, hexs(&SRTLA_TYPE_REG3.to_be_bytes())));
            up[i] = true;
        }
    }
    // ---------------- arbitrary starting window vector (C10 / C06): boundaries of every window rule
    const WINDOWS: [i32; 14] = [1000, 1001, 1029, 1100, 2000, 2001, 2100, 11971, 12000, 20000, 30000, 59971, 59999, 60000];
    if rng.chance(1, 2) {
        for i in 0..n {
            if rng.chance(3, 4) {
                let w = if rng.chance(1, 4) { rng.range(1000, 60000) as i32 } else { *rng.pick(&WINDOWS) };
                ops.push(format!("setlink {i} w={w}"));
            }
        }
    }
    // ---------------- straggler outage (C08): a link torn down by REG_ERR hears one late datagram and
    // then nothing; under a long configured timeout it must still keep re-registering
    if idx % 13 == 5 && n >= 2 && up.iter().all(|u| *u) {
        ops.push(format!(
            "cfg classic={} quality=1 stall=1 minif=32 ceil=3000 cto={}",
            rng.below(2),
            rng.pick(&[60000u64, 60000, 45000, 30000])
        ));
        now += rng.below(20);
        // one client datagram so that the selection pass refreshes every link's timeout copy
        ops.push(format!("client {now} {}", hexs(&data_packet(77, false, 32, 8_000_000, rng))));
        now += 15;
        ops.push(format!("flush {now}"));
        let j = rng.below(n as u64) as usize;
        now += rng.below(200);
        ops.push(format!("uplink {now} {} {}", j + 1, hexs(&SRTLA_TYPE_REG_ERR.to_be_bytes())));
        let stragglers = rng.range(1, 3);
        for _ in 0..stragglers {
            now += rng.range(20, 400);
            ops.push(format!("uplink {now} {} {}", j + 1, hexs(&create_keepalive_packet(now - 30).to_vec())));
        }
        let ticks = rng.range(33, 46);
        for _ in 0..ticks {
            now += 1000;
            ops.push(format!("hk {now}"));
            for k in 0..n {
                if k != j && rng.chance(9, 10) {
                    ops.push(format!("uplink {} {} {}", now + 5, k + 1, hexs(&create_keepalive_packet(now).to_vec())));
                }
            }
        }
        now += 10;
        ops.push(format!("uplink {now} {} {}", j + 1, hexs(&SRTLA_TYPE_REG3.to_be_bytes())));
    }
    // ---------------- failed socket re-creation (C08): a link is torn down (REG_ERR, or silence past the
    // timeout) and the uplink binder refuses its next 1..3 — every third such case 6..7, so that the
    // 120 s cap is reached — reconnect attempts (`reconnect_uplink` fails -> `mark_for_recovery`, failure
    // counter kept: back-off 10 s, 20 s, 40 s, 80 s, 120 s, 120 s); the survivors keep answering
    // keepalives; once a re-creation succeeds the receiver answers REG3
    let mut bind_budget: Vec<u32> = vec![BINDFAIL_BUDGET; n];
    if idx % 11 == 4 && n >= 2 && up.iter().all(|u| *u) {
        let cto = *rng.pick(&[5000u64, 5000, 2000, 10000]);
        ops.push(format!("cfg classic={} quality=1 stall=1 minif=32 ceil=3000 cto={cto}", rng.below(2)));
        now += rng.below(20);
        ops.push(format!("client {now} {}", hexs(&data_packet(78, false, 32, 8_100_000, rng))));
        now += 15;
        ops.push(format!("flush {now}"));
        let j = rng.below(n as u64) as usize;
        let by_silence = rng.chance(1, 3);
        now += rng.below(200);
        if by_silence {
            // last heard now: the link times out `cto` later
            ops.push(format!("uplink {now} {} {}", j + 1, hexs(&create_keepalive_packet(now.saturating_sub(30)).to_vec())));
        } else {
            ops.push(format!("uplink {now} {} {}", j + 1, hexs(&SRTLA_TYPE_REG_ERR.to_be_bytes())));
        }
        let down_from = if by_silence { now + cto } else { now };
        let k = if idx % 33 == 4 { rng.range(6, 7) as u32 } else { rng.range(1, 3) as u32 };
        let mut failures_left = k;
        let mut fc: u32 = 0; // the failure counter the code holds (established link: +1 per attempt)
        let mut last_attempt: u64 = 0;
        let mut answered = false;
        let late = rng.chance(1, 4);
        let mut tick_no = 0;
        while !answered && tick_no < 600 {
            tick_no += 1;
            now += if late { rng.range(1000, 1100) } else { 1000 };
            let due = now >= down_from && (last_attempt == 0 || now - last_attempt >= (5000u64 << fc.min(5)).min(120_000));
            if due && failures_left > 0 {
                ops.push(format!("failbind {}", j + 1));
            }
            ops.push(format!("hk {now}"));
            for l in 0..n {
                if l != j && rng.chance(9, 10) {
                    ops.push(format!("uplink {} {} {}", now + 5, l + 1, hexs(&create_keepalive_packet(now).to_vec())));
                }
            }
            if due {
                last_attempt = now;
                if failures_left > 0 {
                    failures_left -= 1;
                    fc += 1;
                } else {
                    // the re-created socket carried REG2: the receiver answers
                    ops.push(format!("uplink {} {} {}", now + rng.range(10, 400), j + 1, hexs(&SRTLA_TYPE_REG3.to_be_bytes())));
                    answered = true;
                }
            }
        }
        now += 400;
    }
    // ---------------- data phase
    let steps = match tier {
        Tier::Quick => rng.range(40, 260),
        Tier::Thorough => rng.range(60, 450),
    };
    // housekeeping cadence of this case: the nominal 1000 ms, or ticks 1001..1999 ms apart (late timer)
    let hk_mode = rng.below(3);
    let hk_period = move |rng: &mut Rng| -> u64 {
        match hk_mode {
            0 | 1 => 1000,
            _ => match rng.below(6) {
                0 => 1001,
                1 => 1999,
                2 => 1500,
                3 => 1000,
                _ => rng.range(1001, 1999),
            },
        }
    };
    let mut next_hk = now + hk_period(rng);
    // short client datagrams carry no payload counter: keep them distinct within the case
    let mut used_short: BTreeSet<Vec<u8>> = BTreeSet::new();
    // one return-path type sweep sample per case, somewhere in the data phase
    let sweep_at = rng.range(3, steps.max(4) - 1);
    // initial sequence number: anywhere in the 31-bit space, and now and then exactly 0 (a valid ISN; 0 is
    // also what a zero-filled slot looks like) or a few packets below the top of the space
    let mut seq: u32 = match rng.below(10) {
        0 => 0,
        1 => rng.below(4) as u32,
        _ => (rng.next_u64() as u32) & 0x7fff_0000,
    };
    let mut counter: u64 = 1;
    let mut last_hk = now;
    let mut last_flush = now;
    let mut sent: Vec<u32> = Vec::new();
    let mut ka_times: Vec<u64> = vec![now];
    let mut silent: Vec<bool> = vec![false; n]; // black-holed links get no uplink traffic
    let base_rtt: Vec<u64> = (0..n).map(|_| *rng.pick(&[5u64, 20, 60, 150, 400])).collect();
    let mut needs_rereg: Vec<bool> = up.iter().map(|u| !*u).collect();
    // ---------------- an SRTLA ACK datagram whose +29 test (in-flight x 1000 > window) flips INSIDE the
    // datagram because of the +1 each earlier entry credited (C10 window rules, per-entry order)
    if idx % 10 == 7 && up.iter().all(|u| *u) {
        let classic = if rng.chance(4, 5) { 1 } else { 0 };
        ops.push(format!("cfg classic={classic} quality=0 stall=0 minif=32 ceil=3000 cto=5000"));
        let l = rng.below(n as u64) as usize;
        let mut mine: Vec<u32> = Vec::new(); // in flight on link l
        let mut theirs: Vec<u32> = Vec::new(); // in flight on some other link
        for _round in 0..rng.range(1, 3) {
            if mine.len() > 45 {
                break;
            }
            // steer every packet to link l: 60000 / (in-flight + queued + 1) stays above 1000 / 1
            for j in 0..n {
                ops.push(format!("setlink {j} w={}", if j == l { 60000 } else { 1000 }));
            }
            let npk = rng.range(3, 40.min(55 - mine.len() as u64));
            for _ in 0..npk {
                ops.push(format!("client {now} {}", hexs(&data_packet(seq, false, 24, counter, rng))));
                counter += 1;
                mine.push(seq);
                sent.push(seq);
                seq = (seq + 1) & 0x7fff_ffff;
            }
            now += 15;
            ops.push(format!("flush {now}"));
            if n > 1 && rng.chance(1, 2) {
                let m = (l + 1 + rng.below(n as u64 - 1) as usize) % n;
                ops.push(format!("setlink {l} w=1000"));
                ops.push(format!("setlink {m} w=60000"));
                for _ in 0..rng.range(1, 3) {
                    ops.push(format!("client {now} {}", hexs(&data_packet(seq, false, 24, counter, rng))));
                    counter += 1;
                    theirs.push(seq);
                    sent.push(seq);
                    seq = (seq + 1) & 0x7fff_ffff;
                }
                now += 15;
                ops.push(format!("flush {now}"));
            }
            last_flush = now;
            // entry k (1-based, >= 2) is owned by l; the others by l, by another link, or by nobody
            let m_entries = rng.range(2, 10) as usize;
            let k = rng.range(2, m_entries as u64) as usize;
            let inf = mine.len() as i64;
            let mut list: Vec<u32> = Vec::new();
            let mut a = 0i64; // entries owned by l before position k
            for pos in 1..=m_entries {
                if (pos == k || rng.chance(2, 3)) && !mine.is_empty() {
                    list.push(mine.remove(rng.below(mine.len() as u64) as usize));
                    if pos < k {
                        a += 1;
                    }
                } else if !theirs.is_empty() && rng.chance(1, 2) {
                    list.push(theirs.remove(0));
                } else {
                    list.push(seq.wrapping_add(1000 + rng.below(1000) as u32) & 0x7fff_ffff);
                }
            }
            // in-flight after entry k is removed = inf - a - 1; the a earlier own entries earn +29 + 1
            // each, the other earlier entries credit +1 each: the test flips iff 1 <= d <= k - 1
            let d = if rng.chance(2, 3) { rng.range(1, k as u64 - 1) as i64 } else { rng.below(13) as i64 };
            let w0 = ((inf - a - 1) * 1000 - 29 * a - d).clamp(1000, 60000);
            ops.push(format!("setlink {l} w={w0}"));
            for j in 0..n {
                if j != l {
                    ops.push(format!("setlink {j} w={}", rng.pick(&WINDOWS)));
                }
            }
            now += 1;
            let arrival = if rng.chance(3, 4) { l } else { rng.below(n as u64) as usize };
            ops.push(format!("uplink {now} {} {}", arrival + 1, hexs(&create_ack_packet(&list))));
        }
        while sent.len() > 64 {
            sent.remove(0);
        }
        if rng.chance(1, 2) {
            ops.push(cfg_line(rng));
        }
    }
    // some cases black-hole one link for ~4 s under sustained load so that the stall guard latches,
    // gates it and the 1-in-100 duplicate probes start flowing
    let bh_link = if n >= 2 && idx % 3 == 1 { Some(rng.below(n as u64) as usize) } else { None };
    let bh_start = rng.range(15, 50);
    let mut bh_until: u64 = 0;
    for step in 0..steps {
        if let Some(j) = bh_link {
            if step == bh_start {
                silent[j] = true;
                bh_until = now + 4200;
            }
            if bh_until != 0 && now >= bh_until {
                silent[j] = false;
                needs_rereg[j] = false;
                bh_until = 0;
            }
        }
        let in_bh = bh_until != 0 && now < bh_until;
        now += if in_bh {
            rng.below(40)
        } else {
            match rng.below(10) {
                0 => 0,
                1..=6 => rng.below(8),
                7 => 15,
                8 => rng.below(300),
                _ => rng.below(1200),
            }
        };
        // timers first
        while now >= next_hk {
            last_hk = next_hk;
            next_hk = last_hk + hk_period(rng);
            let t = last_hk;
            // measured-rate swings move the batch regime (4 / 16 / 32) at this tick, possibly while
            // datagrams are still queued
            if rng.chance(2, 5) {
                let j = rng.below(n as u64);
                let br: f64 = *rng.pick(&[100_000.0, 1_000_000.0, 1_000_000.0, 6_000_000.0, 6_000_000.0, 20_000_000.0]);
                ops.push(format!("setlink {j} br={}", br.to_bits()));
            }
            ops.push(format!("hk {t}"));
            ka_times.push(t);
            // the simulated receiver: echoes keepalives on links that are not black-holed and answers
            // re-registrations of links that came back
            for j in 0..n {
                if silent[j] {
                    continue;
                }
                if rng.chance(17, 20) {
                    let rtt = base_rtt[j] + rng.below(10);
                    if t + rtt <= now {
                        ops.push(format!("uplink {} {} {}", t + rtt, j + 1, hexs(&create_keepalive_packet(t).to_vec())));
                    }
                }
                if needs_rereg[j] && rng.chance(7, 10) && t + base_rtt[j] <= now {
                    ops.push(format!("uplink {} {} {}", t + base_rtt[j], j + 1, hexs(&SRTLA_TYPE_REG3.to_be_bytes())));
                    needs_rereg[j] = false;
                }
            }
        }
        if now.saturating_sub(last_flush) >= 15 {
            last_flush = now;
            ops.push(format!("flush {now}"));
        }
        // the guard is switched off at run time while a link is latched and gated; the very next datagrams
        // are must-land ones (retransmit flag / open critical window) - every decision must clear the flags
        if in_bh && now + 2500 > bh_until && rng.chance(1, 8) {
            ops.push(format!("cfg classic=0 quality={} stall=0 minif=32 ceil=3000 cto=5000", rng.below(2)));
            if rng.chance(1, 2) {
                ops.push(format!("crit {}", now + 300));
            }
            for _ in 0..rng.range(1, 3) {
                let retx = rng.chance(2, 3) && !sent.is_empty();
                let sq = if retx { *rng.pick(&sent) } else { seq };
                ops.push(format!("client {now} {}", hexs(&data_packet(sq, retx, 24, counter, rng))));
                counter += 1;
                if !retx {
                    sent.push(seq);
                    seq = (seq + 1) & 0x7fff_ffff;
                }
            }
            if rng.chance(1, 2) {
                ops.push(cfg_line(rng));
            }
        }
        // duplicate probes piling up on a gated link until they reach the batch threshold THEMSELVES
        // (no flush tick in between): a long burst at one instant in the low-activity regime (batch of 4),
        // every 100th data packet is copied to each gated link; now and then that probe flush fails
        if in_bh && now + 1500 > bh_until && rng.chance(1, 6) {
            for j in 0..n {
                ops.push(format!("setlink {j} br={}", 100_000.0f64.to_bits()));
            }
            ops.push(format!("hk {now}"));
            ka_times.push(now);
            let total = rng.range(380, 520);
            let fail_at = if rng.chance(1, 3) { rng.range(250, 400) } else { u64::MAX };
            for k in 0..total {
                if k == fail_at {
                    if let Some(j) = bh_link {
                        ops.push(send_failure_op(rng, j as u64 + 1));
                    }
                }
                ops.push(format!("client {now} {}", hexs(&data_packet(seq, false, 24, counter, rng))));
                counter += 1;
                sent.push(seq);
                seq = (seq + 1) & 0x7fff_ffff;
            }
            while sent.len() > 64 {
                sent.remove(0);
            }
        }
        // regime-swing micro-burst: load up the queues under the HighLoad threshold, let a
        // housekeeping pass downshift the regime before the flush tick, keep the burst going
        if rng.chance(1, 45) {
            for j in 0..n {
                ops.push(format!("setlink {j} br={}", 20_000_000.0f64.to_bits()));
            }
            ops.push(format!("hk {now}"));
            ka_times.push(now);
            ops.push(format!("flush {now}"));
            last_flush = now;
            let a = rng.range(17, 26) * n as u64;
            for _ in 0..a {
                ops.push(format!("client {now} {}", hexs(&data_packet(seq, false, 24, counter, rng))));
                counter += 1;
                sent.push(seq);
                seq = (seq + 1) & 0x7fff_ffff;
            }
            for j in 0..n {
                let br: f64 = *rng.pick(&[100_000.0, 1_000_000.0]);
                ops.push(format!("setlink {j} br={}", br.to_bits()));
            }
            now += rng.below(6);
            ops.push(format!("hk {now}"));
            let b = rng.range(10, 18) * n as u64;
            for _ in 0..b {
                ops.push(format!("client {now} {}", hexs(&data_packet(seq, false, 24, counter, rng))));
                counter += 1;
                sent.push(seq);
                seq = (seq + 1) & 0x7fff_ffff;
            }
            while sent.len() > 64 {
                sent.remove(0);
            }
            now += 15;
            ops.push(format!("flush {now}"));
            last_flush = now;
        }
        // return-path type sweep sample: one datagram per type code of a run through the sweep table
        // (SRT control page, neighbours of the SRTLA codes, boundaries, a random code), lengths on
        // both sides of the 64-byte inline capacity up to the MTU
        if step == sweep_at {
            let live: Vec<usize> = (0..n).filter(|j| !silent[*j]).collect();
            if !live.is_empty() {
                let off = rng.below(UPLINK_SWEEP_TYPES.len() as u64) as usize;
                for k in 0..8usize {
                    let j = *rng.pick(&live);
                    let ty = if k == 7 { rng.next_u64() as u16 } else { UPLINK_SWEEP_TYPES[(off + k) % UPLINK_SWEEP_TYPES.len()] };
                    let len = *rng.pick(&[2usize, 3, 16, 63, 64, 65, 100, 512, 1316, 1500]);
                    let mut b = rng.bytes(len);
                    b[..2].copy_from_slice(&ty.to_be_bytes());
                    ops.push(format!("uplink {now} {} {}", j + 1, hexs(&b)));
                }
                // now and then a registration reply of unusual size (handled by type code alone)
                if rng.chance(1, 10) {
                    let j = *rng.pick(&live);
                    let ty = *rng.pick(&[SRTLA_TYPE_REG2, SRTLA_TYPE_REG_NGP, SRTLA_TYPE_REG3, SRTLA_TYPE_REG_ERR]);
                    let len = *rng.pick(&[3usize, 65, 257, 259, 1500]);
                    let mut b = rng.bytes(len);
                    b[..2].copy_from_slice(&ty.to_be_bytes());
                    ops.push(format!("uplink {now} {} {}", j + 1, hexs(&b)));
                    if ty == SRTLA_TYPE_REG_ERR {
                        needs_rereg[j] = true;
                    }
                }
            }
        }
        // return-path backlog: more datagrams queued on the uplink channel than one drain call takes
        if rng.chance(1, 70) {
            let j = rng.below(n as u64) as usize;
            let len = *rng.pick(&[16usize, 32, 64, 65, 100, 200, 1316, 1500]);
            // MTU-sized copies: keep the whole backlog within the client socket's receive buffer
            let cnt = if len > 200 { *rng.pick(&[3u64, 63, 64, 65, 66]) } else { *rng.pick(&[3u64, 63, 64, 65, 66, 90, 100]) };
            let mut b = match rng.below(4) {
                0 => vec![0x80, 0x00],
                1 => vec![0x80, 0x06],
                2 => rng.pick(&UPLINK_SWEEP_TYPES).to_be_bytes().to_vec(),
                _ => vec![0x12, 0x34],
            };
            while b.len() < len {
                b.push(rng.below(256) as u8);
            }
            ops.push(format!("burst {now} {} {cnt} {}", j + 1, hexs(&b)));
        }
        let i = rng.below(n as u64) as usize;
        let pick = if in_bh && rng.chance(3, 4) { rng.below(18) } else { rng.below(41) };
        match pick {
            0..=17 => {
                // client data burst
                for _ in 0..rng.range(1, 12) {
                    if rng.chance(1, 6) {
                        // one datagram out of a size class the plain generator never produces
                        let len = client_len_class(rng);
                        let as_data = rng.chance(2, 3);
                        let retx = len > 4 && rng.chance(1, 8);
                        let sq = if retx && !sent.is_empty() { *rng.pick(&sent) } else { seq };
                        let mut pkt = None;
                        for _ in 0..12 {
                            let ty = *rng.pick(&CLIENT_TYPES);
                            let b = sized_client(rng, len, if as_data { Some(sq) } else { None }, ty, retx, counter);
                            if len >= 16 || used_short.insert(b.clone()) {
                                pkt = Some(b);
                                break;
                            }
                        }
                        if let Some(b) = pkt {
                            ops.push(format!("client {now} {}", hexs(&b)));
                            counter += 1;
                            if get_srt_sequence_number(&b) == Some(seq) {
                                sent.push(seq);
                                seq = (seq + 1) & 0x7fff_ffff;
                            }
                            if sent.len() > 64 {
                                sent.remove(0);
                            }
                        }
                        continue;
                    }
                    let len = *rng.pick(&[24usize, 32, 64, 188, 1316, 1316]);
                    let retx = rng.chance(1, 12);
                    let s = if retx && !sent.is_empty() { *rng.pick(&sent) } else { seq };
                    ops.push(format!("client {now} {}", hexs(&data_packet(s, retx, len, counter, rng))));
                    counter += 1;
                    if !retx {
                        sent.push(seq);
                        seq = (seq + 1) & 0x7fff_ffff;
                    }
                    if sent.len() > 64 {
                        sent.remove(0);
                    }
                }
                // look the last routed number up in the NAK-attribution tracker (observes who is
                // remembered as carrier of the unique copy: never a probe link)
                if rng.chance(1, 3) && !sent.is_empty() {
                    ops.push(format!("trk {} {now}", sent[sent.len() - 1]));
                }
                // the receiver acknowledges most of what it got, on some live link
                if rng.chance(3, 4) && !sent.is_empty() {
                    let live: Vec<usize> = (0..n).filter(|j| !silent[*j]).collect();
                    if !live.is_empty() {
                        let j = *rng.pick(&live);
                        let k = rng.range(1, 10).min(sent.len() as u64) as usize;
                        let l: Vec<u32> = sent[sent.len() - k..].to_vec();
                        ops.push(format!("uplink {} {} {}", now + 1, j + 1, hexs(&create_ack_packet(&l))));
                    }
                }
            }
            18 => {
                if rng.chance(1, 2) {
                    ops.push(format!("client {now} {}", hexs(&control_packet(*rng.pick(&[0x8002u16, 0x8003, 0x8000, 0x8005, 0x8006]), 32, counter, rng))));
                    counter += 1;
                } else if rng.chance(1, 12) {
                    // a zero-length read from the local socket
                    ops.push(format!("client {now} -"));
                } else {
                    let len = if rng.chance(1, 2) { client_len_class(rng) } else { *rng.pick(&[2usize, 3, 4, 8, 16, 24, 44, 100, 1316, 1500]) };
                    for _ in 0..12 {
                        let ty = *rng.pick(&CLIENT_TYPES);
                        let b = sized_client(rng, len, None, ty, false, counter);
                        if len >= 16 || used_short.insert(b.clone()) {
                            ops.push(format!("client {now} {}", hexs(&b)));
                            counter += 1;
                            break;
                        }
                    }
                }
            }
            19..=24 if !silent[i] => {
                // SRTLA ACK list for recently sent numbers
                let k = if rng.chance(1, 8) { *rng.pick(&[15u64, 16, 17, 64, 200, 374]) as usize } else { rng.range(1, 8) as usize };
                let l: Vec<u32> = (0..k).map(|_| if sent.is_empty() || rng.chance(1, 8) { rng.next_u64() as u32 & 0x7fff_ffff } else { *rng.pick(&sent) }).collect();
                ops.push(format!("uplink {now} {} {}", i + 1, hexs(&create_ack_packet(&l))));
            }
            25..=27 if !silent[i] => {
                // cumulative SRT ACK
                let a = if sent.is_empty() { seq } else { *rng.pick(&sent) };
                let blen = *rng.pick(&[20usize, 24, 44, 19, 64, 65, 188, 1500]);
                let mut b = rng.bytes(blen);
                b[0] = 0x80;
                b[1] = 0x02;
                if b.len() >= 20 {
                    b[16..20].copy_from_slice(&a.to_be_bytes());
                }
                ops.push(format!("uplink {now} {} {}", i + 1, hexs(&b)));
            }
            28..=29 if !silent[i] => {
                // NAK: singles and a range
                let mut b = vec![0x80, 0x03, 0, 0];
                let entries = if rng.chance(1, 8) { *rng.pick(&[15u64, 16, 40, 120, 374]) } else { rng.range(1, 3) };
                for _ in 0..entries {
                    if b.len() + 8 > 1500 {
                        break;
                    }
                    let s = if sent.is_empty() { seq } else { *rng.pick(&sent) };
                    if rng.chance(1, 3) {
                        b.extend_from_slice(&(s | 0x8000_0000).to_be_bytes());
                        b.extend_from_slice(&(s + rng.below(4) as u32).to_be_bytes());
                    } else {
                        b.extend_from_slice(&s.to_be_bytes());
                    }
                }
                ops.push(format!("uplink {now} {} {}", i + 1, hexs(&b)));
            }
            30..=32 if !silent[i] => {
                // keepalive echo: timely, late, future, zero, truncated, extended with trailing bytes
                let ts = match rng.below(7) {
                    0 => 0,
                    1 => now + 5,
                    2 => now.saturating_sub(10_000),
                    3 => now.saturating_sub(10_001),
                    4 => now,
                    _ => *rng.pick(&ka_times),
                };
                let mut b = create_keepalive_packet(ts).to_vec();
                match rng.below(5) {
                    0 => b.truncate(rng.range(2, 9) as usize),
                    1 => b.extend(rng.bytes(28)),
                    2 if rng.chance(1, 2) => {
                        let k = *rng.pick(&[54usize, 55, 56, 90, 1306, 1490]);
                        b.extend(rng.bytes(k))
                    }
                    _ => {}
                }
                ops.push(format!("uplink {now} {} {}", i + 1, hexs(&b)));
            }
            33 if !silent[i] => {
                // unknown / short / odd datagrams
                let b = match rng.below(8) {
                    5..=7 => {
                        // relayed datagram past the 64-byte inline capacity of the uplink channel's SmallVec
                        let ty = if rng.chance(1, 4) { rng.next_u64() as u16 } else { *rng.pick(&UPLINK_SWEEP_TYPES) };
                        let len = *rng.pick(&[63usize, 64, 65, 66, 100, 188, 512, 1316, 1317, 1472, 1500]);
                        let mut b = rng.bytes(len);
                        b[..2].copy_from_slice(&ty.to_be_bytes());
                        b
                    }
                    // the empty packet is the reader task's receive-error sentinel (spawn_reader): the handler
                    // drops it; it is neither a send failure nor silence, so it may not tear the link down
                    0 => if rng.chance(1, 2) { Vec::new() } else { rng.bytes(1) },
                    1 => vec![0x90, 0x00],
                    2 => control_packet(*rng.pick(&[0x8000u16, 0x8005, 0x8001, 0x7fff, 0x9212]), 24, counter, rng),
                    3 => data_packet(seq, false, 64, 77_000_000 + counter, rng),
                    _ => {
                        let k = rng.range(2, 40) as usize;
                        rng.bytes(k)
                    }
                };
                ops.push(format!("uplink {now} {} {}", i + 1, hexs(&b)));
            }
            34 => {
                // a link goes silent (black hole) or comes back
                silent[i] = !silent[i];
                if !silent[i] {
                    needs_rereg[i] = true;
                    if rng.chance(1, 3) {
                        // the path delivers just long enough for the REG3, then black-holes again: the link is
                        // connected without ever having heard anything else
                        ops.push(format!("uplink {now} {} {}", i + 1, hexs(&SRTLA_TYPE_REG3.to_be_bytes())));
                        silent[i] = true;
                        needs_rereg[i] = false;
                    }
                }
            }
            35 => {
                // receiver forgot the group / link: REG_ERR or REG_NGP mid-stream, maybe followed by recovery
                let ty = *rng.pick(&[SRTLA_TYPE_REG_ERR, SRTLA_TYPE_REG_NGP]);
                ops.push(format!("uplink {now} {} {}", i + 1, hexs(&ty.to_be_bytes())));
                if ty == SRTLA_TYPE_REG_ERR {
                    needs_rereg[i] = true;
                }
                if rng.chance(1, 2) {
                    ops.push(format!("uplink {} {} {}", now + 1, i + 1, hexs(&create_keepalive_packet(now).to_vec())));
                }
            }
            36 => {
                ops.push(send_failure_op(rng, i as u64 + 1));
            }
            40 => {
                // the uplink binder of link i refuses its next socket re-creation
                if bind_budget[i] > 0 {
                    bind_budget[i] -= 1;
                    ops.push(format!("failbind {}", i + 1));
                }
            }
            37 => ops.push(cfg_line(rng)),
            38 => {
                ops.push(format!("crit {}", now + rng.below(400)));
            }
            39 => {
                let mut l = format!(
                    "setlink {i} weak={} ld={} cct={}",
                    rng.below(2),
                    if rng.chance(1, 4) { 1 } else { 0 },
                    rng.pick(&[0u64, 0, 100_000, 2_000_000, 50_000_000])
                );
                if rng.chance(1, 3) {
                    l += &format!(" w={}", if rng.chance(1, 4) { rng.range(1000, 60000) as i32 } else { *rng.pick(&WINDOWS) });
                }
                ops.push(l);
            }
            _ => {
                // re-registration replies for links that were torn down
                let ty = *rng.pick(&[SRTLA_TYPE_REG3, SRTLA_TYPE_REG3, SRTLA_TYPE_REG2]);
                if ty == SRTLA_TYPE_REG2 {
                    ops.push(format!("uplink {now} {} {}", i + 1, hexs(&reg_pkt(SRTLA_TYPE_REG2, &group_id))));
                } else if !silent[i] {
                    ops.push(format!("uplink {now} {} {}", i + 1, hexs(&ty.to_be_bytes())));
                }
            }
        }
        // idle stretch now and then so that timeouts and back-off actually fire
        if rng.chance(1, 60) {
            let gap = *rng.pick(&[5_100u64, 6_000, 11_000, 31_000]);
            let end = now + gap;
            while next_hk <= end {
                last_hk = next_hk;
                next_hk = last_hk + hk_period(rng);
                ops.push(format!("hk {last_hk}"));
                ka_times.push(last_hk);
                // surviving links keep answering keepalives
                for j in 0..n {
                    if !silent[j] && rng.chance(3, 4) {
                        ops.push(format!("uplink {} {} {}", last_hk + 20, j + 1, hexs(&create_keepalive_packet(last_hk).to_vec())));
                    }
                }
            }
            now = end;
        }
    }
    ops.push(format!("flush {}", now + 15));
    let _ = up;
    ops
}

/// One uplink as the reload generator tracks it (the generator keeps the link list itself: every
/// `uplink` / `failnext` / `failbind` op names an id consistently with it).
#[derive(Clone)]
struct GenLink {
    id: u64,
    addr: u8,
    up: bool,
    /// creation time / time of the last registration attempt of a link that was never registered
    born: u64,
    /// torn down after it had been registered: the receiver answers its next re-registration
    rereg: bool,
}

struct RlGen {
    ops: Vec<String>,
    now: u64,
    next_hk: u64,
    last_flush: u64,
    links: Vec<GenLink>,
    next_id: u64,
    next_addr: u8,
    /// (conn id, address) of the uplinks removed so far
    gone: Vec<(u64, u8)>,
    seq: u32,
    counter: u64,
    sent: Vec<u32>,
    reg2: Vec<u8>,
}

impl RlGen {
    fn list(&self) -> Vec<u8> {
        self.links.iter().map(|l| l.addr).collect()
    }

    fn list_without(&self, idx: usize) -> Vec<u8> {
        self.links.iter().enumerate().filter(|(i, _)| *i != idx).map(|(_, l)| l.addr).collect()
    }

    /// An address no link has carried so far in this case (tokens up to 9).
    fn fresh_addr(&mut self) -> Option<u8> {
        if self.next_addr <= 9 {
            self.next_addr += 1;
            Some(self.next_addr - 1)
        } else {
            None
        }
    }

    /// An address a removed uplink carried and no current uplink carries.
    fn gone_addr(&self, rng: &mut Rng) -> Option<u8> {
        let c: Vec<u8> = self.gone.iter().map(|g| g.1).filter(|a| !self.links.iter().any(|l| l.addr == *a)).collect();
        if c.is_empty() { None } else { Some(*rng.pick(&c)) }
    }

    fn up_idx(&self) -> Vec<usize> {
        (0..self.links.len()).filter(|i| self.links[*i].up).collect()
    }

    /// Emit `reload` and apply it to the tracked list: links whose address is listed survive in order, the first
    /// occurrences of the listed addresses no link carried are created (next canonical ids) unless refused.
    /// Returns the ids of the removed uplinks.
    fn reload(&mut self, list: &[u8], fails: &[u8]) -> Vec<u64> {
        debug_assert!(!list.is_empty());
        self.ops.push(format!("reload {} {} {}", self.now, join_list(list), join_list(fails)));
        let carried: Vec<u8> = self.list();
        let mut removed = Vec::new();
        for l in self.links.iter().filter(|l| !list.contains(&l.addr)) {
            self.gone.push((l.id, l.addr));
            removed.push(l.id);
        }
        self.links.retain(|l| list.contains(&l.addr));
        let mut seen: Vec<u8> = Vec::new();
        for a in list {
            if carried.contains(a) || seen.contains(a) {
                continue;
            }
            seen.push(*a);
            if !fails.contains(a) {
                self.links.push(GenLink { id: self.next_id, addr: *a, up: false, born: self.now, rereg: false });
                self.next_id += 1;
            }
        }
        removed
    }

    fn uplink(&mut self, t: u64, id: u64, b: &[u8]) {
        self.ops.push(format!("uplink {t} {id} {}", to_hex(b)));
    }

    /// `k` fresh data packets from the client at the current instant; returns their sequence numbers.
    fn client_data(&mut self, rng: &mut Rng, lo: u64, hi: u64) -> Vec<u32> {
        let k = rng.range(lo, hi);
        let mut v = Vec::new();
        for _ in 0..k {
            let len = *rng.pick(&[24usize, 32, 64, 188, 1316]);
            self.ops.push(format!("client {} {}", self.now, to_hex(&data_packet(self.seq, false, len, self.counter, rng))));
            self.counter += 1;
            v.push(self.seq);
            self.sent.push(self.seq);
            self.seq = (self.seq + 1) & 0x7fff_ffff;
        }
        while self.sent.len() > 64 {
            self.sent.remove(0);
        }
        v
    }

    fn flush(&mut self) {
        self.last_flush = self.now;
        self.ops.push(format!("flush {}", self.now));
    }

    /// One housekeeping tick at `t` and the simulated receiver's answers: keepalive echoes on registered
    /// uplinks, REG3 for the REG2 a re-created socket carried (a torn-down uplink at its next attempt, a NEW
    /// uplink once its 5 s grace has run out and it is due for a registration attempt).
    fn tick(&mut self, rng: &mut Rng, t: u64) {
        self.ops.push(format!("hk {t}"));
        let mut answers: Vec<(u64, u64, Vec<u8>)> = Vec::new();
        for i in 0..self.links.len() {
            let (id, rtt) = (self.links[i].id, rng.range(5, 35));
            if self.links[i].up {
                if rng.chance(9, 10) {
                    answers.push((t + rtt, id, create_keepalive_packet(t).to_vec()));
                }
            } else if self.links[i].rereg {
                if rng.chance(7, 10) {
                    answers.push((t + rtt, id, SRTLA_TYPE_REG3.to_be_bytes().to_vec()));
                    self.links[i].up = true;
                    self.links[i].rereg = false;
                }
            } else if t > self.links[i].born + 5000 {
                self.links[i].born = t;
                if rng.chance(3, 4) {
                    answers.push((t + rtt, id, SRTLA_TYPE_REG3.to_be_bytes().to_vec()));
                    self.links[i].up = true;
                }
            }
        }
        // in arrival order: all times in the op stream stay non-decreasing
        answers.sort_by_key(|a| a.0);
        for (at, id, b) in answers {
            self.uplink(at, id, &b);
        }
        self.now = self.now.max(t + 40);
    }

    /// Let `ms` of idle time pass: housekeeping ticks 1000 ms apart, flush ticks where something may be queued.
    fn idle(&mut self, rng: &mut Rng, ms: u64, jitter: u64) {
        let end = self.now + ms + rng.below(jitter.max(1));
        while self.next_hk <= end {
            let t = self.next_hk.max(self.now);
            self.next_hk = t + 1000;
            self.now = t;
            self.tick(rng, t);
        }
        self.now = self.now.max(end);
    }

    /// The registration handshake the way the main generator scripts it: REG_NGP on one uplink, REG2 with the
    /// group id, a housekeeping tick (broadcast), REG3 on the uplinks.
    fn handshake(&mut self, rng: &mut Rng) {
        if self.links.is_empty() {
            return;
        }
        let first = rng.below(self.links.len() as u64) as usize;
        let fid = self.links[first].id;
        self.now += rng.below(50);
        self.uplink(self.now, fid, &SRTLA_TYPE_REG_NGP.to_be_bytes());
        self.now += rng.below(60);
        let reg2 = self.reg2.clone();
        self.uplink(self.now, fid, &reg2);
        self.broadcast_and_reg3(rng);
    }

    fn broadcast_and_reg3(&mut self, rng: &mut Rng) {
        self.now += rng.range(1, 1000);
        self.ops.push(format!("hk {}", self.now));
        self.next_hk = self.now + 1000;
        for i in 0..self.links.len() {
            if rng.chance(7, 8) {
                self.now += rng.below(40);
                let id = self.links[i].id;
                self.uplink(self.now, id, &SRTLA_TYPE_REG3.to_be_bytes());
                self.links[i].up = true;
                self.links[i].rereg = false;
            }
        }
    }

    /// Datagrams "from the receiver" addressed to uplinks that no longer exist: must be ignored.
    fn ghosts(&mut self, rng: &mut Rng, ids: &[u64]) {
        for id in ids {
            for _ in 0..rng.range(1, 3) {
                let b: Vec<u8> = match rng.below(6) {
                    0 => create_keepalive_packet(self.now.saturating_sub(20)).to_vec(),
                    1 => SRTLA_TYPE_REG3.to_be_bytes().to_vec(),
                    2 => SRTLA_TYPE_REG_ERR.to_be_bytes().to_vec(),
                    3 if !self.sent.is_empty() => create_ack_packet(&self.sent[self.sent.len().saturating_sub(4)..]).to_vec(),
                    4 if !self.sent.is_empty() => {
                        let mut b = vec![0x80, 0x03, 0, 0];
                        b.extend_from_slice(&rng.pick(&self.sent).to_be_bytes());
                        b
                    }
                    _ => {
                        // relayable SRT control datagram: would reach the client if the uplink still existed
                        let mut b = rng.bytes(44);
                        b[0] = 0x80;
                        b[1] = 0x06;
                        b
                    }
                };
                self.uplink(self.now, *id, &b);
            }
        }
    }

    /// ACK / NAK traffic for `nums` arriving on uplink `id`.
    fn acks_naks(&mut self, rng: &mut Rng, id: u64, nums: &[u32]) {
        if nums.is_empty() {
            return;
        }
        if rng.chance(2, 3) {
            let mut b = vec![0x80, 0x03, 0, 0];
            for _ in 0..rng.range(1, 3) {
                b.extend_from_slice(&rng.pick(nums).to_be_bytes());
            }
            self.uplink(self.now, id, &b);
        }
        if rng.chance(2, 3) {
            let k = rng.range(1, nums.len().min(8) as u64) as usize;
            self.uplink(self.now, id, &create_ack_packet(&nums[..k]));
        }
        if rng.chance(1, 2) {
            let mut b = rng.bytes(44);
            b[0] = 0x80;
            b[1] = 0x02;
            b[16..20].copy_from_slice(&(nums[nums.len() - 1].wrapping_add(1) & 0x7fff_ffff).to_be_bytes());
            self.uplink(self.now, id, &b);
        }
    }

    /// Make uplink index `j` the scheduler's choice for the next datagrams: the largest window by far.
    fn steer(&mut self, j: usize) {
        for k in self.up_idx() {
            self.ops.push(format!("setlink {k} w={}", if k == j { 60000 } else { 1000 }));
        }
    }
}

/// Uplink-set reloads (SIGHUP: the real `apply_connection_changes`, op `reload`) in a running session: the
/// generator tracks the link list itself and realises: (a) the selected uplink removed right after client
/// data (still queued), (b) an uplink removed with packets in flight, their ACKs / NAKs arriving on a survivor,
/// (c) a reload in the middle of the REG1 / REG2 handshake, (d) an uplink added mid-stream and brought up,
/// (e) a removed address re-added (new id), (f) the same list (also permuted / with duplicates), (g) all but
/// one removed, (h) a refused creation, retried later, (i) client data and datagrams addressed to a removed
/// conn id right after a reload.
fn gen_reload(rng: &mut Rng, tier: Tier) -> Vec<String> {
    let n = rng.range(2, 4) as usize;
    let seed = rng.below(1 << 30);
    let now: u64 = 1_000_000 + rng.below(500_000);
    let id = id_from_seed(seed, 0);
    let mut group_id = id;
    for b in group_id[128..].iter_mut() {
        *b = b.wrapping_add(17);
    }
    let mut reg2 = SRTLA_TYPE_REG2.to_be_bytes().to_vec();
    reg2.extend_from_slice(&group_id);
    let mut g = RlGen {
        ops: vec![format!("init {n} {seed} {now}")],
        now,
        next_hk: now + 1000,
        last_flush: now,
        links: (0..n).map(|i| GenLink { id: i as u64 + 1, addr: i as u8 + 1, up: false, born: now, rereg: false }).collect(),
        next_id: n as u64 + 1,
        next_addr: n as u8 + 1,
        gone: Vec::new(),
        seq: match rng.below(8) {
            0 => 0,
            _ => (rng.next_u64() as u32) & 0x7fff_0000,
        },
        counter: 1,
        sent: Vec::new(),
        reg2,
    };
    let cfg_line = |rng: &mut Rng, classic: u64| -> String {
        format!("cfg classic={classic} quality={} stall={} minif=32 ceil=3000 cto={}", rng.below(2), rng.below(2), rng.pick(&[5000u64, 5000, 5000, 10000]))
    };
    match rng.below(3) {
        0 => {}
        1 => g.ops.push(cfg_line(rng, 0)),
        _ => g.ops.push(cfg_line(rng, 1)),
    }
    // ---------------- handshake, in half of the cases with a reload in the middle of it (c)
    let hs = rng.below(4);
    let first = rng.below(n as u64) as usize;
    let fid = g.links[first].id;
    g.now += rng.below(50);
    g.uplink(g.now, fid, &SRTLA_TYPE_REG_NGP.to_be_bytes());
    if hs == 2 {
        // REG1 outstanding on index `first`: remove that uplink or a lower index (1 in 4: any index)
        let r = if rng.chance(3, 4) { rng.below(first as u64 + 1) as usize } else { rng.below(n as u64) as usize };
        let mut list = g.list_without(r);
        if rng.chance(1, 3) {
            if let Some(a) = g.fresh_addr() {
                list.push(a);
            }
        }
        if rng.chance(1, 3) {
            // nothing removed: the file lists a NEW address above the existing ones, or the same uplinks in another
            // order - every surviving uplink keeps its position, the outstanding REG1 still names the same uplink
            list = g.list();
            if rng.chance(2, 3) {
                if let Some(a) = g.fresh_addr() {
                    list.insert(rng.below(list.len() as u64) as usize, a);
                }
            } else {
                list.reverse();
            }
        }
        g.now += rng.below(30);
        let removed = g.reload(&list, &[]);
        // the receiver answers the REG1 it got: on the uplink that no longer exists (ignored), or a REG2
        // arrives on whatever uplink sits at the pending index now
        let reg2 = g.reg2.clone();
        g.now += rng.below(40);
        if rng.chance(1, 2) {
            for id in &removed {
                g.uplink(g.now, *id, &reg2);
            }
        }
        if rng.chance(1, 3) && first < g.links.len() {
            let id = g.links[first].id;
            g.uplink(g.now, id, &reg2);
        }
        if rng.chance(1, 2) {
            g.client_data(rng, 2, 2);
        }
        // the pending REG1 times out 4 s after it was sent; then the handshake starts over
        g.idle(rng, 4000, 1500);
        g.handshake(rng);
    } else {
        g.now += rng.below(60);
        let reg2 = g.reg2.clone();
        g.uplink(g.now, fid, &reg2);
        if hs == 3 {
            // REG2 accepted, broadcast pending: reload before the tick that broadcasts
            let r = rng.below(n as u64) as usize;
            let mut list = if rng.chance(3, 4) { g.list_without(r) } else { g.list() };
            if rng.chance(1, 2) {
                if let Some(a) = g.fresh_addr() {
                    list.insert(rng.below(list.len() as u64 + 1) as usize, a);
                }
            }
            g.now += rng.below(30);
            let removed = g.reload(&list, &[]);
            if rng.chance(1, 2) {
                g.ghosts(rng, &removed);
            }
        }
        g.broadcast_and_reg3(rng);
    }
    // ---------------- data phase
    let steps = match tier {
        Tier::Quick => rng.range(60, 200),
        Tier::Thorough => rng.range(100, 320),
    };
    // the reload scenarios of this case: a shuffled round through (a)..(i) at random steps
    let mut kinds: Vec<u8> = (0..9).collect();
    for i in (1..kinds.len()).rev() {
        kinds.swap(i, rng.below(i as u64 + 1) as usize);
    }
    let n_rl = rng.range(5, 10) as usize;
    let mut at: BTreeMap<u64, u8> = BTreeMap::new();
    for k in 0..n_rl {
        at.insert(rng.range(2, steps - 1), kinds[k % kinds.len()]);
    }
    let mut retry: Option<(u64, u8)> = None; // (step, address) of a refused creation to retry
    let mut midstream_handshake_done = false;
    for step in 0..steps {
        g.now += match rng.below(10) {
            0 => 0,
            1..=5 => rng.below(8),
            6 => 15,
            7 | 8 => rng.below(300),
            _ => rng.below(1200),
        };
        while g.now >= g.next_hk {
            let t = g.next_hk;
            g.next_hk = t + 1000;
            g.tick(rng, t);
        }
        if g.now.saturating_sub(g.last_flush) >= 15 {
            g.flush();
        }
        if let Some((s, a)) = retry {
            if step >= s {
                // (h) second half: the refused creation is retried and succeeds
                retry = None;
                if !g.links.iter().any(|l| l.addr == a) {
                    let mut list = g.list();
                    list.push(a);
                    g.reload(&list, &[]);
                }
            }
        }
        if let Some(kind) = at.get(&step).copied() {
            let nl = g.links.len();
            let ups = g.up_idx();
            if nl == 1 && matches!(kind, 0 | 1 | 2 | 6) && rng.chance(2, 3) {
                // a single uplink is left: the set grows again by one or two addresses
                let mut list = g.list();
                for _ in 0..rng.range(1, 2) {
                    if let Some(a) = if rng.chance(1, 2) { g.gone_addr(rng).or_else(|| g.fresh_addr()) } else { g.fresh_addr().or_else(|| g.gone_addr(rng)) } {
                        if !list.contains(&a) {
                            list.insert(rng.below(list.len() as u64 + 1) as usize, a);
                        }
                    }
                }
                g.reload(&list, &[]);
                g.client_data(rng, 1, 3);
                continue;
            }
            match kind {
                0 if nl >= 2 && !ups.is_empty() => {
                    // (a) the selected uplink is removed right after client data, before any flush
                    let j = *rng.pick(&ups);
                    let steered = rng.chance(2, 3);
                    if steered {
                        g.steer(j);
                    }
                    let nums = g.client_data(rng, 1, 3);
                    if rng.chance(1, 2) {
                        g.ops.push(format!("trk {} {}", nums[0], g.now));
                    }
                    let r = if steered { j } else { rng.below(nl as u64) as usize };
                    let list = g.list_without(r);
                    let removed = g.reload(&list, &[]);
                    for s in &nums {
                        g.ops.push(format!("trk {s} {}", g.now));
                    }
                    // (i) anchor gone: selection must still work
                    g.client_data(rng, 1, 4);
                    if rng.chance(1, 2) {
                        g.ghosts(rng, &removed);
                    }
                    g.now += 15;
                    g.flush();
                }
                1 if nl >= 2 && !ups.is_empty() => {
                    // (b) an uplink with packets in flight is removed; ACKs / NAKs for them arrive on a survivor
                    let j = *rng.pick(&ups);
                    if rng.chance(2, 3) {
                        g.steer(j);
                    }
                    let nums = g.client_data(rng, 3, 12);
                    g.now += 15;
                    g.flush();
                    g.now += rng.below(6);
                    let list = g.list_without(j);
                    let removed = g.reload(&list, &[]);
                    g.ops.push(format!("trk {} {}", nums[0], g.now));
                    g.now += rng.below(30);
                    let surv = g.up_idx();
                    if !surv.is_empty() {
                        let id = g.links[*rng.pick(&surv)].id;
                        g.acks_naks(rng, id, &nums);
                    }
                    if rng.chance(1, 2) {
                        // the receiver also answers on the uplink that carried them: it no longer exists
                        let l = nums.len().min(4);
                        for id in &removed {
                            g.uplink(g.now, *id, &create_ack_packet(&nums[..l]));
                        }
                    }
                    // the client retransmits what was NAKed
                    if rng.chance(1, 2) {
                        let s = *rng.pick(&nums);
                        g.ops.push(format!("client {} {}", g.now, to_hex(&data_packet(s, true, 64, g.counter, rng))));
                        g.counter += 1;
                    }
                }
                2 if nl >= 2 && !midstream_handshake_done => {
                    // (c) mid-stream: the receiver forgot the group (REG_ERR everywhere), REG_NGP starts a new
                    // REG1 / REG2 handshake, and the reload hits while the REG1 is outstanding
                    midstream_handshake_done = true;
                    for i in 0..nl {
                        let id = g.links[i].id;
                        g.uplink(g.now, id, &SRTLA_TYPE_REG_ERR.to_be_bytes());
                        if g.links[i].up {
                            g.links[i].rereg = true;
                        }
                        g.links[i].up = false;
                    }
                    // a tick so that the manager sees no active uplink (no REG3 answers at this one)
                    let t = g.next_hk.max(g.now);
                    g.next_hk = t + 1000;
                    g.now = t;
                    g.ops.push(format!("hk {t}"));
                    g.now += rng.range(5, 200);
                    let p = rng.below(nl as u64) as usize;
                    let pid = g.links[p].id;
                    g.uplink(g.now, pid, &SRTLA_TYPE_REG_NGP.to_be_bytes());
                    let after_reg2 = rng.chance(1, 2);
                    let reg2 = g.reg2.clone();
                    if after_reg2 {
                        g.now += rng.below(40);
                        g.uplink(g.now, pid, &reg2);
                    }
                    let r = if rng.chance(3, 4) { rng.below(p as u64 + 1) as usize } else { rng.below(nl as u64) as usize };
                    let mut list = g.list_without(r);
                    if rng.chance(1, 3) {
                        if let Some(a) = g.gone_addr(rng).or_else(|| g.fresh_addr()) {
                            list.push(a);
                        }
                    }
                    g.now += rng.below(30);
                    let removed = g.reload(&list, &[]);
                    if !after_reg2 && rng.chance(1, 2) {
                        for id in &removed {
                            g.uplink(g.now, *id, &reg2);
                        }
                    }
                    g.client_data(rng, 1, 3);
                    if after_reg2 {
                        g.broadcast_and_reg3(rng);
                    } else {
                        g.idle(rng, 4000, 1500);
                        g.handshake(rng);
                    }
                }
                3 | 4 if nl < 5 => {
                    // (d) an uplink is added mid-stream, (e) preferably at an address removed earlier
                    let a = if kind == 4 { g.gone_addr(rng).or_else(|| g.fresh_addr()) } else { g.fresh_addr().or_else(|| g.gone_addr(rng)) };
                    if let Some(a) = a {
                        let mut list = g.list();
                        list.insert(rng.below(list.len() as u64 + 1) as usize, a);
                        if rng.chance(1, 4) {
                            list.push(a);
                        }
                        g.reload(&list, &[]);
                        g.client_data(rng, 1, 3);
                        if rng.chance(1, 2) {
                            // let its start-up grace run out so that housekeeping registers it
                            g.now += 15;
                            g.flush();
                            g.idle(rng, 6100, 2000);
                        }
                    }
                }
                5 => {
                    // (f) the same list: as is, permuted, with duplicates
                    let mut list = g.list();
                    match rng.below(3) {
                        0 => {}
                        1 => {
                            for i in (1..list.len()).rev() {
                                list.swap(i, rng.below(i as u64 + 1) as usize);
                            }
                        }
                        _ => {
                            let d = *rng.pick(&list);
                            list.insert(rng.below(list.len() as u64 + 1) as usize, d);
                            list.push(d);
                        }
                    }
                    if rng.chance(1, 2) {
                        g.client_data(rng, 1, 3);
                    }
                    // refusing an address that needs no socket changes nothing
                    let fails: Vec<u8> = if rng.chance(1, 4) { vec![list[0]] } else { Vec::new() };
                    g.reload(&list, &fails);
                    g.client_data(rng, 1, 3);
                }
                6 if nl >= 2 => {
                    // (g) all but one removed
                    let keep = if !ups.is_empty() && rng.chance(3, 4) { *rng.pick(&ups) } else { rng.below(nl as u64) as usize };
                    if rng.chance(1, 2) {
                        g.client_data(rng, 1, 6);
                    }
                    let a = g.links[keep].addr;
                    let list = if rng.chance(1, 4) { vec![a, a] } else { vec![a] };
                    let removed = g.reload(&list, &[]);
                    g.client_data(rng, 1, 4);
                    if rng.chance(1, 2) {
                        g.ghosts(rng, &removed);
                    }
                    if rng.chance(1, 3) {
                        g.ops.push(format!("failnext {}", removed[0])); // no such uplink any more: refused
                    }
                }
                7 if nl < 5 => {
                    // (h) one creation is refused (binder error); retried a few steps later
                    if let Some(a) = g.fresh_addr().or_else(|| g.gone_addr(rng)) {
                        let mut list = g.list();
                        list.push(a);
                        let mut fails = vec![a];
                        // now and then together with a creation that succeeds and a removal
                        if rng.chance(1, 3) {
                            if let Some(b) = g.fresh_addr() {
                                list.insert(0, b);
                            }
                        }
                        if rng.chance(1, 4) && list.len() > 2 {
                            list.remove(rng.below(g.links.len() as u64) as usize);
                        }
                        if rng.chance(1, 4) {
                            fails.push(g.links[0].addr);
                        }
                        g.reload(&list, &fails);
                        retry = Some((step + rng.range(1, 10), a));
                    }
                }
                _ => {
                    // (i) some uplink goes (or, with a single uplink, is replaced); client data and datagrams
                    // for the removed conn id follow at once
                    let r = rng.below(nl as u64) as usize;
                    let mut list = g.list_without(r);
                    if list.is_empty() || rng.chance(1, 4) {
                        if let Some(a) = g.fresh_addr().or_else(|| g.gone_addr(rng)) {
                            list.push(a);
                        }
                    }
                    if list.is_empty() {
                        list = g.list();
                    }
                    if rng.chance(1, 3) {
                        let id = g.links[r].id;
                        g.ops.push(send_failure_op(rng, id));
                    }
                    let removed = g.reload(&list, &[]);
                    g.ghosts(rng, &removed);
                    g.client_data(rng, 1, 5);
                    g.ghosts(rng, &removed);
                }
            }
            continue;
        }
        let nl = g.links.len();
        let ups = g.up_idx();
        let i = rng.below(nl as u64) as usize;
        let lid = g.links[i].id;
        match rng.below(40) {
            0..=15 => {
                let nums = g.client_data(rng, 1, 10);
                if rng.chance(1, 3) {
                    g.ops.push(format!("trk {} {}", nums[nums.len() - 1], g.now));
                }
                if rng.chance(3, 4) && !ups.is_empty() {
                    let id = g.links[*rng.pick(&ups)].id;
                    let k = rng.range(1, 10).min(g.sent.len() as u64) as usize;
                    let l: Vec<u32> = g.sent[g.sent.len() - k..].to_vec();
                    g.now += 1;
                    g.uplink(g.now, id, &create_ack_packet(&l));
                }
            }
            16..=19 if g.links[i].up && !g.sent.is_empty() => {
                let k = rng.range(1, 8) as usize;
                let l: Vec<u32> = (0..k).map(|_| *rng.pick(&g.sent)).collect();
                g.uplink(g.now, lid, &create_ack_packet(&l));
            }
            20..=22 if g.links[i].up && !g.sent.is_empty() => {
                let mut b = rng.bytes(44);
                b[0] = 0x80;
                b[1] = 0x02;
                b[16..20].copy_from_slice(&rng.pick(&g.sent).to_be_bytes());
                g.uplink(g.now, lid, &b);
            }
            23..=25 if g.links[i].up && !g.sent.is_empty() => {
                let mut b = vec![0x80, 0x03, 0, 0];
                for _ in 0..rng.range(1, 3) {
                    let s = *rng.pick(&g.sent);
                    if rng.chance(1, 3) {
                        b.extend_from_slice(&(s | 0x8000_0000).to_be_bytes());
                        b.extend_from_slice(&(s + rng.below(4) as u32).to_be_bytes());
                    } else {
                        b.extend_from_slice(&s.to_be_bytes());
                    }
                }
                g.uplink(g.now, lid, &b);
            }
            26 | 27 if g.links[i].up => {
                let ts = g.now.saturating_sub(rng.range(1, 300));
                g.uplink(g.now, lid, &create_keepalive_packet(ts));
            }
            28 => g.ops.push(send_failure_op(rng, lid)),
            29 => {
                g.uplink(g.now, lid, &SRTLA_TYPE_REG_ERR.to_be_bytes());
                if g.links[i].up {
                    g.links[i].rereg = true;
                }
                g.links[i].up = false;
            }
            30 | 31 if !g.sent.is_empty() => {
                let s = *rng.pick(&g.sent);
                g.ops.push(format!("trk {s} {}", g.now));
            }
            32 if !g.gone.is_empty() => {
                let id = rng.pick(&g.gone).0;
                g.ghosts(rng, &[id]);
            }
            33 => {
                let c = rng.below(2);
                g.ops.push(cfg_line(rng, c));
            }
            34 if rng.chance(1, 2) => g.ops.push(format!("failbind {lid}")),
            35 => {
                g.ops.push(format!("client {} {}", g.now, to_hex(&control_packet(*rng.pick(&[0x8002u16, 0x8003, 0x8000, 0x8006]), 32, g.counter, rng))));
                g.counter += 1;
            }
            36 if !g.links[i].up => {
                // a late REG3 for an uplink that is still registering
                g.uplink(g.now, lid, &SRTLA_TYPE_REG3.to_be_bytes());
                g.links[i].up = true;
                g.links[i].rereg = false;
            }
            _ => {}
        }
    }
    g.now += 15;
    g.flush();
    g.ops
}

/// A long single-link history of routed packets each answered by a cumulative SRT ACK and of keepalive
/// echoes: more than 100 RTT samples on one link, so that the 100-sample slow minimum window of the RTT
/// tracker evicts (and the 10-sample fast window many times), with an RTT that ramps and steps.
fn gen_long_rtt_history(rng: &mut Rng) -> Vec<String> {
    let n = rng.range(1, 2) as usize;
    let seed = rng.below(1 << 30);
    let mut now: u64 = rng.time_base(1_000_000, 500_000);
    let mut ops = vec![format!("init {n} {seed} {now}")];
    ops.push(format!(
        "cfg classic={} quality=1 stall={} minif=32 ceil=3000 cto=5000",
        if rng.chance(1, 4) { 1 } else { 0 },
        rng.below(2)
    ));
    let id = id_from_seed(seed, 0);
    let mut group_id = id;
    for b in group_id[128..].iter_mut() {
        *b = b.wrapping_add(17);
    }
    let hexs = |b: &[u8]| to_hex(b);
    ops.push(format!("uplink {now} 1 {}", hexs(&SRTLA_TYPE_REG_NGP.to_be_bytes())));
    now += 20;
    let mut reg2 = SRTLA_TYPE_REG2.to_be_bytes().to_vec();
    reg2.extend_from_slice(&group_id);
    ops.push(format!("uplink {now} 1 {}", hexs(&reg2)));
    now += 300;
    ops.push(format!("hk {now}"));
    for i in 0..n {
        now += 10;
        ops.push(format!("uplink {now} {} {}", i + 1, hexs(&SRTLA_TYPE_REG3.to_be_bytes())));
    }
    let mut next_hk = now + 1000;
    let mut seq: u32 = (rng.next_u64() as u32) & 0x7fff_0000;
    let mut counter = 1u64;
    let rounds = rng.range(115, 170);
    let mut rtt: u64 = *rng.pick(&[8u64, 30, 80, 200]);
    let shape = rng.below(4); // 0 steady+jitter, 1 ramp up, 2 step, 3 saw-tooth
    for r in 0..rounds {
        match shape {
            1 => rtt += rng.below(4),
            2 if r == rounds / 2 => rtt = rtt * 3 + 50,
            3 => rtt = if r % 25 < 12 { rtt + 7 } else { rtt.saturating_sub(7).max(3) },
            _ => {}
        }
        let jitter = rng.below(6);
        let k = rng.range(1, 3);
        let first = seq;
        for _ in 0..k {
            ops.push(format!("client {now} {}", hexs(&data_packet(seq, false, 24, counter, rng))));
            counter += 1;
            seq = (seq + 1) & 0x7fff_ffff;
        }
        now += 15;
        ops.push(format!("flush {now}"));
        now += rtt + jitter;
        while now >= next_hk {
            ops.push(format!("hk {next_hk}"));
            for i in 0..n {
                if rng.chance(9, 10) {
                    ops.push(format!("uplink {} {} {}", (next_hk + rtt).min(now), i + 1, hexs(&create_keepalive_packet(next_hk).to_vec())));
                }
            }
            next_hk += 1000;
        }
        // cumulative ACK just past the packets of this round, on some link; per-packet SRTLA ACKs too
        let link = rng.below(n as u64) as usize;
        let mut b = rng.bytes(44);
        b[0] = 0x80;
        b[1] = 0x02;
        b[16..20].copy_from_slice(&seq.to_be_bytes());
        if rng.chance(1, 2) {
            let l: Vec<u32> = (0..k as u32).map(|d| first.wrapping_add(d) & 0x7fff_ffff).collect();
            ops.push(format!("uplink {now} {} {}", link + 1, hexs(&create_ack_packet(&l))));
        }
        ops.push(format!("uplink {now} {} {}", link + 1, hexs(&b)));
        now += rng.below(30);
    }
    ops.push(format!("flush {}", now + 15));
    ops
}

/// The whole housekeeping arm (`hkarm` at every tick) in a session whose traffic shares are LOPSIDED, so that the
/// verdicts of the weak-link filter and the per-link CC controller actually change and are stamped: 2..3 uplinks
/// come up; one of them is kept at a tiny window (`setlink w=1000` after every tick: it carries a trickle or
/// nothing - LowShare / NoTraffic, probation after 15 share-weak ticks), optionally one uplink's keepalive echoes
/// arrive late (HighRtt) or stop altogether (it times out: a link that is NOT connected at the tick), the total is
/// under the 100 kbit/s floor in some phases (bypass) and well above it in others, and in a loss phase most
/// packets of the busy uplink are NAKed (loss window -> BackingOff; loss EWMA over 0.55 for 4 s -> loss_degraded).
/// A reload removes / adds an uplink in some cases (controller GC, a fresh entry).
fn gen_lopsided(rng: &mut Rng) -> Vec<String> {
    let n = rng.range(2, 3) as usize;
    let seed = rng.below(1 << 30);
    let mut now: u64 = 1_000_000 + rng.below(500_000);
    let mut ops = vec![format!("init {n} {seed} {now}")];
    ops.push(format!(
        "cfg classic={} quality=1 stall={} minif=32 ceil=3000 cto=5000",
        if rng.chance(1, 5) { 1 } else { 0 },
        rng.below(2)
    ));
    let id = id_from_seed(seed, 0);
    let mut group_id = id;
    for b in group_id[128..].iter_mut() {
        *b = b.wrapping_add(17);
    }
    let hexs = |b: &[u8]| to_hex(b);
    ops.push(format!("uplink {now} 1 {}", hexs(&SRTLA_TYPE_REG_NGP.to_be_bytes())));
    now += 20;
    let mut reg2 = SRTLA_TYPE_REG2.to_be_bytes().to_vec();
    reg2.extend_from_slice(&group_id);
    ops.push(format!("uplink {now} 1 {}", hexs(&reg2)));
    now += 300;
    ops.push(format!("hkarm {now}"));
    for i in 0..n {
        now += 10;
        ops.push(format!("uplink {now} {} {}", i + 1, hexs(&SRTLA_TYPE_REG3.to_be_bytes())));
    }
    let starved = rng.below(n as u64) as usize; // the uplink kept at a tiny window
    let slow: Option<usize> = if rng.chance(1, 2) { Some(rng.below(n as u64) as usize) } else { None }; // late echoes
    let silent: Option<usize> = if n == 3 && rng.chance(1, 2) { Some((starved + 1) % n) } else { None }; // echoes stop
    let silent_from = rng.range(6, 14);
    let ticks = rng.range(30, 46);
    let loss_from = rng.range(8, 16);
    let loss_len = rng.range(6, 12);
    let quiet_from = loss_from + loss_len + rng.range(2, 5);
    let quiet_len = rng.range(2, 5);
    let reload_at = if rng.chance(1, 3) { Some(rng.range(10, 25)) } else { None };
    let mut ids: Vec<u64> = (1..=n as u64).collect();
    let mut seq: u32 = (rng.next_u64() as u32) & 0x7fff_0000;
    let mut counter = 1u64;
    let mut hk = now + 700;
    // (time, op) of the current second, merged in time order before they are emitted (late echoes of the previous
    // tick interleave with this second's traffic)
    let mut pend: Vec<(u64, String)> = Vec::new();
    for t in 0..ticks {
        let quiet = t >= quiet_from && t < quiet_from + quiet_len;
        let lossy = t >= loss_from && t < loss_from + loss_len;
        // traffic of this second: 4 sub-rounds; above the floor needs > 9.5 datagrams of 1316 bytes per second
        let per_round = if quiet { rng.below(2) } else { rng.range(3, 6) };
        for r in 0..4u64 {
            let t0 = now + 40 + r * 150;
            let first = seq;
            for k in 0..per_round {
                pend.push((t0 + k, format!("client {} {}", t0 + k, hexs(&data_packet(seq, false, 1316, counter, rng)))));
                counter += 1;
                seq = (seq + 1) & 0x7fff_ffff;
            }
            pend.push((t0 + 15, format!("flush {}", t0 + 15)));
            if per_round == 0 {
                continue;
            }
            let busy = ids[rng.below(ids.len() as u64) as usize];
            if lossy {
                // the receiver reports most of the round lost (the carrier of each number is charged)
                let mut nak = vec![0x80u8, 0x03, 0, 0];
                for d in 0..per_round.min(4) as u32 {
                    nak.extend_from_slice(&(first.wrapping_add(d) & 0x7fff_ffff).to_be_bytes());
                }
                pend.push((t0 + 60, format!("uplink {} {busy} {}", t0 + 60, hexs(&nak))));
            }
            // cumulative ACK past the round
            let mut b = rng.bytes(44);
            b[0] = 0x80;
            b[1] = 0x02;
            b[16..20].copy_from_slice(&seq.to_be_bytes());
            pend.push((t0 + 90, format!("uplink {} {busy} {}", t0 + 90, hexs(&b))));
        }
        pend.sort_by_key(|e| e.0);
        let (before, after): (Vec<_>, Vec<_>) = pend.drain(..).partition(|e| e.0 < hk);
        ops.extend(before.into_iter().map(|e| e.1));
        pend = after;
        now = hk;
        ops.push(format!("hkarm {hk}"));
        for (j, cid) in ids.iter().enumerate() {
            if silent == Some(j) && t >= silent_from {
                continue;
            }
            let rtt = if slow == Some(j) { rng.range(350, 900) } else { rng.range(8, 39) };
            pend.push((hk + rtt, format!("uplink {} {cid} {}", hk + rtt, hexs(&create_keepalive_packet(hk).to_vec()))));
        }
        if starved < ids.len() && !rng.chance(1, 8) {
            ops.push(format!("setlink {starved} w={}", rng.pick(&[1000i32, 1000, 2000, 1000])));
        }
        if reload_at == Some(t) && ids.len() >= 2 {
            // the tail of the arm after a SIGHUP: drop the last uplink (or keep all), add a new address
            let drop_last = rng.chance(1, 2);
            let mut list: Vec<u64> = (1..=n as u64).collect();
            if drop_last {
                list.pop();
                ids.pop();
            }
            list.push(9);
            ids.push(n as u64 + 1);
            let l: Vec<String> = list.iter().map(|a| a.to_string()).collect();
            ops.push(format!("reload {} {} -", hk + 1, l.join(",")));
        }
        hk += *rng.pick(&[1000u64, 1000, 1000, 1001, 1200]);
    }
    pend.sort_by_key(|e| e.0);
    for e in pend {
        now = now.max(e.0);
        ops.push(e.1);
    }
    ops.push(format!("flush {}", now + 15));
    ops
}

/// No uplink ever completes registration: housekeeping keeps retrying at the 1 s cadence and, once every
/// link has been failed for longer than the global timeout (10 s), reports the start-up failure
/// (`Err` from `handle_housekeeping`); client datagrams in the meantime use pre-registration forwarding.
fn gen_never_connects(rng: &mut Rng) -> Vec<String> {
    let n = rng.range(1, 3) as usize;
    let seed = rng.below(1 << 30);
    let mut now: u64 = rng.time_base(1_000_000, 500_000);
    let mut ops = vec![format!("init {n} {seed} {now}")];
    let hexs = |b: &[u8]| to_hex(b);
    if rng.chance(1, 2) {
        ops.push(format!("probe {now}"));
    }
    let ticks = rng.range(14, 24);
    let mut counter = 1u64;
    for t in 0..ticks {
        now += *rng.pick(&[1000u64, 1000, 1000, 1001, 1500, 1999]);
        ops.push(format!("hk {now}"));
        if rng.chance(1, 4) {
            // REG_NGP / REG_ERR answers, never a REG2 that fits nor a REG3
            let j = rng.below(n as u64);
            let ty = *rng.pick(&[SRTLA_TYPE_REG_NGP, SRTLA_TYPE_REG_ERR, SRTLA_TYPE_REG_NGP]);
            ops.push(format!("uplink {} {} {}", now + 30, j + 1, hexs(&ty.to_be_bytes())));
        }
        if rng.chance(1, 3) {
            if rng.chance(1, 2) {
                // every link rejected just before: nothing is selectable for the client's datagrams
                for j in 1..=n as u64 {
                    ops.push(format!("uplink {} {j} {}", now + 35, hexs(&SRTLA_TYPE_REG_ERR.to_be_bytes())));
                }
            }
            for k in 0..rng.range(1, 4) {
                ops.push(format!("client {} {}", now + 40 + k, hexs(&data_packet(500 + (t * 8 + k) as u32, false, 32, counter, rng))));
                counter += 1;
            }
            ops.push(format!("flush {}", now + 60));
            if rng.chance(2, 3) {
                // receiver traffic for the client (SRT handshake / keepalive / data): the client is known by now
                let j = rng.range(1, n as u64);
                let blen = *rng.pick(&[16usize, 44, 64, 100]);
                let mut b = rng.bytes(blen);
                let ty = *rng.pick(&[0x8000u16, 0x8001, 0x8005, 0x1234]);
                b[..2].copy_from_slice(&ty.to_be_bytes());
                ops.push(format!("uplink {} {j} {}", now + 70, hexs(&b)));
            }
        }
    }
    ops.push(format!("flush {}", now + 15));
    ops
}

/// A registered session with NO client traffic (encoder not started or paused) under a connection timeout
/// that differs from the default, set at start-up or changed at run time: one uplink goes silent. It must be
/// torn down when it has been silent for the configured timeout - not after the 5 s default, not after the
/// previous setting.
fn gen_idle_session_timeout(rng: &mut Rng) -> Vec<String> {
    let n = rng.range(2, 3) as usize;
    let seed = rng.below(1 << 30);
    let mut now: u64 = rng.time_base(1_000_000, 500_000);
    let mut ops = vec![format!("init {n} {seed} {now}")];
    let cto0 = *rng.pick(&[30_000u64, 12_000, 60_000, 2_000, 1_000, 8_000]);
    let classic = rng.below(2);
    let stall = rng.below(2);
    ops.push(format!("cfg classic={classic} quality=1 stall={stall} minif=32 ceil=3000 cto={cto0}"));
    let hexs = |b: &[u8]| to_hex(b);
    ops.push(format!("uplink {now} 1 {}", hexs(&SRTLA_TYPE_REG_NGP.to_be_bytes())));
    now += 300;
    ops.push(format!("hk {now}"));
    for i in 0..n {
        now += 5;
        ops.push(format!("uplink {now} {} {}", i + 1, hexs(&SRTLA_TYPE_REG3.to_be_bytes())));
    }
    let silent = rng.below(n as u64) as usize;
    let silent_from = rng.range(1, 4);
    let change_at = if rng.chance(1, 2) { Some(rng.range(2, 8)) } else { None };
    let cto1 = *rng.pick(&[45_000u64, 20_000, 3_000, 5_000, 9_000]);
    let mut tick = now + 700;
    let ticks = rng.range(12, 70);
    for t in 0..ticks {
        if change_at == Some(t) {
            ops.push(format!("cfg classic={classic} quality=1 stall={stall} minif=32 ceil=3000 cto={cto1}"));
        }
        ops.push(format!("hk {tick}"));
        for i in 0..n {
            if i != silent || t < silent_from {
                ops.push(format!("uplink {} {} {}", tick + 20, i + 1, hexs(&create_keepalive_packet(tick).to_vec())));
            }
        }
        tick += *rng.pick(&[1000u64, 1000, 1000, 1001, 1500]);
    }
    ops
}

/// A dead interface (UNMODELLED fault, monitors only): one uplink's socket cannot send at all and its
/// re-creation is refused too, so every registration re-send on it fails; the other uplinks are healthy
/// and answer every keepalive. The healthy uplinks must keep their keepalive cadence and stay connected
/// whatever happens on the dead one. No client traffic (keeps the data-path monitors out of it).
fn gen_dead_socket(rng: &mut Rng) -> Vec<String> {
    let n = rng.range(2, 4) as usize;
    let seed = rng.below(1 << 30);
    let mut now: u64 = rng.time_base(1_000_000, 500_000);
    let mut ops = vec![format!("init {n} {seed} {now}")];
    ops.push(format!("cfg classic={} quality=1 stall=1 minif=32 ceil=3000 cto=5000", rng.below(2)));
    let id = id_from_seed(seed, 0);
    let mut group_id = id;
    for b in group_id[128..].iter_mut() {
        *b = b.wrapping_add(17);
    }
    let hexs = |b: &[u8]| to_hex(b);
    // the dead uplink is not the last one: uplinks after it in the list are the ones at risk
    let dead = rng.below(n as u64 - 1) as usize;
    let never_registered = rng.chance(1, 2);
    let first = if never_registered { n - 1 } else { rng.below(n as u64) as usize };
    ops.push(format!("uplink {now} {} {}", first + 1, hexs(&SRTLA_TYPE_REG_NGP.to_be_bytes())));
    now += 20;
    let mut reg2 = SRTLA_TYPE_REG2.to_be_bytes().to_vec();
    reg2.extend_from_slice(&group_id);
    ops.push(format!("uplink {now} {} {}", first + 1, hexs(&reg2)));
    now += 300;
    ops.push(format!("hk {now}"));
    for i in 0..n {
        if never_registered && i == dead {
            continue;
        }
        now += 10;
        ops.push(format!("uplink {now} {} {}", i + 1, hexs(&SRTLA_TYPE_REG3.to_be_bytes())));
    }
    let mut tick = now + 700;
    let start_dead = rng.range(1, 4);
    let ticks = rng.range(14, 40);
    for t in 0..ticks {
        if t == start_dead {
            ops.push(format!("deadsock {} 1", dead + 1));
        }
        if t >= start_dead {
            // the binder refuses every re-creation of the dead uplink's socket (one refusal per attempt)
            ops.push(format!("failbind {}", dead + 1));
        }
        ops.push(format!("hk {tick}"));
        for i in 0..n {
            if i != dead || t < start_dead {
                if never_registered && i == dead {
                    continue;
                }
                ops.push(format!("uplink {} {} {}", tick + 20, i + 1, hexs(&create_keepalive_packet(tick).to_vec())));
            }
        }
        tick += *rng.pick(&[1000u64, 1000, 1000, 1001, 1400]);
    }
    if rng.chance(1, 2) {
        // the interface comes back
        ops.push(format!("deadsock {} 0", dead + 1));
        for _ in 0..rng.range(6, 12) {
            ops.push(format!("hk {tick}"));
            for i in 0..n {
                if i != dead {
                    ops.push(format!("uplink {} {} {}", tick + 20, i + 1, hexs(&create_keepalive_packet(tick).to_vec())));
                }
            }
            tick += 1000;
        }
    }
    ops
}

fn main() {
    verif_harness::run_main("sys", Box::new(SysComp::new()));
}
