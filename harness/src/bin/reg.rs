//! Component `reg` (C07): the real `SrtlaRegistrationManager` driven through the real
//! `process_uplink_packet` (src/sender/uplink_recv.rs) for received datagrams and through a
//! step-by-step mirror of the registration part of `handle_housekeeping`
//! (src/sender/housekeeping.rs) for ticks.  Per-link `connected` flags live in real
//! `SrtlaConnection`s and are counted by the real `update_active_connections`.
//!
//! Ops: see lean/Srtla/Drv/Reg.lean.

use std::collections::{BTreeSet, HashMap};
use std::net::SocketAddr;
use std::sync::Arc;

use smallvec::SmallVec;
use srtla_core::connection::SrtlaConnection;
use srtla_core::registration::SrtlaRegistrationManager;
use srtla_core::registration::verif_hooks::VerifRegState;
use srtla_core::utils::verif_clock;
use srtla_send::net::{BatchUdpSocket, SourceIpBinder};
use srtla_send::sender::verif_hooks::{
    ConnIo, ConnIoMap, ConnectionId, ReaderHandle, SequenceTracker, UplinkPacket, create_uplink_channel,
    handle_housekeeping, handle_uplink_packet, process_uplink_packet,
};
use tokio::net::UdpSocket;
use tokio::sync::mpsc::{UnboundedReceiver, UnboundedSender, unbounded_channel};

use verif_harness::util::*;
use verif_harness::{Component, Mon, Rng, Tier};

const P: &str = "C07";

const T_NGP: u16 = 0x9211;
const T_REG1: u16 = 0x9200;
const T_REG2: u16 = 0x9201;
const T_REG3: u16 = 0x9202;
const T_REGERR: u16 = 0x9210;

/// Deterministic 256-byte id from a seed (same formula as `idBytes` in lean/Srtla/Drv/Reg.lean).
fn id_bytes(seed: u64) -> [u8; 256] {
    let mut b = [0u8; 256];
    for (i, x) in b.iter_mut().enumerate() {
        let i = i as u64;
        *x = ((seed * 7 + i * 13 + (i / 64) * seed) % 256) as u8;
    }
    b
}

fn mk_packet(ty: u16, len: usize, seed: u64) -> Vec<u8> {
    let mut v = Vec::with_capacity(298);
    v.extend_from_slice(&ty.to_be_bytes());
    v.extend_from_slice(&id_bytes(seed));
    v.extend_from_slice(&[0xee; 40]);
    v.truncate(len);
    v
}

fn fnv64(b: &[u8]) -> u64 {
    let mut h: u64 = 0xcbf29ce484222325;
    for x in b {
        h ^= *x as u64;
        h = h.wrapping_mul(0x100000001b3);
    }
    h
}

fn id_tag(b: &[u8]) -> String {
    format!("{}/{}", to_hex(&b[..b.len().min(4)]), fnv64(b))
}

struct Sent {
    kind: &'static str,
    target: Option<usize>, // None = broadcast
    pkt: Vec<u8>,
}

/// Real-code state of one case plus the monitors' ghost history.
struct Case {
    inited: bool,
    fresh: bool,
    n: usize,
    reg: SrtlaRegistrationManager,
    conns: SmallVec<SrtlaConnection, 4>,
    // ---- ghost (computed from the op stream and the emitted packets only) ----
    /// uplinks with a REG1 sent and neither answered (full REG2 from that uplink), cancelled
    /// (REG_ERR) nor abandoned (4 s since the last REG1)
    outstanding: BTreeSet<usize>,
    last_reg1_at: u64,
    acc_since_bcast: bool,
    cur_id: [u8; 256],
    n_acc: u64,
    n_bc: u64,
    /// an attempt was abandoned by timeout and no new REG1 has gone out yet
    abandoned: bool,
    /// sockets for driving the real `handle_housekeeping` (created by the first `hktick`)
    shell: Option<ShellIo>,
    /// time of the first REG1 of the attempt that is outstanding now (side observations only)
    attempt_started_at: u64,
    /// links whose uplink binder is made to fail (op `bindfail`)
    bind_fail: Vec<bool>,
}

/// A binder that refuses: `reconnect_uplink` fails, housekeeping falls back to `mark_for_recovery`.
fn failing_binder() -> Arc<dyn srtla_send::net::UplinkBinder> {
    Arc::new(srtla_send::net::CallbackBinder(|_fd: std::os::fd::RawFd, _ip: std::net::IpAddr| -> std::io::Result<()> {
        Err(std::io::Error::other("verif: interface gone"))
    }))
}

/// The shell-owned I/O the real `handle_housekeeping` needs: one connected loopback socket per
/// uplink, and one receiver socket per uplink standing for the SRTLA receiver (what arrives there is
/// what the sender put on that uplink's wire).
struct ShellIo {
    conn_io: ConnIoMap,
    receivers: Vec<std::net::UdpSocket>,
    reader_handles: HashMap<ConnectionId, ReaderHandle>,
    packet_tx: UnboundedSender<UplinkPacket>,
    _packet_rx: UnboundedReceiver<UplinkPacket>,
    all_failed_at: Option<u64>,
}

impl Drop for ShellIo {
    fn drop(&mut self) {
        for (_, h) in self.reader_handles.drain() {
            h.handle.abort();
        }
    }
}

const END_MARK: &[u8] = b"\xff\xfeEND-OF-TICK";

pub struct RegComp {
    rt: tokio::runtime::Runtime,
    listener: UdpSocket,
    fwd_tx: UnboundedSender<(SocketAddr, SmallVec<u8, 64>)>,
    _fwd_rx: UnboundedReceiver<(SocketAddr, SmallVec<u8, 64>)>,
    case: Case,
}

fn fresh_case() -> Case {
    verif_clock::set(Some(0));
    Case {
        inited: false,
        fresh: false,
        n: 0,
        reg: SrtlaRegistrationManager::new(),
        conns: SmallVec::new(),
        outstanding: BTreeSet::new(),
        last_reg1_at: 0,
        acc_since_bcast: false,
        cur_id: [0; 256],
        n_acc: 0,
        n_bc: 0,
        abandoned: false,
        shell: None,
        attempt_started_at: 0,
        bind_fail: Vec::new(),
    }
}

impl RegComp {
    fn new() -> Self {
        let rt = tokio::runtime::Builder::new_current_thread().enable_all().build().unwrap();
        let listener = rt.block_on(async { UdpSocket::bind("127.0.0.1:0").await.unwrap() });
        let (fwd_tx, fwd_rx) = unbounded_channel();
        RegComp { rt, listener, fwd_tx, _fwd_rx: fwd_rx, case: fresh_case() }
    }
}

impl Case {
    fn conn_flags(&self) -> Vec<bool> {
        self.conns.iter().map(|c| c.connected).collect()
    }

    fn show_send(&self, s: &Sent) -> String {
        let body = if s.pkt.len() >= 2 { &s.pkt[2..] } else { &[][..] };
        let tgt = match s.target {
            Some(i) => i.to_string(),
            None => "*".into(),
        };
        let idt = if body == self.reg.verif_probe_id() { "P".to_string() } else { id_tag(body) };
        format!("{}>{}:{}:{}:{}", s.kind, tgt, to_hex(&s.pkt[..s.pkt.len().min(2)]), s.pkt.len(), idt)
    }

    fn obs(&self, out: &[Sent]) -> String {
        let st = self.reg.verif_state();
        let outs = if out.is_empty() {
            "-".to_string()
        } else {
            out.iter().map(|s| self.show_send(s)).collect::<Vec<_>>().join(",")
        };
        let pr: Vec<String> =
            st.probe_results.iter().map(|(i, s, r)| format!("{}:{}:{}", i, s, show_opt(*r))).collect();
        let conn: Vec<&str> = self.conns.iter().map(|c| show_bool(c.connected)).collect();
        format!(
            "out={} pend={} pto={} act={} hc={} bp={} tgt={} ns={} ps={} pr=[{}] id={} conn=[{}]",
            outs,
            show_opt(st.pending_reg2_idx),
            st.pending_timeout_at_ms,
            st.active_connections,
            show_bool(st.has_connected),
            show_bool(st.broadcast_reg2_pending),
            show_opt(st.reg1_target_idx),
            st.reg1_next_send_at_ms,
            st.probing_state,
            pr.join(","),
            id_tag(&self.reg.srtla_id),
            conn.join(",")
        )
    }

    // ------------------------------------------------------------------ monitors (ghost-based)

    /// A REG1 left the manager towards `target`.
    fn on_reg1_emit(&mut self, target: usize, pkt: &[u8], now: u64, mon: &mut Mon, path: &str, from_driver: bool) {
        if !self.outstanding.is_empty() && !self.outstanding.contains(&target) {
            mon.fail(
                P,
                "two-outstanding",
                format!(
                    "{path}: REG1 to uplink {target} at {now} while a REG1 is outstanding on {:?} (sent {})",
                    self.outstanding, self.last_reg1_at
                ),
            );
        }
        if pkt.len() != 258 || pkt[..2] != T_REG1.to_be_bytes() || pkt[2..] != self.cur_id {
            // C15: every frame the sender builds decodes back to the values it was built from (here: the
            // currently adopted id, bytes 2..258 of a 258-byte REG1)
            mon.fail(
                "C15",
                "built-frame-does-not-decode-back",
                format!("{path}: REG1 to uplink {target} decodes to id {} but the manager's current id is {}", id_tag(&pkt[2.min(pkt.len())..]), id_tag(&self.cur_id)),
            );
            mon.fail(
                P,
                "stale-id-emitted",
                format!(
                    "{path}: REG1 to uplink {target} is not REG1(current id): len={} type={} id={} expected id={}",
                    pkt.len(),
                    to_hex(&pkt[..2.min(pkt.len())]),
                    id_tag(&pkt[2.min(pkt.len())..]),
                    id_tag(&self.cur_id)
                ),
            );
        }
        if self.outstanding.is_empty() {
            self.attempt_started_at = now;
        }
        // A REG1 that the DRIVER repeats on the uplink it is already awaiting REG2 on is not a new
        // attempt: the 4 s of "an unanswered REG1 is abandoned after the 4 s timeout" keep running
        // from the REG1 that opened the attempt (only the reconnect re-send, on a fresh socket, and
        // a REG_NGP-triggered REG1 after an abandonment start a new wait).
        let driver_repeat = self.outstanding.contains(&target) && from_driver;
        if driver_repeat {
            mon.count("drv-reg1-repeat-while-pending");
        } else {
            self.last_reg1_at = now;
        }
        self.outstanding.insert(target);
        self.abandoned = false;
    }

    /// A registration REG2 (reconnect re-send or broadcast) left the manager.
    fn on_reg2_emit(&mut self, pkt: &[u8], mon: &mut Mon, path: &str) {
        if pkt.len() != 258 || pkt[..2] != T_REG2.to_be_bytes() || pkt[2..] != self.cur_id {
            mon.fail(
                "C15",
                "built-frame-does-not-decode-back",
                format!("{path}: REG2 decodes to id {} but the manager's current id is {}", id_tag(&pkt[2.min(pkt.len())..]), id_tag(&self.cur_id)),
            );
            mon.fail(
                P,
                "stale-id-emitted",
                format!(
                    "{path}: REG2 is not REG2(current id): len={} type={} id={} expected id={}",
                    pkt.len(),
                    to_hex(&pkt[..2.min(pkt.len())]),
                    id_tag(&pkt[2.min(pkt.len())..]),
                    id_tag(&self.cur_id)
                ),
            );
        }
    }

    fn after_op(&mut self, pre_conn: &[bool], reg3_on: Option<usize>, mon: &mut Mon, what: &str) {
        if self.outstanding.len() > 1 {
            mon.fail(P, "two-outstanding", format!("{what}: outstanding REG1 on {:?}", self.outstanding));
        }
        for (k, c) in self.conns.iter().enumerate() {
            if c.connected && !pre_conn.get(k).copied().unwrap_or(false) && reg3_on != Some(k) {
                mon.fail(
                    P,
                    "connected-without-reg3",
                    format!("{what}: uplink {k} became connected without a REG3 received on it"),
                );
            }
        }
        if self.reg.srtla_id != self.cur_id {
            mon.fail(
                P,
                "id-not-adopted",
                format!(
                    "{what}: manager id {} differs from the id of the last full REG2 from the REG1 uplink {}",
                    id_tag(&self.reg.srtla_id),
                    id_tag(&self.cur_id)
                ),
            );
            // resynchronise so that one defect is reported once
            self.cur_id = self.reg.srtla_id;
        }
    }

    // ------------------------------------------------------------------ atomic steps on the real code

    /// `real_shell = false`: the real `process_uplink_packet`; the immediate REG1 is the returned effect.
    /// `real_shell = true`: the real `handle_uplink_packet` (looks the uplink up by conn id, calls
    /// `process_uplink_packet`, transmits the immediate REG1 on that uplink's socket); the immediate REG1
    /// is what arrives at the uplinks' receiver sockets.
    fn do_pkt(
        &mut self,
        env: &RegEnv,
        idx: usize,
        now: u64,
        data: &[u8],
        mon: &mut Mon,
        real_shell: bool,
    ) -> Option<(Vec<Sent>, Option<Vec<Vec<Vec<u8>>>>)> {
        if real_shell {
            self.ensure_shell(env);
        }
        verif_clock::set(Some(now));
        let pre: VerifRegState = self.reg.verif_state();
        let pre_id = self.reg.srtla_id;
        let pre_conn = self.conn_flags();
        let ty = if data.len() >= 2 { Some(u16::from_be_bytes([data[0], data[1]])) } else { None };

        let mut wire: Option<Vec<Vec<Vec<u8>>>> = None;
        let reg1_send: Option<Vec<u8>> = if real_shell {
            let res = {
                let packet = UplinkPacket { conn_id: self.conns[idx].conn_id, bytes: SmallVec::from_slice_copy(data) };
                let conns = &mut self.conns;
                let reg = &mut self.reg;
                let sh = self.shell.as_ref().unwrap();
                let tracker = SequenceTracker::new();
                let cfg = srtla_core::config_snapshot::ConfigSnapshot::default();
                std::panic::catch_unwind(std::panic::AssertUnwindSafe(|| {
                    env.rt.block_on(handle_uplink_packet(
                        packet,
                        conns,
                        &sh.conn_io,
                        reg,
                        env.fwd_tx,
                        None,
                        env.listener,
                        &tracker,
                        &cfg,
                    ))
                }))
            };
            if res.is_err() {
                mon.fail(
                    P,
                    "panic:process_uplink_packet",
                    format!("hkpkt idx={idx} now={now} type={:?} len={}: handle_uplink_packet panicked", ty, data.len()),
                );
                return None;
            }
            let per_link = self.collect_wire(now, mon);
            let mut first = None;
            for (i, pk) in per_link.iter().enumerate() {
                for p in pk {
                    if i == idx && p[..2] == T_REG1.to_be_bytes() && first.is_none() {
                        first = Some(p.clone());
                    } else {
                        mon.fail(
                            P,
                            "unexpected-packet-on-receive",
                            format!(
                                "hkpkt idx={idx} now={now}: receive path put type {} on uplink {i} (only one REG1 on the arrival uplink is allowed)",
                                to_hex(&p[..2])
                            ),
                        );
                    }
                }
            }
            wire = Some(per_link);
            first
        } else {
            let res = {
                let conn = &mut self.conns[idx];
                let reg = &mut self.reg;
                std::panic::catch_unwind(std::panic::AssertUnwindSafe(|| {
                    env.rt.block_on(process_uplink_packet(conn, idx, reg, env.listener, env.fwd_tx, None, data))
                }))
            };
            match res {
                Ok(Ok(i)) => i.reg1_send.map(|p| p.to_vec()),
                Ok(Err(e)) => {
                    mon.fail(P, "error:process_uplink_packet", format!("pkt idx={idx} now={now} len={}: {e}", data.len()));
                    return None;
                }
                Err(_) => {
                    mon.fail(
                        P,
                        "panic:process_uplink_packet",
                        format!("pkt idx={idx} now={now} type={:?} len={}: the receive arm panicked", ty, data.len()),
                    );
                    return None;
                }
            }
        };
        let post = self.reg.verif_state();
        let what = format!("pkt idx={idx} now={now} type={} len={}", show_opt(ty.map(|t| format!("{t:04x}"))), data.len());
        let mut out = Vec::new();

        // --- REG2: acceptance rule
        let accepted_obs = self.reg.srtla_id != pre_id
            || (!pre.broadcast_reg2_pending && post.broadcast_reg2_pending)
            || (ty == Some(T_REG2) && pre.pending_reg2_idx.is_some() && post.pending_reg2_idx.is_none());
        let spec_accept = ty == Some(T_REG2) && data.len() >= 258 && self.outstanding.contains(&idx);
        if accepted_obs {
            if ty != Some(T_REG2) {
                mon.fail(P, "id-changed-without-reg2", format!("{what}: id/broadcast flag changed by a non-REG2 packet"));
            } else {
                if !self.outstanding.contains(&idx) {
                    mon.fail(
                        P,
                        "reg2-accepted-wrong-link",
                        format!("{what}: REG2 accepted but REG1 outstanding on {:?}", self.outstanding),
                    );
                }
                if data.len() < 258 {
                    mon.fail(P, "reg2-accepted-short", format!("{what}: REG2 shorter than 258 accepted"));
                }
            }
        }
        if ty == Some(T_REG2) {
            if data.len() < 258 {
                mon.count("reg2-short");
            } else if !self.outstanding.contains(&idx) {
                mon.count(if self.outstanding.is_empty() { "reg2-late-or-unsolicited" } else { "reg2-wrong-link" });
            }
            if data.len() > 258 {
                mon.count("reg2-overlong");
            }
        }
        if spec_accept {
            mon.count("reg2-accept");
            if self.acc_since_bcast {
                mon.count("accept-superseded-before-broadcast");
            }
            let mut want = [0u8; 256];
            want.copy_from_slice(&data[2..258]);
            if self.reg.srtla_id != want || post.pending_reg2_idx.is_some() {
                mon.fail(
                    P,
                    "id-not-adopted",
                    format!(
                        "{what}: full REG2 from the REG1 uplink; id after = {} expected {} pending after = {:?}",
                        id_tag(&self.reg.srtla_id),
                        id_tag(&want),
                        post.pending_reg2_idx
                    ),
                );
            }
            // C15 (REG2 layout, decode side): the accepted reply's id is bytes 2..258 of the frame, all 256 of them
            if self.reg.srtla_id != want {
                let first = (0..256).find(|k| self.reg.srtla_id[*k] != want[*k]).unwrap_or(0);
                mon.fail(
                    "C15",
                    "reg2-id-not-decoded-in-full",
                    format!("{what}: the id adopted from a 258-byte REG2 differs from frame bytes 2..258 (first difference at id offset {first})"),
                );
            }
            self.cur_id = want;
            self.outstanding.clear();
            self.acc_since_bcast = true;
            self.n_acc += 1;
            self.abandoned = false;
        }

        // --- REG_ERR cancels
        if ty == Some(T_REGERR) {
            mon.count(if pre.pending_reg2_idx == Some(idx) {
                "regerr-on-pending"
            } else if pre.pending_reg2_idx.is_some() {
                "regerr-other-link"
            } else {
                "regerr-idle"
            });
            if post.pending_reg2_idx.is_some() || post.reg1_target_idx.is_some() || self.conns[idx].connected {
                mon.fail(
                    P,
                    "regerr-not-cancelled",
                    format!(
                        "{what}: after REG_ERR pending={:?} target={:?} connected[{idx}]={}",
                        post.pending_reg2_idx, post.reg1_target_idx, self.conns[idx].connected
                    ),
                );
            }
            self.outstanding.clear();
            self.abandoned = false;
        }

        // --- immediate REG1
        let ngp_must_answer = ty == Some(T_NGP)
            && self.abandoned
            && self.outstanding.is_empty()
            && pre.active_connections == 0
            && pre.probing_state != 2;
        if let Some(p) = reg1_send.as_ref() {
            if ty != Some(T_NGP) {
                mon.fail(P, "reg1-unsolicited", format!("{what}: immediate REG1 without REG_NGP"));
            }
            mon.count("ngp-immediate-reg1");
            if pre_conn.iter().any(|c| *c) {
                // known side observation (not alarmed): active_connections is housekeeping-stale
                mon.count("side:immediate-reg1-with-connected-link");
            }
            self.on_reg1_emit(idx, p, now, mon, &what, false);
            out.push(Sent { kind: "reg1imm", target: Some(idx), pkt: p.clone() });
        } else if ngp_must_answer {
            mon.fail(
                P,
                "timeout-not-abandoned",
                format!("{what}: REG_NGP after an abandoned attempt (active=0) was not answered with REG1"),
            );
        }
        if ty == Some(T_NGP) && reg1_send.is_none() {
            mon.count(if pre.probing_state == 2 {
                "ngp-probe-response"
            } else if pre.pending_reg2_idx.is_some() {
                "ngp-ignored-pending"
            } else if pre.active_connections > 0 {
                "ngp-ignored-active"
            } else {
                "ngp-other"
            });
        }
        if ty == Some(T_REG3) {
            mon.count("reg3");
            if !self.conns[idx].connected {
                mon.fail(P, "reg3-not-connected", format!("{what}: REG3 did not connect uplink {idx}"));
            }
        }
        if !matches!(ty, Some(T_NGP) | Some(T_REG2) | Some(T_REG3) | Some(T_REGERR)) {
            mon.count("pkt-other");
            if post != pre {
                mon.fail(P, "state-changed-by-other-packet", format!("{what}: manager state changed"));
            }
        }
        self.after_op(&pre_conn, if ty == Some(T_REG3) { Some(idx) } else { None }, mon, &what);
        Some((out, wire))
    }

    fn do_clear(&mut self, now: u64, mon: &mut Mon) {
        let pre = self.reg.verif_state();
        let pre_conn = self.conn_flags();
        let r = self.reg.clear_pending_if_timed_out(now);
        let post = self.reg.verif_state();
        let what = format!("clear_pending_if_timed_out now={now}");
        if !self.outstanding.is_empty() {
            let deadline = self.last_reg1_at + 4000;
            if now >= deadline {
                mon.count(if now == deadline { "timeout-at-deadline" } else { "timeout-past-deadline" });
                let ok = matches!(r, Some(i) if self.outstanding.contains(&i))
                    && post.pending_reg2_idx.is_none()
                    && post.reg1_target_idx.is_none();
                if !ok {
                    mon.fail(
                        P,
                        "timeout-not-abandoned",
                        format!(
                            "{what}: REG1 on {:?} sent at {} (deadline {deadline}) not abandoned: returned {:?} pending={:?} \
                             target={:?} pto={}",
                            self.outstanding, self.last_reg1_at, r, post.pending_reg2_idx, post.reg1_target_idx,
                            pre.pending_timeout_at_ms
                        ),
                    );
                }
                self.outstanding.clear();
                self.abandoned = true;
            } else {
                if now + 1 == deadline {
                    mon.count("timeout-one-before-deadline");
                }
                if r.is_some() {
                    mon.fail(
                        P,
                        "timeout-early",
                        format!("{what}: attempt sent at {} abandoned before 4000 ms", self.last_reg1_at),
                    );
                    self.outstanding.clear();
                }
            }
        } else if r.is_some() {
            mon.fail(P, "timeout-without-outstanding", format!("{what}: returned {r:?} with no outstanding REG1"));
        }
        self.after_op(&pre_conn, None, mon, &what);
    }

    fn do_pcheck(&mut self, now: u64, mon: &mut Mon) {
        verif_clock::set(Some(now));
        let pre_conn = self.conn_flags();
        if self.reg.is_probing() {
            let pre = self.reg.verif_state();
            let done = self.reg.check_probing_complete();
            if done {
                let all = pre.probe_results.iter().all(|p| p.2.is_some());
                let any = pre.probe_results.iter().any(|p| p.2.is_some());
                mon.count(if all {
                    "probing-complete-all-responded"
                } else if any {
                    "probing-complete-timeout-some"
                } else {
                    "probing-complete-timeout-none"
                });
                if now == pre.pending_timeout_at_ms {
                    mon.count("probing-timeout-at-deadline");
                }
            } else if now + 1 == pre.pending_timeout_at_ms {
                mon.count("probing-one-before-deadline");
            }
        }
        self.after_op(&pre_conn, None, mon, "probe check");
    }

    fn do_reconnect(&mut self, idx: usize, now: u64, mon: &mut Mon) -> Vec<Sent> {
        let pre_conn = self.conn_flags();
        // reconnect_uplink -> reset_for_reconnect (or mark_for_recovery on failure): both clear `connected`
        self.conns[idx].reset_for_reconnect(now);
        let mut out = Vec::new();
        let what = format!("housekeeping reconnect idx={idx} now={now}");
        match self.reg.pending_reg2_idx() {
            Some(p) if p == idx => {
                mon.count("hk-reg1-resend");
                let pkt = self.reg.build_reg1_for(idx, now);
                self.on_reg1_emit(idx, &pkt, now, mon, &what, false);
                out.push(Sent { kind: "reg1hk", target: Some(idx), pkt: pkt.to_vec() });
            }
            Some(_) => mon.count("hk-defer"),
            None => {
                mon.count("hk-reg2-resend");
                let pkt = self.reg.build_reg2(idx);
                self.on_reg2_emit(&pkt, mon, &what);
                out.push(Sent { kind: "reg2hk", target: Some(idx), pkt: pkt.to_vec() });
            }
        }
        self.after_op(&pre_conn, None, mon, &what);
        out
    }

    fn ensure_shell(&mut self, env: &RegEnv) {
        if self.shell.is_some() {
            return;
        }
        let _g = env.rt.enter();
        let mut conn_io: ConnIoMap = HashMap::new();
        let mut receivers = Vec::new();
        for c in self.conns.iter_mut() {
            let rx = std::net::UdpSocket::bind("127.0.0.1:0").expect("bind receiver");
            rx.set_read_timeout(Some(std::time::Duration::from_millis(2000))).unwrap();
            let remote = rx.local_addr().unwrap();
            let sock = socket2::Socket::new(socket2::Domain::IPV4, socket2::Type::DGRAM, Some(socket2::Protocol::UDP))
                .expect("socket");
            sock.bind(&"127.0.0.1:0".parse::<SocketAddr>().unwrap().into()).expect("bind uplink");
            sock.connect(&remote.into()).expect("connect uplink");
            sock.set_nonblocking(true).unwrap();
            // reconnect_uplink re-creates the socket bound to the link's local ip
            c.local_ip = std::net::IpAddr::V4(std::net::Ipv4Addr::LOCALHOST);
            conn_io.insert(
                c.conn_id,
                ConnIo { socket: Arc::new(BatchUdpSocket::new(sock).expect("batch socket")), binder: Arc::new(SourceIpBinder), remote },
            );
            receivers.push(rx);
        }
        let (packet_tx, packet_rx) = create_uplink_channel();
        self.shell = Some(ShellIo {
            conn_io,
            receivers,
            reader_handles: HashMap::new(),
            packet_tx,
            _packet_rx: packet_rx,
            all_failed_at: None,
        });
    }

    /// What each uplink put on the wire since the last collection (REG1/REG2 datagrams only), read at
    /// the uplink's receiver socket up to an end marker sent on the uplink's current socket.
    fn collect_wire(&mut self, now: u64, mon: &mut Mon) -> Vec<Vec<Vec<u8>>> {
        let sh = self.shell.as_mut().expect("shell io");
        let mut per_link: Vec<Vec<Vec<u8>>> = Vec::new();
        for (i, c) in self.conns.iter().enumerate() {
            let mut got = Vec::new();
            let io = sh.conn_io.get(&c.conn_id).expect("io");
            let marked = io.socket.try_send(END_MARK).is_ok();
            let mut buf = [0u8; 2048];
            while marked {
                match sh.receivers[i].recv(&mut buf) {
                    Ok(k) => {
                        if &buf[..k] == END_MARK {
                            break;
                        }
                        if k >= 2 && (buf[..2] == T_REG1.to_be_bytes() || buf[..2] == T_REG2.to_be_bytes()) {
                            got.push(buf[..k].to_vec());
                        }
                    }
                    Err(_) => {
                        mon.fail(P, "harness:marker-lost", format!("now={now}: no end marker on link {i}"));
                        break;
                    }
                }
            }
            if !marked {
                mon.fail(P, "harness:marker-not-sent", format!("now={now}: link {i}"));
            }
            per_link.push(got);
        }
        per_link
    }

    /// One pass of the REAL `handle_housekeeping`. The links in `rcs` are put into the state in which
    /// housekeeping takes its reconnect branch for them (timed out, retry allowed); every other link is
    /// put into a state in which it does not (connected: just heard from; disconnected: retry interval
    /// not elapsed). Returns, per uplink, the REG1/REG2 datagrams that arrived at that uplink's receiver.
    /// `forced = false` (op `nattick`): link state is left alone; the links that took the reconnect branch
    /// are returned next to the wire view, and the monitors use them.
    fn do_hktick(
        &mut self,
        env: &RegEnv,
        now: u64,
        rcs: &[usize],
        forced: bool,
        mon: &mut Mon,
    ) -> Option<(Vec<Vec<Vec<u8>>>, Vec<usize>)> {
        self.ensure_shell(env);
        verif_clock::set(Some(now));
        let pre = self.reg.verif_state();
        let pre_conn = self.conn_flags();
        for (i, c) in self.conns.iter_mut().enumerate() {
            if !forced {
                break;
            }
            if rcs.contains(&i) {
                c.last_received = if c.connected { Some(now.saturating_sub(c.verif_private().conn_timeout_ms)) } else { None };
                c.reconnection.startup_grace_deadline_ms = 0;
                c.reconnection.last_reconnect_attempt_ms = 0;
                if !c.is_timed_out(now) || !c.should_attempt_reconnect(now) {
                    mon.fail(P, "harness:cannot-force-reconnect", format!("hktick now={now}: link {i} not forced"));
                }
            } else if c.connected {
                c.last_received = Some(now);
            } else {
                c.last_received = None;
                c.reconnection.startup_grace_deadline_ms = 0;
                c.reconnection.last_reconnect_attempt_ms = now - 1;
                if !c.is_timed_out(now) || c.should_attempt_reconnect(now) {
                    mon.fail(P, "harness:cannot-hold-link", format!("hktick now={now}: link {i} would reconnect"));
                }
            }
        }
        let forced_attempt: Vec<u64> = self.conns.iter().map(|c| c.reconnection.last_reconnect_attempt_ms).collect();
        let sh = self.shell.as_mut().unwrap();
        let res = {
            let conns = &mut self.conns;
            let reg = &mut self.reg;
            let ShellIo { conn_io, reader_handles, packet_tx, all_failed_at, .. } = sh;
            std::panic::catch_unwind(std::panic::AssertUnwindSafe(|| {
                env.rt.block_on(handle_housekeeping(
                    conns,
                    conn_io,
                    reg,
                    false,
                    now,
                    all_failed_at,
                    reader_handles,
                    packet_tx,
                ))
            }))
        };
        if res.is_err() {
            mon.fail(P, "panic:handle_housekeeping", format!("hktick now={now} rcs={rcs:?}: housekeeping panicked"));
            return None;
        }
        let per_link = self.collect_wire(now, mon);

        // which links really took the reconnect branch: record_reconnect_attempt stamped them with `now`
        let eff: Vec<usize> = self
            .conns
            .iter()
            .enumerate()
            .filter(|(i, c)| c.reconnection.last_reconnect_attempt_ms == now && forced_attempt[*i] != now)
            .map(|(i, _)| i)
            .collect();
        let post = self.reg.verif_state();
        let probing_completed = (pre.probing_state == 1 || pre.probing_state == 2) && post.probing_state == 3;
        for i in rcs {
            if forced && !eff.contains(i) {
                // housekeeping gives the link selected by a just-completed probing phase a new grace period
                if probing_completed && self.conns[*i].reconnection.connection_established_ms == 0 {
                    mon.count("hk-grace-reset-skips-reconnect");
                } else {
                    mon.fail(P, "harness:cannot-force-reconnect", format!("hktick now={now}: link {i} skipped the reconnect branch"));
                }
            }
        }
        if forced && eff.iter().any(|i| !rcs.contains(i)) {
            mon.fail(P, "harness:cannot-hold-link", format!("hktick now={now}: reconnect branch taken by {eff:?}, asked {rcs:?}"));
        }
        let rcs: &[usize] = &eff;

        // ---- monitors from the wire view (ghost only; the manager's state is not consulted)
        let what = format!("real handle_housekeeping now={now} rcs={rcs:?}");
        let mut abandoned_now = false;
        if !self.outstanding.is_empty() && now >= self.last_reg1_at + 4000 {
            mon.count(if now == self.last_reg1_at + 4000 { "timeout-at-deadline" } else { "timeout-past-deadline" });
            self.outstanding.clear();
            self.abandoned = true;
            abandoned_now = true;
        }
        let hk_outstanding = self.outstanding.clone();
        let registered = self.conns.iter().filter(|c| c.connected).count();
        let mut bcast: Option<usize> = None;
        let mut bcast_pkt: Option<Vec<u8>> = None;
        let mut any_reg1 = false;
        for (i, pk) in per_link.iter().enumerate() {
            let mut reg2s = 0usize;
            for p in pk {
                if p[..2] == T_REG1.to_be_bytes() {
                    any_reg1 = true;
                    let is_hk_resend = rcs.contains(&i) && hk_outstanding.contains(&i);
                    if !is_hk_resend {
                        mon.count("drv-reg1");
                        // a REG1 that is not the reconnect re-send to the pending uplink comes from the driver
                        if registered != 0 {
                            mon.fail(
                                P,
                                "reg1-while-active",
                                format!("{what}: driver REG1 to {i} with {registered} connected uplinks"),
                            );
                        }
                    } else {
                        mon.count("hk-reg1-resend");
                        // side observation (not alarmed): the re-send renews the 4000 ms wait
                        mon.count("side:deadline-renewed-by-housekeeping-resend");
                    }
                    self.on_reg1_emit(i, p, now, mon, &what, !is_hk_resend);
                } else {
                    reg2s += 1;
                    self.on_reg2_emit(p, mon, &what);
                    bcast_pkt = Some(p.clone());
                }
            }
            let expected_hk_reg2 = usize::from(rcs.contains(&i) && hk_outstanding.is_empty());
            if expected_hk_reg2 == 1 {
                mon.count("hk-reg2-resend");
            } else if rcs.contains(&i) && !hk_outstanding.contains(&i) {
                mon.count("hk-defer");
            }
            let b = reg2s.wrapping_sub(expected_hk_reg2);
            match bcast {
                None => bcast = Some(b),
                Some(b0) if b0 != b => mon.fail(
                    P,
                    "broadcast-partial",
                    format!("{what}: uplink {i} got {reg2s} REG2 (expected {expected_hk_reg2} re-send + the same broadcast count as the others)"),
                ),
                _ => {}
            }
        }
        match bcast {
            Some(0) | None => {
                if self.acc_since_bcast && !per_link.is_empty() {
                    mon.fail(P, "broadcast-missing", format!("{what}: a REG2 was accepted since the last broadcast, none sent"));
                    self.acc_since_bcast = false;
                }
            }
            Some(1) => {
                mon.count("broadcast");
                if !self.acc_since_bcast {
                    mon.fail(P, "broadcast-twice", format!("{what}: broadcast without an acceptance since the last one"));
                }
                self.acc_since_bcast = false;
                self.n_bc += 1;
                let _ = bcast_pkt;
            }
            Some(k) => mon.fail(P, "broadcast-twice", format!("{what}: {k} broadcast rounds in one pass")),
        }
        if abandoned_now && !any_reg1 && self.reg.pending_reg2_idx().is_some() {
            mon.fail(
                P,
                "timeout-not-abandoned",
                format!("{what}: attempt older than 4000 ms still pending after the pass (pto before = {})", pre.pending_timeout_at_ms),
            );
        }
        if !self.outstanding.is_empty() && now >= self.attempt_started_at + 4000 {
            // side observation (not alarmed): measured from the FIRST REG1 of this attempt the 4 s are over,
            // but housekeeping re-sends keep renewing the wait
            mon.count("side:attempt-older-than-4s-still-pending");
        }
        self.after_op(&pre_conn, None, mon, &what);
        Some((per_link, eff))
    }

    fn obs_wire(&self, per_link: &[Vec<Vec<u8>>]) -> String {
        let links: Vec<String> = per_link
            .iter()
            .enumerate()
            .map(|(i, pk)| {
                let items: Vec<String> = pk
                    .iter()
                    .map(|p| {
                        let body = &p[2..];
                        let idt = if body == self.reg.verif_probe_id() { "P".to_string() } else { id_tag(body) };
                        format!("{}:{}:{}", to_hex(&p[..2]), p.len(), idt)
                    })
                    .collect();
                format!("{}:[{}]", i, items.join(","))
            })
            .collect();
        let o = self.obs(&[]);
        // replace the leading "out=-" by the wire view
        format!("rx={}{}", links.join("|"), &o["out=-".len()..])
    }

    fn do_drop(&mut self, idx: usize, mon: &mut Mon) {
        let pre_conn = self.conn_flags();
        self.conns[idx].mark_for_recovery();
        self.after_op(&pre_conn, None, mon, "drop");
    }

    fn do_upd(&mut self, mon: &mut Mon) {
        let pre_conn = self.conn_flags();
        self.reg.update_active_connections(&self.conns);
        self.after_op(&pre_conn, None, mon, "update_active_connections");
    }

    /// `in_tick`: the driver runs right after `update_active_connections`, so "no uplink is
    /// registered" is checked against the links themselves; for a bare `drv` op it is checked
    /// against the count the manager was last given.
    fn do_driver(&mut self, now: u64, in_tick: bool, mon: &mut Mon) -> Vec<Sent> {
        let pre = self.reg.verif_state();
        let pre_conn = self.conn_flags();
        let sends = self.reg.reg_driver_pending_sends(self.n, now);
        let what = format!("reg_driver_pending_sends now={now}");
        let mut out = Vec::new();
        if let Some((idx, pkt)) = sends.reg1 {
            mon.count("drv-reg1");
            let registered = pre_conn.iter().filter(|c| **c).count();
            if pre.active_connections != 0 || (in_tick && registered != 0) {
                mon.fail(
                    P,
                    "reg1-while-active",
                    format!("{what}: driver REG1 to {idx} with active={} connected links={registered}", pre.active_connections),
                );
            }
            self.on_reg1_emit(idx, &pkt, now, mon, &what, true);
            out.push(Sent { kind: "reg1drv", target: Some(idx), pkt: pkt.to_vec() });
        } else if pre.active_connections == 0 && pre.reg1_target_idx.is_some() {
            mon.count(if pre.pending_reg2_idx.is_some() {
                "drv-skip-pending"
            } else if now + 1 == pre.reg1_next_send_at_ms {
                "drv-throttled-one-before"
            } else {
                "drv-throttled"
            });
        }
        match sends.broadcast_reg2 {
            Some(pkt) => {
                mon.count("broadcast");
                if !self.acc_since_bcast {
                    mon.fail(
                        P,
                        "broadcast-twice",
                        format!("{what}: REG2 broadcast without a REG2 acceptance since the last broadcast"),
                    );
                }
                self.on_reg2_emit(&pkt, mon, &what);
                self.acc_since_bcast = false;
                self.n_bc += 1;
                out.push(Sent { kind: "bcast", target: None, pkt: pkt.to_vec() });
            }
            None => {
                if self.acc_since_bcast {
                    mon.fail(
                        P,
                        "broadcast-missing",
                        format!("{what}: a REG2 was accepted since the last broadcast but the driver did not broadcast"),
                    );
                    self.acc_since_bcast = false;
                }
            }
        }
        if self.n_bc > self.n_acc {
            mon.fail(P, "broadcast-twice", format!("{what}: {} broadcasts for {} acceptances", self.n_bc, self.n_acc));
        }
        self.after_op(&pre_conn, None, mon, &what);
        out
    }
}

struct RegEnv<'a> {
    rt: &'a tokio::runtime::Runtime,
    listener: &'a UdpSocket,
    fwd_tx: &'a UnboundedSender<(SocketAddr, SmallVec<u8, 64>)>,
}

fn parse_type(s: &str) -> Option<u16> {
    if s.len() != 4 {
        return None;
    }
    let b = parse_hex(s)?;
    Some(u16::from_be_bytes([b[0], b[1]]))
}

fn parse_u(s: &str) -> Option<u64> {
    if s.is_empty() || !s.bytes().all(|c| c.is_ascii_digit()) {
        return None;
    }
    s.parse().ok()
}

fn strictly_inc(l: &[usize]) -> bool {
    l.windows(2).all(|w| w[0] < w[1])
}

/// Execute one op on `case`. Returns the observation line.
fn exec_op(case: &mut Case, env: &RegEnv, toks: &[&str], mon: &mut Mon) -> String {
    const BAD: &str = "bad-op";
    macro_rules! get {
        ($e:expr) => {
            match $e {
                Some(v) => v,
                None => return BAD.into(),
            }
        };
    }
    match toks {
        ["init", n, seed] | ["init", n, seed, _] => {
            let n = get!(parse_u(n)) as usize;
            let seed = get!(parse_u(seed));
            let born: Option<u64> = match toks.get(3) {
                Some(t) => Some(get!(parse_u(t))),
                None => None,
            };
            if case.inited || n > 8 {
                return BAD.into();
            }
            verif_clock::set(Some(born.unwrap_or(0)));
            let conns: SmallVec<SrtlaConnection, 4> = match born {
                // natural link state: exactly what connect_uplink builds at `born`
                Some(t0) => (0..n)
                    .map(|i| {
                        SrtlaConnection::new_registering(
                            900_000 + i as u64,
                            format!("nat-{i}"),
                            std::net::IpAddr::V4(std::net::Ipv4Addr::LOCALHOST),
                            t0,
                        )
                    })
                    .collect(),
                None => {
                    let mut conns = env.rt.block_on(srtla_core::test_helpers::create_test_connections(n));
                    for c in conns.iter_mut() {
                        // a fresh uplink is not connected (SrtlaConnection::new_registering: connected = false)
                        c.mark_for_recovery();
                    }
                    conns
                }
            };
            case.bind_fail = vec![false; n];
            case.conns = conns;
            case.n = n;
            case.inited = true;
            case.fresh = true;
            // the random start-up id is replaced by a reproducible one (public field)
            case.reg.srtla_id = id_bytes(seed);
            case.cur_id = case.reg.srtla_id;
            if case.reg.verif_probe_id() == case.reg.srtla_id {
                return "probe-id-collision".into();
            }
            case.obs(&[])
        }
        ["probe_start", now] => {
            let now = get!(parse_u(now));
            if !(case.inited && case.fresh) {
                return BAD.into();
            }
            case.fresh = false;
            let pre_conn = case.conn_flags();
            let probes = case.reg.start_probing(&mut case.conns, now);
            let pid = case.reg.verif_probe_id();
            let mut out = Vec::new();
            for (i, p) in probes {
                if p.len() != 258 || p[..2] != T_REG2.to_be_bytes() || p[2..] != pid {
                    mon.fail(P, "probe-not-probe-id", format!("probe to {i} does not carry the probe id"));
                }
                out.push(Sent { kind: "probe", target: Some(i), pkt: p.to_vec() });
            }
            mon.count("probe-start");
            case.after_op(&pre_conn, None, mon, "start_probing");
            case.obs(&out)
        }
        ["pkt", idx, now, ty, len, seed] => {
            let idx = get!(parse_u(idx)) as usize;
            let now = get!(parse_u(now));
            let ty = get!(parse_type(ty));
            let len = get!(parse_u(len)) as usize;
            let seed = get!(parse_u(seed));
            if !case.inited || idx >= case.n {
                return BAD.into();
            }
            case.fresh = false;
            let data = mk_packet(ty, len, seed);
            match case.do_pkt(env, idx, now, &data, mon, false) {
                Some((out, _)) => case.obs(&out),
                None => "PANIC".into(),
            }
        }
        ["hkpkt", idx, now, ty, len, seed] => {
            let idx = get!(parse_u(idx)) as usize;
            let now = get!(parse_u(now));
            let ty = get!(parse_type(ty));
            let len = get!(parse_u(len)) as usize;
            let seed = get!(parse_u(seed));
            if !case.inited || idx >= case.n {
                return BAD.into();
            }
            case.fresh = false;
            mon.count("hkpkt-real-handle_uplink_packet");
            let data = mk_packet(ty, len, seed);
            match case.do_pkt(env, idx, now, &data, mon, true) {
                Some((_, Some(wire))) => case.obs_wire(&wire),
                _ => "PANIC".into(),
            }
        }
        ["tick", now, rcs] => {
            let now = get!(parse_u(now));
            let rcs: Vec<usize> = get!(parse_list::<u64>(rcs)).into_iter().map(|x| x as usize).collect();
            if !case.inited || rcs.iter().any(|i| *i >= case.n) || !strictly_inc(&rcs) {
                return BAD.into();
            }
            case.fresh = false;
            mon.count("tick");
            let mut out = Vec::new();
            case.do_clear(now, mon);
            case.do_pcheck(now, mon);
            for i in rcs {
                out.extend(case.do_reconnect(i, now, mon));
            }
            case.do_upd(mon);
            out.extend(case.do_driver(now, true, mon));
            case.obs(&out)
        }
        ["hktick", now, rcs] => {
            let now = get!(parse_u(now));
            let rcs: Vec<usize> = get!(parse_list::<u64>(rcs)).into_iter().map(|x| x as usize).collect();
            if !case.inited || now < 100_000 || rcs.iter().any(|i| *i >= case.n) || !strictly_inc(&rcs) {
                return BAD.into();
            }
            case.fresh = false;
            mon.count("hktick-real-housekeeping");
            match case.do_hktick(env, now, &rcs, true, mon) {
                Some((per_link, _)) => case.obs_wire(&per_link),
                None => "PANIC".into(),
            }
        }
        ["nattick", now, rcs] => {
            // the REAL handle_housekeeping on the links' natural state; `rcs` must be the set of links
            // that take the reconnect branch (the generator learns it from a scratch run)
            let now = get!(parse_u(now));
            let rcs: Vec<usize> = get!(parse_list::<u64>(rcs)).into_iter().map(|x| x as usize).collect();
            if !case.inited || rcs.iter().any(|i| *i >= case.n) || !strictly_inc(&rcs) {
                return BAD.into();
            }
            case.fresh = false;
            mon.count("nattick-real-housekeeping-natural-link-state");
            match case.do_hktick(env, now, &rcs, false, mon) {
                Some((per_link, eff)) => {
                    if eff == rcs {
                        case.obs_wire(&per_link)
                    } else {
                        format!("reconnect-set-differs real={}", join_list(&eff))
                    }
                }
                None => "PANIC".into(),
            }
        }
        ["bindfail", idx, flag] => {
            let idx = get!(parse_u(idx)) as usize;
            let flag = match *flag {
                "1" => true,
                "0" => false,
                _ => return BAD.into(),
            };
            if !case.inited || idx >= case.n {
                return BAD.into();
            }
            case.fresh = false;
            case.ensure_shell(env);
            case.bind_fail[idx] = flag;
            let id = case.conns[idx].conn_id;
            if let Some(io) = case.shell.as_mut().unwrap().conn_io.get_mut(&id) {
                io.binder = if flag { failing_binder() } else { Arc::new(SourceIpBinder) };
            }
            mon.count("bindfail");
            case.obs(&[])
        }
        ["clear", now] => {
            let now = get!(parse_u(now));
            if !case.inited {
                return BAD.into();
            }
            case.fresh = false;
            case.do_clear(now, mon);
            case.obs(&[])
        }
        ["pcheck", now] => {
            let now = get!(parse_u(now));
            if !case.inited {
                return BAD.into();
            }
            case.fresh = false;
            case.do_pcheck(now, mon);
            case.obs(&[])
        }
        ["hkrc", idx, now] => {
            let idx = get!(parse_u(idx)) as usize;
            let now = get!(parse_u(now));
            if !case.inited || idx >= case.n {
                return BAD.into();
            }
            case.fresh = false;
            let out = case.do_reconnect(idx, now, mon);
            case.obs(&out)
        }
        ["drop", idx] => {
            let idx = get!(parse_u(idx)) as usize;
            if !case.inited || idx >= case.n {
                return BAD.into();
            }
            case.fresh = false;
            case.do_drop(idx, mon);
            case.obs(&[])
        }
        ["upd"] => {
            if !case.inited {
                return BAD.into();
            }
            case.fresh = false;
            case.do_upd(mon);
            case.obs(&[])
        }
        ["drv", now] => {
            let now = get!(parse_u(now));
            if !case.inited {
                return BAD.into();
            }
            case.fresh = false;
            let out = case.do_driver(now, false, mon);
            case.obs(&out)
        }
        _ => BAD.into(),
    }
}

// ---------------------------------------------------------------------- generator

const OTHER_TYPES: [u16; 8] = [0x9000, 0x9100, 0x9200, 0x9212, 0x8002, 0x8003, 0x0000, 0x7fff];

fn around(rng: &mut Rng, t: u64) -> u64 {
    match rng.below(5) {
        0 => t.saturating_sub(1),
        1 | 2 => t,
        3 => t + 1,
        _ => t + rng.below(50),
    }
}

impl RegComp {
    /// State-aware generation: the ops are executed on a scratch copy of the real manager so that
    /// times can be placed at T-1 / T / T+1 of the live deadlines. Every choice comes from `rng`.
    fn gen_ops(&self, rng: &mut Rng) -> Vec<String> {
        let env = RegEnv { rt: &self.rt, listener: &self.listener, fwd_tx: &self.fwd_tx };
        let mut shadow = fresh_case();
        let mut mon = Mon::default();
        let mut ops: Vec<String> = Vec::new();
        let n = if rng.chance(1, 8) { rng.range(1, 4) } else { rng.range(2, 3) } as usize;
        let mut t: u64 = match rng.below(4) {
            0 => 0,
            1 => rng.below(5000),
            2 => 1_700_000_000_000 + rng.below(100_000),
            _ => rng.below(100_000),
        };
        // "shell mode": housekeeping passes go through the REAL handle_housekeeping over loopback sockets
        let shell_mode = rng.chance(2, 5);
        if shell_mode && t < 100_000 {
            t += 100_000;
        }
        let push = |ops: &mut Vec<String>, shadow: &mut Case, mon: &mut Mon, line: String| {
            let toks: Vec<&str> = line.split_whitespace().collect();
            // a panic of the real code while generating must not lose the case: exec reports it
            let _ = std::panic::catch_unwind(std::panic::AssertUnwindSafe(|| exec_op(shadow, &env, &toks, mon)));
            ops.push(line);
        };
        // "natural mode": links are built as connect_uplink builds them and evolve by the real
        // is_timed_out / should_attempt_reconnect / grace logic; passes run through the real
        // handle_housekeeping without forcing, the reconnecting set is learnt from the scratch run
        let natural_mode = shell_mode && rng.chance(1, 2);
        if natural_mode {
            push(&mut ops, &mut shadow, &mut mon, format!("init {} {} {}", n, rng.below(1000), t));
        } else {
            push(&mut ops, &mut shadow, &mut mon, format!("init {} {}", n, rng.below(1000)));
        }
        let probing = rng.chance(2, 5);
        if probing {
            push(&mut ops, &mut shadow, &mut mon, format!("probe_start {t}"));
        }
        let atomic_mode = rng.chance(1, 4);
        let malformed = rng.chance(1, 25);
        let len = rng.range(5, 30) as usize;
        let mut id_seed = 1000 + rng.below(1000);
        while ops.len() < len + 1 && ops.len() < 64 {
            let st = shadow.reg.verif_state();
            let conn = shadow.conn_flags();
            // --- advance time, biased to the live deadlines
            let mut cands: Vec<u64> = Vec::new();
            if st.pending_timeout_at_ms != 0 {
                cands.push(st.pending_timeout_at_ms);
            }
            if st.reg1_next_send_at_ms > t {
                cands.push(st.reg1_next_send_at_ms);
            }
            t = match rng.below(10) {
                0..=2 if !cands.is_empty() => {
                    let c = *rng.pick(&cands);
                    let v = around(rng, c);
                    if v >= t || rng.chance(1, 10) { v } else { t }
                }
                3 => t,
                4 => t + 1,
                5 => t + rng.pick(&[999u64, 1000, 1001, 3999, 4000, 4001, 1999, 2000, 2001]),
                6 => t + rng.below(300),
                7 => t + rng.below(1500),
                8 => t + rng.below(20),
                _ => t + rng.below(5000),
            };
            if malformed && rng.chance(1, 4) {
                let bad = [
                    "pkt 9 5 9211 2 0".to_string(),
                    "pkt 0 x 9211 2 0".to_string(),
                    "pkt 0 5 92 2 0".to_string(),
                    "tick 5 1,0".to_string(),
                    "tick 5 7".to_string(),
                    format!("probe_start {t}"),
                    "init 2 3".to_string(),
                    "frobnicate".to_string(),
                    "drv".to_string(),
                    "hkrc 99 1".to_string(),
                ];
                push(&mut ops, &mut shadow, &mut mon, rng.pick(&bad).clone());
                continue;
            }
            let pend = st.pending_reg2_idx;
            let any_link = rng.below(n as u64) as usize;
            let other_than = |rng: &mut Rng, p: usize| -> usize {
                if n == 1 {
                    p
                } else {
                    let mut j = rng.below(n as u64 - 1) as usize;
                    if j >= p {
                        j += 1;
                    }
                    j
                }
            };
            // REG2 lengths: full, over-long, short
            let full_len = |rng: &mut Rng| -> usize {
                match rng.below(6) {
                    0 => 259,
                    1 => 258 + rng.below(40) as usize,
                    _ => 258,
                }
            };
            let short_len = |rng: &mut Rng| -> usize { *rng.pick(&[2usize, 3, 4, 100, 256, 257, 257, 257]) };
            let tick_line = |rng: &mut Rng, t: u64, conn: &[bool], pend: Option<usize>| -> String {
                // links that take the reconnect branch this pass
                let mut rcs: Vec<usize> = Vec::new();
                for i in 0..n {
                    let p = if Some(i) == pend {
                        6
                    } else if conn[i] {
                        40
                    } else {
                        12
                    };
                    if rng.chance(1, p) {
                        rcs.push(i);
                    }
                }
                format!("{} {t} {}", if shell_mode && t >= 100_000 { "hktick" } else { "tick" }, join_list(&rcs))
            };
            let choice = rng.below(100);
            let line = if st.probing_state == 2 {
                // waiting for probe replies
                match choice {
                    0..=44 => format!("pkt {any_link} {t} 9211 {} 0", rng.pick(&[2usize, 2, 4, 258])),
                    45..=79 => tick_line(rng, t, &conn, pend),
                    80..=84 => format!("pkt {any_link} {t} 9201 {} {id_seed}", full_len(rng)),
                    85..=89 => format!("pkt {any_link} {t} 9210 2 0"),
                    90..=94 => format!("pkt {any_link} {t} 9202 2 0"),
                    _ => format!("pcheck {t}"),
                }
            } else if let Some(p) = pend {
                match choice {
                    0..=29 => {
                        id_seed += 1;
                        format!("pkt {p} {t} 9201 {} {id_seed}", full_len(rng))
                    }
                    30..=37 => format!("pkt {p} {t} 9201 {} {}", short_len(rng), id_seed + 500),
                    38..=47 => format!("pkt {} {t} 9201 {} {}", other_than(rng, p), full_len(rng), id_seed + 700),
                    48..=67 => {
                        if atomic_mode && rng.chance(1, 2) {
                            format!("clear {t}")
                        } else {
                            tick_line(rng, t, &conn, pend)
                        }
                    }
                    68..=73 => format!("pkt {p} {t} 9210 {} 0", rng.pick(&[2usize, 2, 10])),
                    74..=77 => format!("pkt {} {t} 9210 2 0", other_than(rng, p)),
                    78..=85 => format!("pkt {any_link} {t} 9211 2 0"),
                    86..=89 => format!("pkt {any_link} {t} 9202 2 0"),
                    90..=93 => format!("hkrc {} {t}", if rng.chance(2, 3) { p } else { any_link }),
                    94..=96 => format!("drv {t}"),
                    _ => format!("pkt {any_link} {t} {:04x} {} {}", rng.pick(&OTHER_TYPES), rng.below(60), rng.below(50)),
                }
            } else if st.broadcast_reg2_pending {
                match choice {
                    0..=49 => {
                        if atomic_mode && rng.chance(1, 2) {
                            format!("drv {t}")
                        } else {
                            tick_line(rng, t, &conn, pend)
                        }
                    }
                    50..=64 => format!("pkt {any_link} {t} 9211 2 0"),
                    65..=74 => format!("pkt {any_link} {t} 9201 {} {}", full_len(rng), id_seed),
                    75..=84 => format!("pkt {any_link} {t} 9202 2 0"),
                    85..=89 => format!("pkt {any_link} {t} 9210 2 0"),
                    90..=94 => format!("hkrc {any_link} {t}"),
                    _ => format!("upd"),
                }
            } else {
                // idle: no attempt pending
                match choice {
                    0..=29 => format!("pkt {any_link} {t} 9211 {} 0", rng.pick(&[2usize, 2, 2, 3, 258])),
                    30..=54 => {
                        if atomic_mode {
                            match rng.below(5) {
                                0 => format!("clear {t}"),
                                1 => format!("pcheck {t}"),
                                2 => "upd".to_string(),
                                3 => format!("drv {t}"),
                                _ => format!("hkrc {any_link} {t}"),
                            }
                        } else {
                            tick_line(rng, t, &conn, pend)
                        }
                    }
                    55..=66 => format!("pkt {any_link} {t} 9202 {} 0", rng.pick(&[2usize, 2, 2, 5])),
                    // late / duplicate / unsolicited REG2
                    67..=76 => format!(
                        "pkt {any_link} {t} 9201 {} {}",
                        if rng.chance(3, 4) { full_len(rng) } else { short_len(rng) },
                        if rng.chance(1, 2) { id_seed } else { id_seed + 900 }
                    ),
                    77..=82 => format!("pkt {any_link} {t} 9210 2 0"),
                    83..=87 => format!("drop {any_link}"),
                    88..=91 => format!("hkrc {any_link} {t}"),
                    92..=94 => format!("pkt {any_link} {t} {:04x} {} {}", rng.pick(&OTHER_TYPES), rng.below(60), rng.below(50)),
                    95..=96 => format!("pkt {any_link} {t} 9211 {} 0", rng.below(2)),
                    _ => tick_line(rng, t, &conn, pend),
                }
            };
            let line = match line.strip_prefix("pkt ") {
                Some(rest) if shell_mode => format!("hkpkt {rest}"),
                _ => line,
            };
            if natural_mode {
                if rng.chance(1, 12) {
                    let l = rng.below(n as u64) as usize;
                    let flag = !shadow.bind_fail.get(l).copied().unwrap_or(false);
                    push(&mut ops, &mut shadow, &mut mon, format!("bindfail {l} {}", u8::from(flag)));
                }
                if rng.chance(1, 10) {
                    // a keepalive reply keeps a connected link alive (refreshes last_received)
                    let l = rng.below(n as u64) as usize;
                    push(&mut ops, &mut shadow, &mut mon, format!("hkpkt {l} {t} 9000 10 0"));
                }
                if line.starts_with("tick ") || line.starts_with("hktick ") {
                    // housekeeping runs about once a second
                    if rng.chance(2, 3) {
                        t += 1000 - (t % 1000);
                    }
                    shadow.fresh = false; // as the `nattick` op does
                    let eff = match std::panic::catch_unwind(std::panic::AssertUnwindSafe(|| {
                        shadow.do_hktick(&env, t, &[], false, &mut mon)
                    })) {
                        Ok(Some((_, eff))) => eff,
                        other => {
                            eprintln!("shadow nattick failed at t={t}: panicked={} ops so far={:?}", other.is_err(), ops);
                            Vec::new()
                        }
                    };
                    ops.push(format!("nattick {t} {}", join_list(&eff)));
                    continue;
                }
            }
            push(&mut ops, &mut shadow, &mut mon, line);
        }
        ops
    }
}

// ---------------------------------------------------------------------- exhaustive families

/// Letters of the exhaustive enumeration over two uplinks. Each letter advances the clock, then acts.
const LETTERS2: usize = 12;
fn letter2(l: usize, pos: usize, t: &mut u64, tick: &str) -> String {
    match l {
        0 | 1 => {
            *t += 10;
            format!("pkt {} {} 9211 2 0", l, *t)
        }
        2 | 3 => {
            *t += 10;
            format!("pkt {} {} 9201 258 {}", l - 2, *t, 2000 + pos)
        }
        4 => {
            *t += 10;
            format!("pkt 0 {} 9201 257 {}", *t, 3000 + pos)
        }
        5 | 6 => {
            *t += 10;
            format!("pkt {} {} 9202 2 0", l - 5, *t)
        }
        7 | 8 => {
            *t += 10;
            format!("pkt {} {} 9210 2 0", l - 7, *t)
        }
        9 => format!("{tick} {} -", *t),
        10 => {
            *t += 4000;
            format!("{tick} {} -", *t)
        }
        _ => {
            *t += 1000;
            format!("{tick} {} 0", *t)
        }
    }
}

/// Letters of the exhaustive enumeration over three uplinks.
const LETTERS3: usize = 16;
fn letter3(l: usize, pos: usize, t: &mut u64) -> String {
    match l {
        0..=2 => {
            *t += 10;
            format!("pkt {} {} 9211 2 0", l, *t)
        }
        3..=5 => {
            *t += 10;
            format!("pkt {} {} 9201 258 {}", l - 3, *t, 2000 + pos)
        }
        6 => {
            *t += 10;
            format!("pkt 0 {} 9201 257 {}", *t, 3000 + pos)
        }
        7 | 8 => {
            *t += 10;
            format!("pkt {} {} 9202 2 0", l - 7, *t)
        }
        9 | 10 => {
            *t += 10;
            format!("pkt {} {} 9210 2 0", l - 9, *t)
        }
        11 => format!("tick {} -", *t),
        12 => {
            *t += 4000;
            format!("tick {} -", *t)
        }
        _ => {
            *t += 1000;
            format!("tick {} {}", *t, l - 13)
        }
    }
}

/// Depths: (2 uplinks, passes mirrored) x2 variants, (2 uplinks, real shell functions) x2 variants,
/// (3 uplinks, mirrored; 0 = family absent).
fn exhaustive_plan(tier: Tier) -> (u32, u32, u32) {
    match tier {
        Tier::Quick => (4, 4, 0),
        Tier::Thorough => (5, 4, 4),
    }
}

fn exhaustive_count(tier: Tier) -> usize {
    let (dm, dr, d3) = exhaustive_plan(tier);
    2 * LETTERS2.pow(dm) + 2 * LETTERS2.pow(dr) + if d3 > 0 { LETTERS3.pow(d3) } else { 0 }
}

/// The `idx`-th word of the exhaustive families (every word of the stated depth exactly once).
fn exhaustive_case(tier: Tier, idx: usize) -> Vec<String> {
    let (dm, dr, d3) = exhaustive_plan(tier);
    let nm = LETTERS2.pow(dm);
    let nr = LETTERS2.pow(dr);
    let mut t: u64 = 200_000;
    let mut ops = Vec::new();
    if idx < 2 * nm + 2 * nr {
        // variant: start-up probing phase or not x passes mirrored / through the REAL shell functions
        let (probing, real, depth, mut w) = if idx < 2 * nm {
            (idx >= nm, false, dm, idx % nm)
        } else {
            let j = idx - 2 * nm;
            (j >= nr, true, dr, j % nr)
        };
        let tick = if real { "hktick" } else { "tick" };
        ops.push("init 2 11".to_string());
        if probing {
            ops.push(format!("probe_start {t}"));
        }
        for pos in 0..depth as usize {
            let l = letter2(w % LETTERS2, pos, &mut t, tick);
            ops.push(match l.strip_prefix("pkt ") {
                Some(rest) if real => format!("hkpkt {rest}"),
                _ => l,
            });
            w /= LETTERS2;
        }
    } else {
        let mut w = idx - 2 * nm - 2 * nr;
        ops.push("init 3 12".to_string());
        for pos in 0..d3 as usize {
            ops.push(letter3(w % LETTERS3, pos, &mut t));
            w /= LETTERS3;
        }
    }
    ops
}

impl Component for RegComp {
    fn gen_case(&mut self, rng: &mut Rng, tier: Tier, idx: usize) -> Vec<String> {
        if idx < exhaustive_count(tier) {
            exhaustive_case(tier, idx)
        } else {
            self.gen_ops(rng)
        }
    }

    fn start_case(&mut self) {
        self.case = fresh_case();
    }

    fn exec(&mut self, toks: &[&str], mon: &mut Mon) -> String {
        let env = RegEnv { rt: &self.rt, listener: &self.listener, fwd_tx: &self.fwd_tx };
        let pre_acc = self.case.n_acc;
        let pre_bc = self.case.n_bc;
        let pre_abandoned = self.case.abandoned;
        let pre_pend = self.case.reg.pending_reg2_idx();
        let r = exec_op(&mut self.case, &env, toks, mon);
        // non-trivial: the case completed a handshake round (acceptance then broadcast), abandoned an
        // attempt by timeout, or cancelled a pending attempt by REG_ERR
        if (self.case.n_bc > pre_bc && self.case.n_acc >= 1)
            || (self.case.abandoned && !pre_abandoned)
            || (matches!(toks.first(), Some(&"pkt") | Some(&"hkpkt"))
                && toks.get(3) == Some(&"9210")
                && pre_pend.is_some()
                && self.case.reg.pending_reg2_idx().is_none())
        {
            mon.nontrivial();
        }
        let _ = pre_acc;
        r
    }

    fn end_case(&mut self, mon: &mut Mon) {
        if self.case.n_bc > self.case.n_acc {
            mon.fail(
                P,
                "broadcast-twice",
                format!("end of case: {} broadcasts for {} acceptances", self.case.n_bc, self.case.n_acc),
            );
        }
    }

    fn rule(&self) -> &'static str {
        "first, exhaustively: every word of depth 4 (quick) / 5 (thorough) over 12 event letters on 2 uplinks \
         (REG_NGP/full REG2/REG3/REG_ERR on each uplink, short REG2, tick now, tick +4000 ms, tick +1000 ms with the \
         reconnect branch of uplink 0), each without / with a start-up probing phase (2*12^4 = 41472 / 2*12^5 = 497664 \
         cases), and every word of depth 4 again with packets and passes run through the REAL handle_uplink_packet / \
         handle_housekeeping over loopback sockets (2*12^4 = 41472 cases); thorough also every word of depth 4 over 16 letters on 3 uplinks (65536 cases); then \
         state-aware random walk over 1-4 (mostly 2-3) uplinks, 5-30 events per case, 40% with a start-up probing \
         phase, 40% with every packet through the REAL handle_uplink_packet (op hkpkt) and every housekeeping pass \
         through the REAL handle_housekeeping over loopback sockets - half of those with link state forced so \
         that the requested links take the reconnect branch (op hktick), half with links built as connect_uplink \
         builds them and left to the real timeout / grace / retry logic, ~1 s pass cadence, binder failures \
         (op nattick / bindfail), 25% with housekeeping split into its atomic steps, 4% with malformed ops; packets REG_NGP / REG2 \
         (full 258, over-long, short 2..257, from the pending uplink, from another uplink, late, duplicated) / REG3 / \
         REG_ERR (pending uplink, other uplink, idle) / other types and lengths 0..1; times placed at T-1, T, T+1 of \
         the live pending / probing deadline and the REG1 retry throttle, steps of 999/1000/1001/1999/2000/2001/3999/\
         4000/4001 ms. Non-trivial = the case reached a REG2 acceptance followed by its broadcast, or abandoned an \
         attempt by timeout, or cancelled a pending attempt by REG_ERR"
    }
}

fn main() {
    verif_harness::run_main("reg", Box::new(RegComp::new()))
}
