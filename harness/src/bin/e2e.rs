//! Component `e2e`: the REAL event loop (`run_sender_with_config`) end to end on a virtual clock, against an
//! in-process SRTLA receiver and SRT source, under generated fault schedules (black-holed uplinks, a
//! receiver restart, late joiners, NAK bursts, real SIGHUP reloads). See `verif_harness::looptrace`.
//!
//! Monitor only: the op's reply is constant (the model driver checks the op's well-formedness and answers
//! the same); what is checked are clauses of C01 / C03 / C08 / C09 / C14 on what the receiver and the SRT
//! client saw, plus the C16 / C17 clauses on the loop's per-tick snapshots.

use verif_harness::looptrace as lt;
use verif_harness::{Component, Mon, Rng, Tier};

struct E2e;

impl Component for E2e {
    fn rule(&self) -> &'static str {
        "e2e: one case = one scenario of 45-80 housekeeping ticks of the real event loop on a paused, auto-advancing \
         clock: 2-3 uplinks on loopback aliases, an SRT source of 25-400 packets/s, a receiver that registers, ACKs \
         (SRTLA ACK per packet, optional NAK bursts, optional SRT ACKs that must reach the client), echoes keepalives \
         with 0-80 ms delay, black-holes an uplink for 2-14 ticks (once or twice), or restarts (forgets the group); \
         optional late admission of uplink 2 and one real SIGHUP reload adding / removing an address. Non-trivial: \
         the stream was established and at least one datagram was judged by the no-blackout monitor."
    }

    fn gen_case(&mut self, rng: &mut Rng, _tier: Tier, idx: usize) -> Vec<String> {
        vec![format!("looptrace {}", lt::generate_e2e(rng, idx).render())]
    }

    fn start_case(&mut self) {}

    fn exec(&mut self, toks: &[&str], mon: &mut Mon) -> String {
        match toks {
            ["looptrace", rest @ ..] => {
                let Some(sc) = lt::Scenario::parse(rest) else { return "bad-op".into() };
                match lt::run(&sc) {
                    Err(why) => mon.count(why),
                    Ok(trace) => {
                        mon.count("looptrace-scenario");
                        lt::monitors_e2e(&trace, &sc, mon);
                        lt::monitors_cfg(&trace, &sc, mon);
                        lt::monitors_c17(&trace.ticks, &sc, mon);
                        lt::monitors_c16(&trace.ticks, &sc, mon);
                    }
                }
                "looptrace-ok".into()
            }
            _ => "bad-op".into(),
        }
    }
}

fn main() {
    verif_harness::run_main("e2e", Box::new(E2e));
}
