//! Component `hub`: `srtla_send::subscriptions::SubscriptionHub` (C20).
//!
//! Atomic-op level: every hub call runs to completion on a current-thread tokio runtime
//! (`block_on`), wrapped in a timeout so that a call that would wait on a subscriber is reported
//! instead of hanging the run.  Logical connections own one bounded push channel each (as
//! `control_socket::handle` does) and may multiplex several subscriptions over it.
//!
//! Ops: see lean/Srtla/Drv/Hub.lean.

use std::collections::BTreeMap;
use std::future::Future;
use std::time::Duration;

use serde_json::{Value, json};
use srtla_send::subscriptions::SubscriptionHub;
use tokio::sync::mpsc;
use tokio::sync::mpsc::error::TryRecvError;

use verif_harness::util::*;
use verif_harness::{Component, Mon, Rng, Tier};

const P: &str = "C20";
/// Generous real-time bound for one hub call (they normally finish in microseconds, in one poll).
const CALL_BOUND: Duration = Duration::from_millis(250);
/// Once a call has been seen to block, later calls of the same run get a short bound so that a
/// blocking implementation is reported quickly instead of stalling the whole check.
const CALL_BOUND_AFTER_BLOCK: Duration = Duration::from_millis(3);
static SEEN_BLOCK: std::sync::atomic::AtomicBool = std::sync::atomic::AtomicBool::new(false);

struct Conn {
    /// Kept alive for the whole case, like `push_tx` in `control_socket::handle`.
    tx: mpsc::Sender<String>,
    rx: Option<mpsc::Receiver<String>>,
    /// a receiver closed with `Receiver::close()` and kept (op `shut`): the channel is closed for senders, its
    /// backlog stays queued (no permit is returned) until the case ends
    shut_rx: Option<mpsc::Receiver<String>>,
    nsubs: usize,
}

/// Monitor-side record of one subscription (built only from what the real code returned).
struct SubRec {
    topic: String,
    conn: usize,
    /// Position in `pub_log` of the last message received for this id.
    last_pos: Option<usize>,
    /// `pub_log.len()` when an `unsubscribe(id)` call returned.
    unsub_at: Option<usize>,
}

pub struct HubC {
    rt: tokio::runtime::Runtime,
    hub: SubscriptionHub,
    conns: Vec<Conn>,
    // ---- monitor state ----
    pub_log: Vec<(String, u64)>,
    subs: BTreeMap<String, SubRec>,
    delivered: u64,
    saw_full: bool,
    saw_closed: bool,
}

impl HubC {
    fn new() -> Self {
        HubC {
            rt: tokio::runtime::Builder::new_current_thread()
                .enable_time()
                .build()
                .expect("runtime"),
            hub: SubscriptionHub::new(),
            conns: Vec::new(),
            pub_log: Vec::new(),
            subs: BTreeMap::new(),
            delivered: 0,
            saw_full: false,
            saw_closed: false,
        }
    }

    /// Run one hub call to completion under a timeout; count how often it had to be polled.
    fn bounded<T>(&self, fut: impl Future<Output = T>) -> (Option<T>, usize) {
        let mut polls = 0usize;
        let mut fut = std::pin::pin!(fut);
        let bound = if SEEN_BLOCK.load(std::sync::atomic::Ordering::Relaxed) {
            CALL_BOUND_AFTER_BLOCK
        } else {
            CALL_BOUND
        };
        let r = self.rt.block_on(async {
            tokio::time::timeout(
                bound,
                std::future::poll_fn(|cx| {
                    polls += 1;
                    fut.as_mut().poll(cx)
                }),
            )
            .await
        });
        if r.is_err() {
            SEEN_BLOCK.store(true, std::sync::atomic::Ordering::Relaxed);
        }
        (r.ok(), polls)
    }

    /// Property checks on one line taken out of connection `c`'s push channel.
    fn check_line(&mut self, c: usize, line: &str, mon: &mut Mon) -> String {
        let v: Value = match serde_json::from_str(line) {
            Ok(v) => v,
            Err(_) => {
                mon.fail(P, "undecodable", format!("conn {c} received a non-JSON line: {line}"));
                return "undecodable".into();
            }
        };
        let method = v["method"].as_str().unwrap_or("?").to_string();
        let sid = v["params"]["subscription_id"].as_str().unwrap_or("?").to_string();
        let data = v["params"]["data"].as_u64();
        let obs = format!("method={method} sid={sid} data={}", show_opt(data));
        if v["jsonrpc"] != json!("2.0") || v.get("id").is_some() {
            mon.fail(P, "not-a-notification", format!("conn {c}: {line}"));
        }
        self.delivered += 1;
        mon.count("recv-msg");
        let Some(data) = data else {
            mon.fail(P, "never-published", format!("conn {c}: payload is not a published number: {line}"));
            return obs;
        };
        let npub = self.pub_log.len();
        let Some(rec) = self.subs.get_mut(&sid) else {
            mon.fail(P, "foreign-id", format!("conn {c} received an event tagged {sid}, an id never returned by subscribe"));
            return obs;
        };
        if rec.conn != c {
            mon.fail(
                P,
                "foreign-id",
                format!("conn {c} received an event tagged {sid}, which belongs to conn {}", rec.conn),
            );
        }
        if method != format!("{}.update", rec.topic) {
            mon.fail(
                P,
                "wrong-topic",
                format!("{sid} subscribed to '{}' received method '{method}'", rec.topic),
            );
            return obs;
        }
        // The received sequence must embed into the publish log of the topic (greedy = most lenient).
        let start = rec.last_pos.map(|p| p + 1).unwrap_or(0);
        let found = (start..npub).find(|&p| self.pub_log[p].0 == rec.topic && self.pub_log[p].1 == data);
        match found {
            Some(p) => {
                if let Some(u) = rec.unsub_at {
                    if p >= u {
                        mon.fail(
                            P,
                            "after-unsubscribe",
                            format!("{sid}: event data={data} of publish #{p} was enqueued although unsubscribe had returned before publish #{u}"),
                        );
                    } else {
                        mon.count("recv-drained-after-unsub");
                    }
                }
                rec.last_pos = Some(p);
            }
            None => {
                let earlier = (0..start.min(npub))
                    .rev()
                    .find(|&p| self.pub_log[p].0 == rec.topic && self.pub_log[p].1 == data);
                match earlier {
                    Some(p) if Some(p) == rec.last_pos => mon.fail(
                        P,
                        "duplicate",
                        format!("{sid}: event data={data} (publish #{p}) delivered twice"),
                    ),
                    Some(p) => mon.fail(
                        P,
                        "order",
                        format!("{sid}: event data={data} (publish #{p}) delivered after publish #{:?}", rec.last_pos),
                    ),
                    None => mon.fail(
                        P,
                        "never-published",
                        format!("{sid}: event data={data} was never published on '{}'", rec.topic),
                    ),
                }
            }
        }
        obs
    }

    /// `publish(topic, n)` with the monitor's bookkeeping.  With `race = Some(id)` the publish and an
    /// `unsubscribe(id)` run as two tasks of the same current-thread runtime (publish spawned first):
    /// wherever the implementation yields inside `publish`, the unsubscribe runs to completion, and
    /// whatever the publish then still enqueues for `id` was enqueued after unsubscribe returned.
    fn do_pub(&mut self, topic: &str, n: u64, race: Option<String>, burn: Option<usize>, mon: &mut Mon) -> String {
        // What the property obliges this publish to do, from the monitor's own records:
        let mut must_prune: Vec<String> = Vec::new();
        let mut any_live_target = false;
        for (id, rec) in &self.subs {
            if rec.topic != *topic || rec.unsub_at.is_some() {
                continue;
            }
            let conn = &self.conns[rec.conn];
            if conn.rx.is_none() {
                must_prune.push(id.clone());
            } else {
                any_live_target = true;
                if conn.tx.capacity() == 0 {
                    mon.count("target-full");
                    self.saw_full = true;
                } else {
                    mon.count("target-has-room");
                }
            }
        }
        let (len_before, _) = self.bounded(self.hub.len());
        self.pub_log.push((topic.to_string(), n));
        let mut race_out = String::new();
        let (done, polls) = match &race {
            None => {
                let (r, polls) = self.bounded(self.hub.publish(topic, json!(n)));
                (r.is_some(), polls)
            }
            Some(id) => {
                mon.count("racepub");
                let victim_tx = self.subs.get(id).map(|rec| self.conns[rec.conn].tx.clone());
                let occ = |tx: &Option<mpsc::Sender<String>>| tx.as_ref().map(|t| t.max_capacity() - t.capacity());
                let (hub_a, hub_b) = (self.hub.clone(), self.hub.clone());
                let (topic_a, id_b, vtx_b) = (topic.to_string(), id.clone(), victim_tx.clone());
                // forced yield: every acquisition of the hub mutex costs the task one unit of tokio's
                // cooperative budget (128 per poll), so a publisher task that has already made `burn`
                // acquisitions in this poll is made to yield at its (129 - burn)-th next one - sweeping
                // `burn` puts the task switch at each await point of the real `publish` in turn, and the
                // unsubscribe task runs to completion exactly there. Only for a victim whose receiver is
                // gone (then every interleaving ends in the same hub and channel state).
                let victim_closed = self.subs.get(id).is_some_and(|rec| self.conns[rec.conn].rx.is_none()) || !self.subs.contains_key(id);
                let burn_n = if victim_closed { burn.unwrap_or(0) } else { 0 };
                if burn.is_some() {
                    mon.count(if burn_n > 0 { "racepub-forced-yield" } else { "racepub-forced-yield-skipped" });
                }
                let (r, _) = self.bounded(async move {
                    let a = tokio::spawn(async move {
                        for _ in 0..burn_n {
                            let _ = hub_a.len().await;
                        }
                        hub_a.publish(&topic_a, json!(n)).await
                    });
                    let b = tokio::spawn(async move {
                        let removed = hub_b.unsubscribe(&id_b).await;
                        // queue length of the victim's channel at the moment unsubscribe returned
                        (removed, vtx_b.as_ref().map(|t| t.max_capacity() - t.capacity()))
                    });
                    let _ = a.await;
                    b.await.ok()
                });
                match r {
                    Some(Some((removed, occ_at_unsub))) => {
                        let occ_after = occ(&victim_tx);
                        if let (Some(at), Some(after)) = (occ_at_unsub, occ_after) {
                            if after > at {
                                mon.fail(
                                    P,
                                    "after-unsubscribe",
                                    format!(
                                        "{id}: publish({topic},{n}) enqueued {} event(s) on the subscriber's channel after a concurrent unsubscribe({id}) had returned (queue {at} -> {after})",
                                        after - at
                                    ),
                                );
                            }
                        }
                        let npub = self.pub_log.len();
                        match self.subs.get_mut(id) {
                            Some(rec) => {
                                if rec.unsub_at.is_none() {
                                    rec.unsub_at = Some(npub);
                                }
                            }
                            None => {
                                if removed {
                                    mon.fail(P, "removed-unknown-id", format!("unsubscribe({id}) returned true for an id never handed out"));
                                }
                            }
                        }
                        must_prune.retain(|x| x != id);
                        if burn.is_some() {
                            mon.count(if removed { "forced-yield-unsubscribe-first" } else { "forced-yield-prune-first" });
                        } else {
                            race_out = format!(" removed={}", show_bool(removed));
                        }
                        (true, 1)
                    }
                    _ => (false, 1),
                }
            }
        };
        if !done {
            mon.fail(
                P,
                "publish-blocked",
                format!("publish({topic},{n}) did not complete within {CALL_BOUND:?}: it waits on a subscriber"),
            );
            return "BLOCKED".into();
        }
        if polls > 1 {
            mon.count("multi-poll");
        }
        if !any_live_target && must_prune.is_empty() {
            mon.count("pub-no-subscriber");
        }
        // pruned: every closed subscriber of this topic is absent once publish has returned.
        // Probe with unsubscribe: it returns false (and changes nothing) iff the id is absent.
        if !must_prune.is_empty() {
            self.saw_closed = true;
            mon.count("pub-with-closed-target");
        }
        for id in &must_prune {
            let (still, _) = self.bounded(self.hub.unsubscribe(id));
            if still == Some(true) {
                mon.fail(
                    P,
                    "not-pruned",
                    format!("{id} (topic {topic}, receiver dropped) was still registered after publish({topic},{n}) returned"),
                );
            }
            if let Some(rec) = self.subs.get_mut(id) {
                rec.unsub_at = Some(self.pub_log.len() - 1);
            }
        }
        let (len_after, _) = self.bounded(self.hub.len());
        if let (Some(b), Some(a)) = (len_before, len_after) {
            if a > b {
                mon.fail(P, "publish-grew-hub", format!("len {b} -> {a} across publish"));
            }
        }
        format!("ok{race_out}")
    }

    fn gen_topic(rng: &mut Rng) -> &'static str {
        match rng.below(100) {
            0..=57 => "stats",
            58..=85 => "priority.window",
            86..=92 => "stats.update",
            _ => "foo",
        }
    }
}

impl Component for HubC {
    fn gen_case(&mut self, rng: &mut Rng, _tier: Tier, idx: usize) -> Vec<String> {
        let mut ops: Vec<String> = Vec::new();
        // Interleaving cases.  `racepub`: publish and unsubscribe of the victim as concurrent tasks, with
        // enough closed same-topic subscriptions ahead of the victim that any per-subscriber await in
        // `publish` runs the task out of tokio's cooperative budget (128) and lets the unsubscribe in.
        if idx % 20 == 13 {
            let ndead = rng.range(130, 300);
            let topic = Self::gen_topic(rng);
            ops.push("conn 1".into());
            ops.push(format!("conn {}", rng.range(2, 4)));
            let victim_first = rng.chance(1, 4);
            let mut victim = ndead;
            if victim_first {
                ops.push(format!("sub 1 {topic}"));
                victim = 0;
            }
            ops.push(format!("subn 0 {topic} {ndead}"));
            if !victim_first {
                ops.push(format!("sub 1 {topic}"));
            }
            if rng.chance(3, 4) {
                ops.push("close 0".into());
            }
            if rng.chance(1, 3) {
                ops.push(format!("pub {topic} 1"));
                ops.push("recv 1".into());
            }
            ops.push(format!("racepub {topic} 2 {victim}"));
            ops.push("recv 1".into());
            ops.push("recv 1".into());
            ops.push(format!("pub {topic} 3"));
            ops.push("recv 1".into());
            ops.push("len".into());
            return ops;
        }
        // Closed with a backlog: a subscriber whose queue is EXACTLY full closes its receiver with `Receiver::close()`
        // (`shut`: nothing drained, no permit returned) - the next publish on its topic must prune it all the same,
        // and must keep serving the live subscriber next to it.
        if idx % 20 == 17 {
            let topic = Self::gen_topic(rng);
            let cap = rng.range(1, 4);
            ops.push(format!("conn {cap}"));
            ops.push(format!("conn {}", rng.range(1, 4)));
            ops.push(format!("sub 0 {topic}"));
            ops.push(format!("sub 1 {topic}"));
            // fill conn 0 exactly (sometimes one short, sometimes over: the rest is dropped as Full)
            let fill = match rng.below(4) { 0 => cap.saturating_sub(1), 1 => cap + 1, _ => cap };
            for k in 0..fill {
                ops.push(format!("pub {topic} {k}"));
                ops.push("recv 1".into());
            }
            ops.push("shut 0".into());
            ops.push("len".into());
            if rng.chance(1, 2) {
                ops.push("recv 0".into()); // the backlog of a closed receiver is still handed out, oldest first
            }
            ops.push(format!("pub {topic} 100"));
            ops.push("len".into());
            ops.push("recv 1".into());
            for _ in 0..rng.below(6) {
                ops.push("recv 0".into()); // drained: then `gone`
            }
            ops.push(format!("pub {topic} 101"));
            ops.push("recv 1".into());
            ops.push("shut 0".into());
            ops.push("close 1".into());
            ops.push(format!("pub {topic} 102"));
            ops.push("len".into());
            return ops;
        }
        // Forced task switch at each await point of the real `publish` in turn (budget sweep 120..=131, plus the
        // second-poll values 248..=257): a closed subscriber's own unsubscribe (its connection's teardown) runs
        // between the fan-out and the prune, before the first lock, or after the call; afterwards the hub
        // must still serve the other subscriber and prune it once it closes.
        if idx % 20 == 7 {
            let topic = Self::gen_topic(rng);
            let burn = if rng.chance(3, 4) { 120 + (idx / 20) % 12 } else { 248 + (idx / 20) % 10 };
            ops.push(format!("conn {}", rng.range(1, 4)));
            ops.push(format!("conn {}", rng.range(2, 6)));
            let mut ids = 0u64;
            let extra_dead = rng.below(3);
            let victim_first = rng.chance(1, 2);
            let mut victim = 0;
            let mut other = 0;
            for slot in 0..2 {
                if (slot == 0) == victim_first {
                    victim = ids;
                    ops.push(format!("sub 0 {topic}"));
                    ids += 1;
                    for _ in 0..extra_dead {
                        ops.push(format!("sub 0 {}", Self::gen_topic(rng)));
                        ids += 1;
                    }
                } else {
                    other = ids;
                    ops.push(format!("sub 1 {topic}"));
                    ids += 1;
                }
            }
            if rng.chance(1, 3) {
                ops.push(format!("pub {topic} 1"));
                ops.push("recv 1".into());
            }
            ops.push("close 0".into());
            ops.push(format!("racepub {topic} 2 {victim} {burn}"));
            ops.push("len".into());
            ops.push("recv 1".into());
            ops.push(format!("pub {topic} 3"));
            ops.push("recv 1".into());
            match rng.below(3) {
                0 => ops.push("close 1".into()),
                1 => {
                    ops.push(format!("unsub {other}"));
                    ops.push("conn 2".into());
                    ops.push(format!("sub 2 {topic}"));
                    ops.push(format!("pub {topic} 4"));
                    ops.push("recv 2".into());
                    ops.push("close 2".into());
                }
                _ => {}
            }
            ops.push(format!("pub {topic} 5"));
            ops.push("len".into());
            ops.push(format!("pub {topic} 6"));
            ops.push("recv 1".into());
            ops.push("len".into());
            return ops;
        }
        // Real parallelism (publisher thread vs. unsubscribing thread) on a private hub.
        if idx % 400 == 3 {
            ops.push(format!("par {} {}", rng.range(16, 96), if matches!(_tier, Tier::Quick) { 150 } else { 400 }));
            ops.push(format!("prioburst {}", if matches!(_tier, Tier::Quick) { 25 } else { 100 }));
            ops.push(format!("sockbacklog {}", rng.pick(&[512usize, 256, 512])));
            ops.push(format!("subfull {}", rng.pick(&[1usize, 1, 2, 8, 128])));
            ops.push(format!("ctlunsub {} {}", rng.pick(&[0usize, 7, 8, 9, 95, 98, 990, 1]), rng.pick(&[2usize, 3, 5, 12, 25])));
            ops.push("len".into());
            return ops;
        }
        let nconn = rng.range(2, 4) as usize;
        // every 5th case: tiny channels so that Full dominates
        let tiny = idx % 5 == 0;
        let mut conns = 0usize;
        for _ in 0..nconn {
            let cap = if tiny { 1 } else { rng.range(1, 4) };
            ops.push(format!("conn {cap}"));
            conns += 1;
        }
        let target = rng.range(10, 40) as usize;
        let mut next_id = 0u64; // generator's guess of the next id, only to aim unsub ops
        let mut with_subs: Vec<usize> = Vec::new(); // connections that subscribed at least once
        for _ in 0..rng.range(0, 3) {
            let c = rng.below(conns as u64) as usize;
            ops.push(format!("sub {c} {}", Self::gen_topic(rng)));
            next_id += 1;
            with_subs.push(c);
        }
        let mut payload = 0u64;
        let mut closed: Vec<usize> = Vec::new();
        // a malformed stream once in a while
        let malformed = idx % 11 == 7;
        while ops.len() < target {
            let mut c = rng.below(conns as u64) as usize;
            let roll = rng.below(100);
            if (50..=71).contains(&roll) && !with_subs.is_empty() && rng.chance(4, 5) {
                c = *rng.pick(&with_subs);
            }
            match roll {
                0..=17 => {
                    ops.push(format!("sub {c} {}", Self::gen_topic(rng)));
                    next_id += 1;
                    with_subs.push(c);
                }
                18..=49 => {
                    // bursts fill channels
                    let burst = if rng.chance(1, 3) { rng.range(2, 6) } else { 1 };
                    let topic = Self::gen_topic(rng);
                    for _ in 0..burst {
                        // mostly increasing payloads, sometimes a repeated number
                        if !(payload > 0 && rng.chance(1, 12)) {
                            payload += 1;
                        }
                        ops.push(format!("pub {topic} {payload}"));
                    }
                }
                50..=71 => {
                    let n = rng.range(1, 3);
                    for _ in 0..n {
                        ops.push(format!("recv {c}"));
                    }
                }
                72..=79 => {
                    if next_id > 0 && rng.chance(4, 5) {
                        ops.push(format!("unsub {}", rng.below(next_id)));
                    } else {
                        ops.push(format!("unsub {}", next_id + rng.below(3)));
                    }
                }
                80..=84 => {
                    if !with_subs.is_empty() && rng.chance(2, 3) {
                        c = *rng.pick(&with_subs);
                    }
                    // one close in three keeps the receiver (`Receiver::close()`): closed with its backlog queued
                    ops.push(if rng.chance(1, 3) { format!("shut {c}") } else { format!("close {c}") });
                    closed.push(c);
                }
                85..=91 => ops.push("len".into()),
                92..=93 => {
                    let raws = ["sub-01", "sub-", "sub", "x", "sub--1", "sub-0x0", "SUB-0", "sub-0 ", "sub-+0"];
                    let r = if rng.chance(1, 3) {
                        format!("sub-{}", rng.below(next_id + 1))
                    } else {
                        rng.pick(&raws).trim().to_string()
                    };
                    ops.push(format!("unsubraw {r}"));
                }
                94..=95 => {
                    if conns < 6 {
                        ops.push(format!("conn {}", rng.range(1, 4)));
                        conns += 1;
                    }
                }
                96..=97 => {
                    // subscribe on a connection whose receiver is already gone, then publish
                    if let Some(&cc) = closed.last() {
                        let t = Self::gen_topic(rng);
                        ops.push(format!("sub {cc} {t}"));
                        next_id += 1;
                        payload += 1;
                        ops.push(format!("pub {t} {payload}"));
                        ops.push("len".into());
                    }
                }
                _ => {
                    if malformed {
                        let bad = [
                            "conn 0", "conn x", "sub 99 stats", "sub 0", "pub stats", "pub stats x", "recv 99",
                            "close 99", "unsub", "unsub -1", "len 1", "frob", "sub 0 a=b",
                        ];
                        ops.push((*rng.pick(&bad)).to_string());
                    } else {
                        ops.push("len".into());
                    }
                }
            }
        }
        // drain what is left so that every enqueued line is seen by both sides
        for c in 0..conns {
            let n = rng.range(0, 5);
            for _ in 0..n {
                ops.push(format!("recv {c}"));
            }
        }
        ops.push("len".into());
        ops
    }

    fn start_case(&mut self) {
        let rt = std::mem::replace(
            &mut self.rt,
            tokio::runtime::Builder::new_current_thread().enable_time().build().expect("runtime"),
        );
        drop(rt);
        self.hub = SubscriptionHub::new();
        self.conns.clear();
        self.pub_log.clear();
        self.subs.clear();
        self.delivered = 0;
        self.saw_full = false;
        self.saw_closed = false;
    }

    fn exec(&mut self, toks: &[&str], mon: &mut Mon) -> String {
        let valid_topic = |t: &str| !t.is_empty() && !t.contains('=');
        match toks {
            ["conn", cap] => {
                let Ok(cap) = cap.parse::<usize>() else { return "bad-op".into() };
                if cap == 0 {
                    return "bad-op".into();
                }
                let (tx, rx) = mpsc::channel::<String>(cap);
                self.conns.push(Conn { tx, rx: Some(rx), shut_rx: None, nsubs: 0 });
                format!("conn={}", self.conns.len() - 1)
            }
            ["sub", c, topic] => {
                let Ok(c) = c.parse::<usize>() else { return "bad-op".into() };
                if c >= self.conns.len() || !valid_topic(topic) {
                    return "bad-op".into();
                }
                let tx = self.conns[c].tx.clone();
                let (r, polls) = self.bounded(self.hub.subscribe(topic, tx));
                let Some(id) = r else {
                    mon.fail(P, "subscribe-blocked", format!("subscribe({topic}) did not complete within {CALL_BOUND:?}"));
                    return "BLOCKED".into();
                };
                if polls > 1 {
                    mon.count("multi-poll");
                }
                if self.subs.contains_key(&id) {
                    mon.fail(P, "id-not-unique", format!("subscribe returned {id} a second time"));
                } else {
                    self.subs.insert(
                        id.clone(),
                        SubRec { topic: topic.to_string(), conn: c, last_pos: None, unsub_at: None },
                    );
                }
                self.conns[c].nsubs += 1;
                if self.conns[c].nsubs == 2 {
                    mon.count("multiplexed-conn");
                }
                if self.conns[c].rx.is_none() {
                    mon.count("sub-on-closed-conn");
                }
                format!("id={id}")
            }
            ["unsub", _] | ["unsubraw", _] => {
                let id = if toks[0] == "unsub" {
                    let Ok(k) = toks[1].parse::<u64>() else { return "bad-op".into() };
                    format!("sub-{k}")
                } else {
                    toks[1].to_string()
                };
                let (r, _) = self.bounded(self.hub.unsubscribe(&id));
                let Some(removed) = r else {
                    mon.fail(P, "unsubscribe-blocked", format!("unsubscribe({id}) did not complete within {CALL_BOUND:?}"));
                    return "BLOCKED".into();
                };
                let npub = self.pub_log.len();
                match self.subs.get_mut(&id) {
                    Some(rec) => {
                        if rec.unsub_at.is_none() {
                            rec.unsub_at = Some(npub);
                        }
                        mon.count(if removed { "unsub-removed" } else { "unsub-already-gone" });
                    }
                    None => {
                        if removed {
                            mon.fail(P, "removed-unknown-id", format!("unsubscribe({id}) returned true for an id never handed out"));
                        }
                        mon.count("unsub-unknown");
                    }
                }
                format!("removed={}", show_bool(removed))
            }
            ["pub", topic, n] => {
                let Ok(n) = n.parse::<u64>() else { return "bad-op".into() };
                if !valid_topic(topic) {
                    return "bad-op".into();
                }
                self.do_pub(topic, n, None, None, mon)
            }
            ["racepub", topic, n, k] => {
                let (Ok(n), Ok(k)) = (n.parse::<u64>(), k.parse::<u64>()) else { return "bad-op".into() };
                if !valid_topic(topic) {
                    return "bad-op".into();
                }
                self.do_pub(topic, n, Some(format!("sub-{k}")), None, mon)
            }
            ["racepub", topic, n, k, burn] => {
                let (Ok(n), Ok(k), Ok(burn)) = (n.parse::<u64>(), k.parse::<u64>(), burn.parse::<usize>()) else { return "bad-op".into() };
                if !valid_topic(topic) || burn > 1000 {
                    return "bad-op".into();
                }
                self.do_pub(topic, n, Some(format!("sub-{k}")), Some(burn), mon)
            }
            ["subn", c, topic, count] => {
                let (Ok(c), Ok(count)) = (c.parse::<usize>(), count.parse::<usize>()) else { return "bad-op".into() };
                if c >= self.conns.len() || !valid_topic(topic) || count == 0 || count > 1000 {
                    return "bad-op".into();
                }
                let mut first = String::new();
                let mut last = String::new();
                for i in 0..count {
                    let r = self.exec(&["sub", toks[1], topic], mon);
                    if i == 0 {
                        first = r.clone();
                    }
                    last = r;
                }
                format!("first:{first} last:{last}")
            }
            ["ctlunsub", pre, own] => {
                // one control connection subscribes `own` times through the REAL dispatcher after `pre` ids were
                // handed out to others, unsubscribes every one of its ids (reads each reply), then an event is
                // published: every unsubscribe of an owned live id must report removed:true and nothing may be
                // delivered afterwards. Private hub, monitor only, constant reply.
                let (Ok(pre), Ok(own)) = (pre.parse::<usize>(), own.parse::<usize>()) else { return "bad-op".into() };
                if pre > 2000 || own == 0 || own > 64 {
                    return "bad-op".into();
                }
                if let Some(desc) = unsubscribe_through_dispatcher(pre, own, mon) {
                    mon.fail(P, "after-unsubscribe-via-dispatcher", desc);
                }
                "ok".into()
            }
            ["subfull", cap] => {
                // a control connection whose bounded push queue is completely full issues one more `subscribe`
                // through the REAL dispatcher (the control socket's glue); a publish on that topic must still
                // complete at once. Private hub, monitor only, constant reply.
                let Ok(cap) = cap.parse::<usize>() else { return "bad-op".into() };
                if cap == 0 || cap > 256 {
                    return "bad-op".into();
                }
                if let Some(desc) = subscribe_on_full_queue(cap, mon) {
                    mon.fail(P, "publish-blocked-by-subscribe", desc);
                }
                "ok".into()
            }
            ["sockbacklog", kb] => {
                // a backlogged client of the REAL control socket: private hub, monitor only, constant reply
                let Ok(kb) = kb.parse::<usize>() else { return "bad-op".into() };
                if kb == 0 || kb > 1024 {
                    return "bad-op".into();
                }
                if let Some(desc) = socket_backlog(kb, mon) {
                    mon.fail(P, "socket-client-not-pruned", desc);
                }
                "ok".into()
            }
            ["par", nsubs, rounds] => {
                let (Ok(nsubs), Ok(rounds)) = (nsubs.parse::<usize>(), rounds.parse::<usize>()) else {
                    return "bad-op".into();
                };
                if nsubs == 0 || nsubs > 1024 || rounds == 0 || rounds > 100_000 {
                    return "bad-op".into();
                }
                if let Some(desc) = par_stress(nsubs, rounds, mon) {
                    mon.fail(P, "after-unsubscribe-parallel", desc);
                }
                "ok".into()
            }
            ["prioburst", rounds] => {
                let Ok(rounds) = rounds.parse::<usize>() else { return "bad-op".into() };
                if rounds == 0 || rounds > 10_000 {
                    return "bad-op".into();
                }
                if let Some(desc) = prio_burst(rounds, mon) {
                    mon.fail(P, "priority-events-out-of-order", desc);
                }
                "ok".into()
            }
            ["recv", c] => {
                let Ok(c) = c.parse::<usize>() else { return "bad-op".into() };
                if c >= self.conns.len() {
                    return "bad-op".into();
                }
                if self.conns[c].rx.is_none() {
                    // a receiver closed with `Receiver::close()` (op `shut`) still hands its backlog out: no message is
                    // lost; once it is drained the receiver is gone like a dropped one
                    let Some(rx) = self.conns[c].shut_rx.as_mut() else { return "gone".into() };
                    return match rx.try_recv() {
                        Ok(line) => {
                            mon.count("recv-after-shut");
                            self.check_line(c, &line, mon)
                        }
                        Err(_) => "gone".into(),
                    };
                }
                let Some(rx) = self.conns[c].rx.as_mut() else { return "gone".into() };
                match rx.try_recv() {
                    Ok(line) => self.check_line(c, &line, mon),
                    Err(TryRecvError::Empty) => "-".into(),
                    Err(TryRecvError::Disconnected) => "disconnected".into(),
                }
            }
            ["close", c] => {
                let Ok(c) = c.parse::<usize>() else { return "bad-op".into() };
                if c >= self.conns.len() {
                    return "bad-op".into();
                }
                match self.conns[c].rx.take() {
                    Some(rx) => {
                        drop(rx);
                        mon.count("close");
                        "ok".into()
                    }
                    None => "gone".into(),
                }
            }
            ["shut", c] => {
                let Ok(c) = c.parse::<usize>() else { return "bad-op".into() };
                if c >= self.conns.len() {
                    return "bad-op".into();
                }
                match self.conns[c].rx.take() {
                    Some(mut rx) => {
                        rx.close();
                        if self.conns[c].tx.capacity() == 0 {
                            mon.count("shut-while-full");
                        }
                        self.conns[c].shut_rx = Some(rx);
                        mon.count("shut");
                        "ok".into()
                    }
                    None => "gone".into(),
                }
            }
            ["len"] => match self.bounded(self.hub.len()).0 {
                Some(n) => format!("len={n}"),
                None => {
                    mon.fail(P, "len-blocked", "len() did not complete".into());
                    "BLOCKED".into()
                }
            },
            _ => "bad-op".into(),
        }
    }

    fn end_case(&mut self, mon: &mut Mon) {
        // Drain every open receiver through the same checks (monitor only; not part of the observation).
        for c in 0..self.conns.len() {
            loop {
                let line = match self.conns[c].rx.as_mut().map(|rx| rx.try_recv()) {
                    Some(Ok(l)) => l,
                    _ => break,
                };
                self.check_line(c, &line, mon);
            }
            loop {
                let line = match self.conns[c].shut_rx.as_mut().map(|rx| rx.try_recv()) {
                    Some(Ok(l)) => l,
                    _ => break,
                };
                self.check_line(c, &line, mon);
            }
        }
        if self.delivered > 0 && (self.saw_full || self.saw_closed) {
            mon.nontrivial();
        }
        if self.delivered > 0 && self.saw_full && self.saw_closed {
            mon.count("case-full-and-closed");
        }
    }

    fn rule(&self) -> &'static str {
        "2-4 (up to 6) logical connections with push channels of capacity 1..4 (every 5th case: all capacity 1), \
         10-40 ops: subscribe (stats / priority.window / stats.update / foo, several per connection), publish \
         bursts with mostly increasing payload numbers, try_recv, receiver drop, unsubscribe of live / removed / \
         never-issued / misspelt ids, subscribe on an already closed connection, len, every 11th case with \
         malformed op lines; tail drain. Non-trivial: at least one event was received AND some publish met a full \
         channel or a dropped receiver."
    }
}

/// Real-parallelism probe (monitor only; nondeterministic, one-sided): a publisher thread fans a
/// large payload out to `nsubs` filler subscriptions plus a victim subscribed last, while this
/// thread unsubscribes the victim in the middle of a fan-out.  Once `unsubscribe` has returned and
/// the victim's channel has been drained, nothing more may ever arrive on it.  Uses a private hub,
/// so the case's hub (and the model's state) is untouched.
/// `ctlunsub`: see the op. Returns a description of the first violation.
fn unsubscribe_through_dispatcher(pre: usize, own: usize, mon: &mut Mon) -> Option<String> {
    use srtla_send::config::DynamicConfig;
    use srtla_send::control::{SubscriptionContext, dispatch_async};
    use srtla_send::stats::SharedStats;
    let rt = tokio::runtime::Builder::new_current_thread().enable_time().build().expect("runtime");
    let hub = SubscriptionHub::new();
    let stats = SharedStats::new();
    let cfg = DynamicConfig::new();
    let res = rt.block_on(async {
        // ids handed out to other connections first (they stay subscribed; their queues are never read)
        let (otx, _orx) = mpsc::channel::<String>(4);
        for _ in 0..pre {
            hub.subscribe("priority.window", otx.clone()).await;
        }
        let (tx, mut rx) = mpsc::channel::<String>(256);
        let mut owned: Vec<String> = Vec::new();
        let mut ids: Vec<String> = Vec::new();
        for k in 0..own {
            let line = format!(r#"{{"jsonrpc":"2.0","id":{k},"method":"subscribe","params":{{"topic":"stats"}}}}"#);
            let mut ctx = SubscriptionContext { hub: &hub, push_tx: tx.clone(), owned_ids: &mut owned };
            let Some(r) = dispatch_async(&cfg, Some(&stats), None, Some(&mut ctx), &line).await else {
                return Some(format!("subscribe #{k} got no response"));
            };
            let v: Value = serde_json::from_str(&r.to_json()).unwrap_or(Value::Null);
            let Some(id) = v["result"]["subscription_id"].as_str() else {
                return Some(format!("subscribe #{k} answered {}", r.to_json()));
            };
            ids.push(id.to_string());
        }
        // unsubscribe in an order that is not the allocation order
        let mut order: Vec<usize> = (0..own).collect();
        order.reverse();
        order.rotate_left(own / 3);
        for k in order {
            let id = &ids[k];
            let line = format!(r#"{{"jsonrpc":"2.0","id":"u{k}","method":"unsubscribe","params":{{"subscription_id":"{id}"}}}}"#);
            let mut ctx = SubscriptionContext { hub: &hub, push_tx: tx.clone(), owned_ids: &mut owned };
            let Some(r) = dispatch_async(&cfg, Some(&stats), None, Some(&mut ctx), &line).await else {
                return Some(format!("unsubscribe of {id} got no response"));
            };
            let v: Value = serde_json::from_str(&r.to_json()).unwrap_or(Value::Null);
            if v["result"]["removed"] != Value::Bool(true) {
                return Some(format!("a connection that owns the live subscription {id} (its ids: {ids:?}) unsubscribed it through the dispatcher and was answered {}", r.to_json()));
            }
        }
        hub.publish("stats", json!({ "after": "unsubscribe" })).await;
        if let Ok(line) = rx.try_recv() {
            return Some(format!("after every one of its subscriptions {ids:?} was unsubscribed (all replies read) the connection still received {line}"));
        }
        None
    });
    mon.count("unsubscribe-through-dispatcher");
    res
}

/// `subfull`: see the op. Returns a description if a publish does not complete within 2 s.
fn subscribe_on_full_queue(cap: usize, mon: &mut Mon) -> Option<String> {
    use srtla_send::config::DynamicConfig;
    use srtla_send::control::{SubscriptionContext, dispatch_async};
    use srtla_send::stats::SharedStats;
    let rt = tokio::runtime::Builder::new_current_thread().enable_time().build().expect("runtime");
    let hub = SubscriptionHub::new();
    let (tx, rx) = mpsc::channel::<String>(cap);
    let stats = SharedStats::new();
    let cfg = DynamicConfig::new();
    let sub_line = r#"{"jsonrpc":"2.0","id":1,"method":"subscribe","params":{"topic":"stats"}}"#;
    let res = rt.block_on(async {
        // first subscription of this connection, then events nobody reads until the queue is full
        let mut owned: Vec<String> = Vec::new();
        {
            let mut ctx = SubscriptionContext { hub: &hub, push_tx: tx.clone(), owned_ids: &mut owned };
            let first = tokio::time::timeout(Duration::from_secs(5), dispatch_async(&cfg, Some(&stats), None, Some(&mut ctx), sub_line)).await;
            if first.is_err() {
                return Some("the first subscribe of a connection with an empty push queue did not return within 5 s".to_string());
            }
        }
        for k in 0..cap + 2 {
            if tokio::time::timeout(Duration::from_secs(2), hub.publish("stats", json!({ "k": k }))).await.is_err() {
                return Some(format!("publish #{k} to a subscriber that does not read did not complete within 2 s (queue capacity {cap})"));
            }
        }
        // the connection's task handles one more subscribe while its queue is full (it cannot drain the
        // queue meanwhile: it is the task awaiting the subscribe)
        let hub2 = hub.clone();
        let (stats2, cfg2, tx2) = (stats.clone(), cfg.clone(), tx.clone());
        let conn = tokio::spawn(async move {
            let mut owned2: Vec<String> = Vec::new();
            let mut ctx = SubscriptionContext { hub: &hub2, push_tx: tx2, owned_ids: &mut owned2 };
            let _ = dispatch_async(&cfg2, Some(&stats2), None, Some(&mut ctx), sub_line).await;
        });
        for _ in 0..20 {
            tokio::task::yield_now().await;
        }
        let blocked = tokio::time::timeout(Duration::from_secs(2), hub.publish("stats", json!({ "after": true }))).await.is_err();
        conn.abort();
        let _ = conn.await;
        if blocked {
            Some(format!(
                "a control connection with a full push queue (capacity {cap}, client not reading) issued another `subscribe stats`; the next publish did not complete within 2 s: the data plane waits on a control client"
            ))
        } else {
            None
        }
    });
    drop(rx);
    mon.count("subscribe-on-full-queue");
    res
}

/// `sockbacklog <kb>`: a subscribed client of the REAL control socket (`control_socket::spawn`) falls behind - it stops
/// reading while events of `kb` KiB each are published until its kernel buffer and the connection's push queue are
/// full - then sends a request, resumes reading, and disconnects. Whatever happened in between, a closed subscriber
/// is pruned: a few publishes after the disconnect the hub is empty again, and every publish completed at once.
fn socket_backlog(kb: usize, mon: &mut Mon) -> Option<String> {
    use srtla_core::priority::CriticalWindow;
    use srtla_send::config::DynamicConfig;
    use srtla_send::stats::SharedStats;
    use tokio::io::{AsyncBufReadExt, AsyncWriteExt, BufReader};
    let rt = tokio::runtime::Builder::new_current_thread().enable_all().build().expect("runtime");
    let path = std::env::temp_dir().join(format!("verif-hub-backlog-{}-{kb}.sock", std::process::id())).to_string_lossy().into_owned();
    let _ = std::fs::remove_file(&path);
    let hub = SubscriptionHub::new();
    let pad = "x".repeat(kb * 1024);
    let res: Result<Option<String>, &'static str> = rt.block_on(async {
        let srv = srtla_send::control_socket::spawn(path.clone(), DynamicConfig::new(), SharedStats::new(), CriticalWindow::new(), hub.clone());
        let mut stream = None;
        for _ in 0..5000 {
            match tokio::net::UnixStream::connect(&path).await {
                Ok(s) => {
                    stream = Some(s);
                    break;
                }
                Err(_) => tokio::time::sleep(Duration::from_millis(1)).await,
            }
        }
        let Some(stream) = stream else {
            srv.abort();
            return Err("sockbacklog-skipped:connect");
        };
        let (rd, mut wr) = stream.into_split();
        let mut rd = BufReader::new(rd);
        let mut line = String::new();
        if wr.write_all(b"{\"jsonrpc\":\"2.0\",\"id\":1,\"method\":\"subscribe\",\"params\":{\"topic\":\"stats\"}}\n").await.is_err() {
            srv.abort();
            return Err("sockbacklog-skipped:io");
        }
        match tokio::time::timeout(Duration::from_secs(5), rd.read_line(&mut line)).await {
            Ok(Ok(n)) if n > 0 => {}
            _ => {
                srv.abort();
                return Err("sockbacklog-skipped:no-subscribe-reply");
            }
        }
        for _ in 0..200 {
            if hub.len().await == 1 {
                break;
            }
            tokio::time::sleep(Duration::from_millis(1)).await;
        }
        // the client stops reading; publishes until well past the connection's 128-slot queue
        let mut slow = None;
        for k in 0..400u32 {
            let t = std::time::Instant::now();
            if tokio::time::timeout(Duration::from_secs(2), hub.publish("stats", json!({ "k": k, "pad": pad }))).await.is_err() {
                slow = Some(format!("publish #{k} to a control client that does not read did not complete within 2 s"));
                break;
            }
            let _ = t;
            if k % 16 == 0 {
                tokio::task::yield_now().await;
            }
        }
        if slow.is_some() {
            srv.abort();
            return Ok(slow);
        }
        // the client sends a request and starts reading again, while publishes keep the queue full
        let _ = wr.write_all(b"{\"jsonrpc\":\"2.0\",\"id\":2,\"method\":\"get_status\"}\n").await;
        let mut read_lines = 0usize;
        for k in 0..60u32 {
            let _ = tokio::time::timeout(Duration::from_secs(2), hub.publish("stats", json!({ "k": 1000 + k, "pad": pad }))).await;
            line.clear();
            if let Ok(Ok(n)) = tokio::time::timeout(Duration::from_millis(50), rd.read_line(&mut line)).await {
                if n > 0 {
                    read_lines += 1;
                }
            }
        }
        let _ = read_lines;
        // the client goes away
        drop(rd);
        drop(wr);
        let mut left = 1usize;
        for k in 0..40u32 {
            if tokio::time::timeout(Duration::from_secs(2), hub.publish("stats", json!({ "k": 2000 + k }))).await.is_err() {
                srv.abort();
                return Ok(Some(format!("publish #{k} after the client disconnected did not complete within 2 s")));
            }
            tokio::time::sleep(Duration::from_millis(25)).await;
            left = hub.len().await;
            if left == 0 {
                break;
            }
        }
        srv.abort();
        if left != 0 {
            return Ok(Some(format!("a control client subscribed to `stats`, fell behind (events of {kb} KiB, not reading), sent a request, read again and disconnected; one second and 40 publishes later its subscription is still in the hub (len = {left}): a closed subscriber is never pruned")));
        }
        Ok(None)
    });
    let _ = std::fs::remove_file(&path);
    match res {
        Err(why) => {
            mon.count(why);
            None
        }
        Ok(r) => {
            mon.count("socket-backlog");
            r
        }
    }
}

/// The REAL priority-sidecar listener (`priority_listener::spawn_listener`) publishing `priority.window` events into a
/// hub on a MULTI-THREAD runtime (what `main` uses), one subscriber, bursts of six hints from one loopback socket (UDP
/// keeps their order).  C20: a subscriber receives the events of its topic in publication order, each at most once -
/// the listener publishes one event per accepted datagram, in the order it accepted them.  One-sided: the unchanged
/// listener awaits each publish before it reads the next datagram, so it cannot reorder whatever the scheduler does;
/// `None` = nothing wrong seen (also when the environment does not let the listener come up).
fn prio_burst(rounds: usize, mon: &mut Mon) -> Option<String> {
    use srtla_core::priority::CriticalWindow;
    let rt = tokio::runtime::Builder::new_multi_thread().worker_threads(4).enable_all().build().ok()?;
    let port = {
        let probe = std::net::UdpSocket::bind("127.0.0.1:0").ok()?;
        probe.local_addr().ok()?.port()
    };
    let addr: std::net::SocketAddr = format!("127.0.0.1:{port}").parse().ok()?;
    let hub = SubscriptionHub::new();
    let state = CriticalWindow::new();
    let (tx, mut rx) = mpsc::channel::<String>(4096);
    let sub_id = rt.block_on(hub.subscribe("priority.window", tx));
    let handle = {
        let _g = rt.enter();
        srtla_send::priority_listener::spawn_listener(addr, state.clone(), Some(hub.clone()))
    };
    let sock = std::net::UdpSocket::bind("127.0.0.1:0").ok()?;
    // wait until the listener is bound: a malformed datagram is counted
    let t0 = std::time::Instant::now();
    while state.malformed_datagrams() == 0 {
        let _ = sock.send_to(&[0u8, 1, 2], addr);
        std::thread::sleep(Duration::from_millis(5));
        if t0.elapsed() > Duration::from_secs(3) {
            mon.count("prioburst-listener-not-up");
            handle.abort();
            return None;
        }
    }
    let mut found = None;
    let mut next: u32 = 1;
    'rounds: for round in 0..rounds {
        let first = next;
        for _ in 0..6 {
            let mut d = vec![0xc1u8];
            d.extend_from_slice(&next.to_be_bytes());
            let _ = sock.send_to(&d, addr);
            next += 1;
        }
        let mut got: Vec<u64> = Vec::new();
        let t0 = std::time::Instant::now();
        while got.len() < 6 && t0.elapsed() < Duration::from_secs(3) {
            match rx.try_recv() {
                Ok(line) => {
                    let v: serde_json::Value = serde_json::from_str(&line).unwrap_or(serde_json::Value::Null);
                    let p = &v["params"];
                    if p["subscription_id"].as_str() != Some(sub_id.as_str()) {
                        found = Some(format!("round {round}: event tagged {} instead of {sub_id}", p["subscription_id"]));
                        break 'rounds;
                    }
                    got.push(p["data"]["window_ms"].as_u64().unwrap_or(u64::MAX));
                }
                Err(_) => std::thread::sleep(Duration::from_micros(200)),
            }
        }
        let want: Vec<u64> = (first..first + 6).map(u64::from).collect();
        if got.len() == 6 {
            mon.count("prioburst-round");
            if got != want {
                found = Some(format!(
                    "round {round}: six priority hints {want:?} were accepted in that order by the real listener (one loopback socket), the `priority.window` subscriber received {got:?}"
                ));
                break;
            }
        } else {
            // datagram loss on a loaded machine: not judged, resynchronise
            mon.count("prioburst-round-incomplete");
            std::thread::sleep(Duration::from_millis(20));
            while rx.try_recv().is_ok() {}
        }
    }
    handle.abort();
    rt.shutdown_timeout(Duration::from_millis(200));
    found
}

fn par_stress(nsubs: usize, rounds: usize, mon: &mut Mon) -> Option<String> {
    use std::sync::Arc;
    use std::sync::atomic::{AtomicBool, AtomicU64, Ordering};
    let hub = SubscriptionHub::new();
    let rt = tokio::runtime::Builder::new_current_thread().build().expect("runtime");
    let mut fillers = Vec::new();
    for _ in 0..nsubs {
        let (tx, rx) = mpsc::channel::<String>(1);
        rt.block_on(hub.subscribe("stats", tx));
        fillers.push(rx);
    }
    let stop = Arc::new(AtomicBool::new(false));
    let started = Arc::new(AtomicU64::new(0));
    let finished = Arc::new(AtomicU64::new(0));
    let publisher = {
        let (hub, stop, started, finished) = (hub.clone(), stop.clone(), started.clone(), finished.clone());
        std::thread::spawn(move || {
            let rt = tokio::runtime::Builder::new_current_thread().build().expect("runtime");
            let pad = "x".repeat(1500);
            let mut k = 0u64;
            while !stop.load(Ordering::Acquire) {
                started.fetch_add(1, Ordering::AcqRel);
                rt.block_on(hub.publish("stats", json!({"k": k, "pad": pad})));
                finished.fetch_add(1, Ordering::AcqRel);
                k += 1;
            }
        })
    };
    let mut found = None;
    let mut spin_seed = 0x9E37_79B9u64;
    for round in 0..rounds {
        let (tx, mut rx) = mpsc::channel::<String>(4096);
        let id = rt.block_on(hub.subscribe("stats", tx.clone()));
        // wait for the next fan-out to begin, then a short pseudo-random spin into it
        let s0 = started.load(Ordering::Acquire);
        let t0 = std::time::Instant::now();
        while started.load(Ordering::Acquire) == s0 && t0.elapsed() < Duration::from_millis(50) {
            std::hint::spin_loop();
        }
        spin_seed = spin_seed.wrapping_mul(6364136223846793005).wrapping_add(1442695040888963407);
        for _ in 0..(spin_seed >> 33) % 4000 {
            std::hint::spin_loop();
        }
        rt.block_on(hub.unsubscribe(&id));
        let mut drained = 0usize;
        while rx.try_recv().is_ok() {
            drained += 1;
        }
        // let the publisher finish the fan-out that was in progress and one more
        let f0 = finished.load(Ordering::Acquire);
        let t1 = std::time::Instant::now();
        while finished.load(Ordering::Acquire) < f0 + 2 && t1.elapsed() < Duration::from_millis(200) {
            std::thread::yield_now();
        }
        if let Ok(line) = rx.try_recv() {
            found = Some(format!(
                "parallel run, round {round}: after unsubscribe({id}) had returned and the {drained} queued event(s) were drained, a later event was enqueued for it ({} bytes: {}...)",
                line.len(),
                &line[..line.len().min(90)]
            ));
            break;
        }
        mon.count("par-round");
        drop(tx);
    }
    stop.store(true, Ordering::Release);
    let _ = publisher.join();
    drop(fillers);
    found
}

fn main() {
    verif_harness::run_main("hub", Box::new(HubC::new()));
}
