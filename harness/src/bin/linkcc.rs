//! Component `linkcc`: per-link congestion controller `LinkCongestionState` and the
//! `LinkCcController::tick_all` map with garbage collection (C16).
//!
//! Ops (one observation line each):
//!   rtt <f64-bits> <now>                 record_rtt
//!   traffic <bytes_total> <nak_total> <now>   observe_traffic
//!   loss <sent> <lost> <now>             record_loss
//!   tick <observed_bps> <now>            tick
//!   all <now> [<id>:<rtt-bits>:<bytes>:<nak>:<bps-bits>]*   tick_all over those links
//! Observation: the full `snapshot()` (floats as IEEE bits).
//!
//! Monitors check the C16 statement on the real code with integer arithmetic only,
//! comparing each snapshot with the previous one and the op's inputs.

use std::collections::BTreeMap;

use srtla_core::selection::link_cc::{
    CcState, LinkCcController, LinkCcSnapshot, LinkCongestionState,
};
use srtla_core::test_helpers::create_test_connections;

use verif_harness::util::*;
use verif_harness::{Component, Mon, Rng, Tier};

const MIN_T: u64 = 100_000;
const MAX_T: u64 = 200_000_000;

fn show_snap(sep: &str, p: &LinkCcSnapshot) -> String {
    [
        format!("st={}", p.state.as_str()),
        format!("cm={}", p.climb_mode.as_str()),
        format!("tgt={}", p.target_bps),
        format!("ewma={}", p.rtt_ewma_ms.to_bits()),
        format!("var={}", p.rtt_var_ms.to_bits()),
        format!("min={}", p.rtt_min_ms.to_bits()),
        format!("lpm={}", p.loss_permille),
        format!("lewma={}", p.loss_ewma.to_bits()),
        format!("deg={}", show_bool(p.loss_degraded)),
    ]
    .join(sep)
}

/// Ghost history of one link, kept by the harness (independent of the Lean model).
#[derive(Default, Clone)]
struct LinkMon {
    prev: Option<LinkCcSnapshot>,
    /// a finite RTT sample > 0 has been fed
    rtt_seen: bool,
    /// some tick has ended outside Bootstrap (the initial seeding happened)
    seeded: bool,
    /// (now, loss_ewma after the tick) for every tick that evaluated the loss EWMA
    trace: Vec<(u64, f64)>,
    /// ghost of the loss the counters really show: previous counter observation and the
    /// (time, packets, NAKs) samples of the last second
    base: Option<(u64, i32)>,
    samples: Vec<(u64, u64, u64)>,
    /// a 32-bit sum saturated somewhere: the implementation's running sums are no longer comparable
    saturated: bool,
}

impl LinkMon {
    fn fresh() -> Self {
        LinkMon { prev: Some(LinkCongestionState::default().snapshot()), ..Default::default() }
    }

    /// C16 "honesty of the loss path": the loss the controller acts on is the NAK delta over the packet
    /// delta (bytes / 1316) between successive counter observations, over the last 1000 ms - whatever the
    /// counters did before (restart after a reconnect included: a counter that went DOWN contributes 0,
    /// and the next delta is measured from the new value).
    fn ghost_traffic(&mut self, b: u64, k: i32, now: u64) {
        let Some((pb, pk)) = self.base else {
            self.base = Some((b, k));
            return;
        };
        let db = b.saturating_sub(pb);
        let dk = k.saturating_sub(pk).max(0) as u64;
        self.base = Some((b, k));
        if db == 0 && dk == 0 {
            return;
        }
        let mut sent = db / 1316;
        if sent > u32::MAX as u64 {
            sent = u32::MAX as u64;
        }
        if dk > 0 && sent == 0 {
            sent = 1;
        }
        self.ghost_loss(sent, dk, now);
    }

    fn ghost_loss(&mut self, sent: u64, lost: u64, now: u64) {
        self.samples.push((now, sent, lost));
        let (s, l) = self.samples.iter().fold((0u64, 0u64), |a, x| (a.0 + x.1, a.1 + x.2));
        if s > u32::MAX as u64 || l > u32::MAX as u64 {
            self.saturated = true;
        }
        self.ghost_evict(now);
    }

    fn ghost_evict(&mut self, now: u64) {
        let cutoff = now.saturating_sub(1000);
        while self.samples.first().is_some_and(|x| x.0 < cutoff) {
            self.samples.remove(0);
        }
    }

    fn check_loss(&self, n: &LinkCcSnapshot, what: &str, mon: &mut Mon) {
        if self.saturated {
            mon.count("loss-window-saturated-skip");
            return;
        }
        let (s, l) = self.samples.iter().fold((0u64, 0u64), |a, x| (a.0 + x.1, a.1 + x.2));
        let want = if s == 0 { 0 } else { (l.saturating_mul(1000) / s).min(1_000_000) };
        if l > 0 {
            mon.count("loss-window-nonzero");
        }
        if u64::from(n.loss_permille) != want {
            mon.fail("C16", "loss-window-not-from-counters", format!("{what}: the controller's loss is {} permille, the counter observations of the last 1000 ms show {l} NAKs over {s} packets = {want} permille", n.loss_permille));
        }
    }

    fn note_rtt(&mut self, x: f64) {
        if x.is_finite() && x > 0.0 {
            self.rtt_seen = true;
        }
    }

    /// After an op that is not a tick: target, state and latch must be untouched.
    fn after_other(&mut self, n: &LinkCcSnapshot, what: &str, mon: &mut Mon) {
        if let Some(p) = &self.prev {
            if n.target_bps != p.target_bps || n.state != p.state {
                mon.fail("C16", "target-changed-outside-tick", format!("{what}: target {}→{} state {}→{}", p.target_bps, n.target_bps, p.state.as_str(), n.state.as_str()));
            }
            if n.loss_degraded != p.loss_degraded {
                mon.fail("C16", "latch-changed-outside-tick", format!("{what}: loss_degraded {}→{}", p.loss_degraded, n.loss_degraded));
            }
        }
        self.prev = Some(*n);
    }

    /// After `tick(obs, now)`: the C16 statement, clause by clause.
    fn after_tick(&mut self, n: &LinkCcSnapshot, obs: u64, now: u64, tag: &str, mon: &mut Mon) {
        let p = self.prev.unwrap_or_else(|| LinkCongestionState::default().snapshot());
        let (t, t2) = (p.target_bps as u128, n.target_bps as u128);
        let ctx = |extra: &str| {
            format!(
                "{tag}tick(obs={obs}, now={now}): {} {} → {} {} {extra}",
                p.state.as_str(), p.target_bps, n.state.as_str(), n.target_bps
            )
        };
        mon.count(&format!("st:{}", n.state.as_str()));
        if n.state == CcState::Climbing {
            mon.count(&format!("climb:{}", n.climb_mode.as_str()));
        }

        // --- bounds
        if n.target_bps < MIN_T || n.target_bps > MAX_T {
            mon.fail("C16", "bounds", ctx("target outside [100000, 200000000]"));
        }
        // --- floor until an RTT sample exists
        if !self.rtt_seen && (n.target_bps != MIN_T || n.state != CcState::Bootstrap) {
            mon.fail("C16", "floor-until-rtt", ctx("no RTT sample yet but not at the Bootstrap floor"));
        }
        if n.state == CcState::Bootstrap {
            mon.count("tick-bootstrap");
            if n.target_bps != MIN_T {
                mon.fail("C16", "floor-until-rtt", ctx("Bootstrap with target above the floor"));
            }
        }
        // outlier-clamped measured rate, in integers
        let sane: u128 = (obs as u128).min(4 * t.max(1_000_000));

        // --- lowered only by BackingOff (bounded) or once on Drain entry
        if t2 < t {
            match n.state {
                CcState::BackingOff => {
                    let lo = (t * 850 / 1000).max((obs as u128).min(t));
                    if t2 < lo.max(MIN_T as u128).min(t) {
                        if t2 < (obs as u128).min(t) {
                            mon.fail("C16", "backoff-below-delivered", ctx("back-off cut below the delivered rate"));
                        } else {
                            mon.fail("C16", "backoff-more-than-15%", ctx("back-off cut below 0.85·target"));
                        }
                    }
                    mon.count("backoff-cut");
                    if t2 == (obs as u128).min(t) && t2 > t * 850 / 1000 {
                        mon.count("backoff-held-at-delivered");
                    }
                }
                CcState::Drain => {
                    if p.state == CcState::Drain {
                        mon.fail("C16", "drain-cut-repeated", ctx("cut while already in Drain"));
                    } else if t2 != (t * 750 / 1000).max(MIN_T as u128) {
                        mon.fail("C16", "drain-cut-wrong", ctx("Drain entry is not ⌊0.75·target⌋ floored at MIN"));
                    }
                    mon.count("drain-cut");
                }
                _ => mon.fail("C16", "lowered-illegally", ctx("target lowered outside BackingOff / Drain entry")),
            }
        }
        if n.state == CcState::BackingOff && t2 > t && p.state != CcState::Bootstrap {
            mon.fail("C16", "backoff-raised", ctx("BackingOff raised the target"));
        }
        // --- growth after the initial seeding
        if self.seeded {
            if t2 * 1000 > t * 1060 {
                mon.fail("C16", "growth>6%", ctx("grew by more than 6% after the initial seeding"));
            }
            if t2 > t {
                if t2 > 2 * sane {
                    mon.fail("C16", "growth>2x-observed", ctx(&format!("grew beyond 2× the measured rate (sane={sane})")));
                }
                if n.state != CcState::Climbing {
                    mon.fail("C16", "raised-outside-climbing", ctx("target raised outside Climbing"));
                }
                mon.count("growth");
                if t2 == 2 * sane {
                    mon.count("growth-capped-at-2x");
                }
                if t2 * 1000 > t * 1050 {
                    mon.count("growth-5..6%");
                }
                if t == MIN_T as u128 {
                    mon.count("climb-from-floor");
                }
            }
            if p.target_bps == MIN_T && n.state != CcState::Bootstrap {
                mon.count("seeded-at-floor-tick");
                if obs < 1_000_000 {
                    mon.count("seeded-at-floor-low-observed");
                }
            }
        } else if n.state != CcState::Bootstrap {
            mon.count("seed");
            // the seed itself (not a clause of C16, a sanity envelope): at least ⌊0.75·seed⌋, at most 1.06·seed,
            // seed = clamp(max(1 Mbit/s, outlier-clamped measured))
            let s = sane.max(1_000_000).min(MAX_T as u128);
            if t2 * 1000 > s * 1060 || t2 < s * 750 / 1000 {
                mon.fail("C16", "seed-out-of-range", ctx(&format!("first seed outside [0.75, 1.06]·max(1e6, measured={sane})")));
            }
        }
        // --- loss-degraded latch
        let evaluated = n.state != CcState::Bootstrap;
        if evaluated {
            self.trace.push((now, n.loss_ewma));
        }
        if !p.loss_degraded && n.loss_degraded {
            mon.count("latch-set");
            let mut ok = false;
            if evaluated && n.loss_ewma > 0.55 {
                // walk back over the maximal run of ticks with EWMA > 0.55 (excluding the current one)
                for (tj, ej) in self.trace.iter().rev().skip(1) {
                    if !(*ej > 0.55) {
                        break;
                    }
                    if now.saturating_sub(*tj) >= 4000 {
                        ok = true;
                        break;
                    }
                }
            }
            if !ok {
                mon.fail("C16", "latch-set-early", ctx(&format!("loss_degraded set without EWMA>0.55 over a span ≥ 4000 ms (ewma={})", n.loss_ewma)));
            }
        }
        if p.loss_degraded && !n.loss_degraded {
            mon.count("latch-clear");
            if !(evaluated && n.loss_ewma < 0.25) {
                mon.fail("C16", "latch-clear-early", ctx(&format!("loss_degraded cleared with EWMA={} (needs < 0.25)", n.loss_ewma)));
            }
        }
        if n.loss_degraded {
            mon.count("tick-degraded");
        }
        if n.state != CcState::Bootstrap {
            self.seeded = true;
            mon.nontrivial();
        }
        self.prev = Some(*n);
    }
}

pub struct LinkCc {
    cc: LinkCongestionState,
    lm: LinkMon,
    prev_bytes: Option<u64>,
    ctl: LinkCcController,
    /// shadow state + ghost per id, only for ids present in the previous `all` call
    shadow: BTreeMap<u64, (LinkCongestionState, LinkMon)>,
}

impl Default for LinkCc {
    fn default() -> Self {
        LinkCc {
            cc: LinkCongestionState::default(),
            lm: LinkMon::fresh(),
            prev_bytes: None,
            ctl: LinkCcController::new(),
            shadow: BTreeMap::new(),
        }
    }
}

// ------------------------------------------------------------------ generator

const GAPS: [u64; 22] = [
    0, 1, 10, 50, 100, 249, 250, 251, 499, 500, 501, 999, 1000, 1001, 1500, 1999, 2000, 2001, 3999, 4000,
    4001, 30001,
];
const RATES: [u64; 16] = [
    0, 1, 29_999, 30_000, 50_000, 90_000, 99_999, 100_000, 300_000, 999_999, 1_000_000, 5_000_000,
    50_000_000, 100_000_000, 200_000_000, 1_000_000_000,
];

struct G<'a> {
    rng: &'a mut Rng,
    now: u64,
    ops: Vec<String>,
    /// spacing style of the case: 0 = ~1 Hz, 1 = fast, 2 = wild
    style: u64,
}

impl<'a> G<'a> {
    fn step_time(&mut self) {
        let dt = match self.style {
            0 => *self.rng.pick(&[900u64, 999, 1000, 1000, 1000, 1001, 1100]),
            1 => *self.rng.pick(&[50u64, 100, 249, 250, 251, 499, 500, 501]),
            _ => *self.rng.pick(&GAPS),
        };
        self.now = self.now.saturating_add(dt);
        if self.style == 2 && self.rng.chance(1, 40) {
            // clock going backwards (saturating_sub paths)
            self.now = self.now.saturating_sub(self.rng.range(1, 5000));
        }
    }
    fn gap(&mut self, dt: u64) {
        self.now = self.now.saturating_add(dt);
    }
    fn rtt(&mut self, x: f64) {
        self.ops.push(format!("rtt {} {}", x.to_bits(), self.now));
    }
    fn tick(&mut self, obs: u64) {
        self.ops.push(format!("tick {} {}", obs, self.now));
    }
    fn loss(&mut self, sent: u64, lost: u64) {
        self.ops.push(format!("loss {} {} {}", sent.min(u32::MAX as u64), lost.min(u32::MAX as u64), self.now));
    }
    fn traffic(&mut self, bytes: u64, nak: i32) {
        self.ops.push(format!("traffic {} {} {}", bytes, nak, self.now));
    }
    fn jitter(&mut self, base: f64, pct: u64) -> f64 {
        let j = self.rng.range(0, 2 * pct) as f64 - pct as f64;
        (base * (1.0 + j / 100.0)).max(0.001)
    }
    fn obs_like(&mut self, r: u64) -> u64 {
        match self.rng.below(10) {
            0 => 0,
            1 => r.saturating_mul(100),
            2 => r / 2,
            3 => r.saturating_add(self.rng.range(0, 1000)),
            4 => r.saturating_sub(self.rng.range(0, 1000)),
            _ => r,
        }
    }
    fn loss_pair(&mut self) -> (u64, u64) {
        let sent = *self.rng.pick(&[0u64, 1, 10, 200, 1000, 1000, 1000, 5000, u32::MAX as u64]);
        let lost = match self.rng.below(12) {
            0 => 0,
            1 => sent * 4 / 1000,
            2 => sent * 5 / 1000,
            3 => sent * 6 / 1000,
            4 => sent / 50,
            5 => sent / 10,
            6 => sent * 55 / 100,
            7 => sent * 56 / 100,
            8 => sent,
            9 => sent.saturating_mul(3),
            10 => sent * 24 / 100,
            _ => sent * 26 / 100,
        };
        (sent, lost)
    }
}

impl LinkCc {
    /// Drive the target to the floor through repeated Drain entries / back-offs, then tick at the
    /// floor with measured traffic far below 1 Mbit/s (the history of the fixed re-seed defect).
    fn gen_floor(g: &mut G) {
        let base = *g.rng.pick(&[5.0f64, 20.0, 50.0]);
        let low_obs = *g.rng.pick(&[0u64, 30_000, 40_000, 90_000, 99_999, 100_000, 250_000]);
        g.rtt(base);
        let first = *g.rng.pick(&[0u64, 90_000, 1_000_000, 1_300_000]);
        g.tick(first);
        let rounds = g.rng.range(6, 14);
        for _ in 0..rounds {
            let d = *g.rng.pick(&[2000u64, 2001, 2500]);
            g.gap(d);
            let hi = base * *g.rng.pick(&[2.0f64, 2.5, 4.0]);
            g.rtt(hi);
            g.tick(low_obs);
            if g.rng.chance(1, 3) {
                g.gap(1000);
                g.tick(low_obs); // stays in Drain: no second cut
            }
            let d = *g.rng.pick(&[2000u64, 2001, 3000]);
            g.gap(d);
            g.rtt(base);
            if g.rng.chance(1, 3) {
                let (s, l) = (1000, *g.rng.pick(&[6u64, 20, 100]));
                g.loss(s, l);
            }
            g.tick(low_obs);
        }
        // at (or near) the floor with a stable RTT: must climb by bounded steps only
        let tail = g.rng.range(3, 12);
        for _ in 0..tail {
            g.gap(1000);
            if g.rng.chance(2, 3) {
                g.rtt(base);
            }
            let o = if g.rng.chance(2, 3) { low_obs } else { *g.rng.pick(&RATES) };
            g.tick(o);
        }
    }

    /// Loss episodes on a loaded or starved link: BackingOff, efficacy latch, re-test timer.
    fn gen_loss(g: &mut G) {
        let base = *g.rng.pick(&[10.0f64, 50.0, 120.0]);
        let r = *g.rng.pick(&[200_000u64, 1_000_000, 2_000_000, 4_000_000, 40_000_000]);
        g.rtt(base);
        g.tick(r);
        let n = g.rng.range(10, 70);
        let mut lossy = false;
        let mut pm = 100u64;
        let follow = g.rng.chance(1, 2);
        let mut est = r.max(1_000_000);
        for _ in 0..n {
            g.step_time();
            if g.rng.chance(1, 8) {
                lossy = !lossy;
                pm = *g.rng.pick(&[4u64, 5, 6, 20, 100, 500]);
            }
            let x = g.jitter(base, 5);
            g.rtt(x);
            g.loss(1000, if lossy { pm } else { 0 });
            let o = if follow {
                // delivery tracks the cap (keeps the link loaded), roughly
                est = if lossy { (est * 85 / 100).max(100_000) } else { est };
                est.min(r)
            } else {
                g.obs_like(r)
            };
            g.tick(o);
        }
    }

    /// Sustained heavy loss to set the degraded latch, recovery to clear it; boundary spans.
    fn gen_latch(g: &mut G) {
        g.rtt(40.0);
        g.tick(2_000_000);
        let phases = g.rng.range(2, 5);
        for _ in 0..phases {
            let ratio = *g.rng.pick(&[24u64, 26, 54, 56, 60, 80, 100]);
            let dur = *g.rng.pick(&[3000u64, 3999, 4000, 4001, 6000, 9000]);
            let dt = *g.rng.pick(&[250u64, 500, 999, 1000, 1333, 2000]);
            let iters = (dur + 2 * dt) / dt + 1;
            for _ in 0..iters {
                g.gap(dt);
                if g.rng.chance(1, 2) {
                    g.rtt(40.0);
                }
                g.loss(1000, ratio * 10);
                let o = *g.rng.pick(&[0u64, 50_000, 2_000_000]);
                g.tick(o);
            }
            let clean = g.rng.range(0, 8);
            for _ in 0..clean {
                g.gap(dt);
                let l = *g.rng.pick(&[0u64, 0, 100, 240, 260]);
                g.loss(1000, l);
                g.tick(2_000_000);
            }
        }
    }

    /// Steady rate, 100× bursts, zero traffic; stable RTT (HAI, +6%) or noisy; the 2× cap edge.
    fn gen_burst(g: &mut G) {
        let base = *g.rng.pick(&[0.5f64, 8.0, 35.0, 300.0]);
        let noisy = g.rng.chance(1, 3);
        let r = *g.rng.pick(&RATES);
        g.rtt(base);
        let f0 = *g.rng.pick(&[0u64, 1, 999_999, 1_000_000, 3_999_999, 4_000_000, 4_000_001, 250_000_000]);
        let f1 = if g.rng.chance(1, 2) { r } else { 0 };
        g.tick(f0.max(f1));
        let n = g.rng.range(10, 60);
        let mut t_guess: u64 = 1_000_000u64.max(r.min(4_000_000));
        for _ in 0..n {
            g.step_time();
            if g.rng.chance(3, 4) {
                let x = if noisy { g.jitter(base, 40) } else { g.jitter(base, 2) };
                g.rtt(x);
            }
            let o = match g.rng.below(8) {
                0 => 0,
                1 => r.saturating_mul(100),
                // around the 2× cap: 2·obs − target between 0 and one step
                2 => t_guess / 2,
                3 => t_guess / 2 + t_guess / 100,
                4 => t_guess / 2 + t_guess * 3 / 100 + g.rng.range(0, 2),
                5 => t_guess,
                _ => r,
            };
            g.tick(o);
            // crude tracking of the cap for the boundary choices above
            if o > 0 && 2 * o > t_guess {
                t_guess = (t_guess + t_guess * 6 / 100).min(2 * o).min(MAX_T);
            }
        }
    }

    /// Cumulative counters through observe_traffic: growth, resets after reconnect, extremes.
    fn gen_counters(g: &mut G) {
        let base = 30.0;
        let r = *g.rng.pick(&[300_000u64, 2_000_000, 20_000_000]);
        g.rtt(base);
        let mut bytes: u64 = *g.rng.pick(&[0u64, 1, 1_000_000, u64::MAX - 5_000_000]);
        let mut nak: i32 = *g.rng.pick(&[0i32, 5, i32::MAX - 3, i32::MIN, -7]);
        let n = g.rng.range(10, 60);
        for _ in 0..n {
            g.step_time();
            match g.rng.below(12) {
                0 => {
                    // counter reset after reconnect
                    bytes = g.rng.range(0, 3000);
                    nak = 0;
                }
                1 => nak = nak.saturating_add(*g.rng.pick(&[1i32, 1, 3, 50, 100_000])),
                2 => nak = nak.wrapping_sub(g.rng.range(1, 10) as i32),
                3 => bytes = bytes.saturating_add(*g.rng.pick(&[1u64, 1315, 1316, 1317, 2632])),
                4 => nak = *g.rng.pick(&[i32::MAX, i32::MIN, 0, -1]),
                5 => bytes = *g.rng.pick(&[u64::MAX, 0, u64::MAX / 2]),
                _ => {
                    bytes = bytes.saturating_add(r / 8);
                    if g.rng.chance(1, 3) {
                        nak = nak.saturating_add(g.rng.range(0, 30) as i32);
                    }
                }
            }
            g.traffic(bytes, nak);
            if g.rng.chance(1, 2) {
                let x = g.jitter(base, 3);
                g.rtt(x);
            }
            if g.rng.chance(5, 6) {
                let o = g.obs_like(r);
                g.tick(o);
            }
        }
    }

    /// Everything at random, including rejected RTT samples, ticks before any RTT, malformed lines.
    fn gen_soup(g: &mut G) {
        let n = g.rng.range(5, 90);
        let base = *g.rng.pick(&[1.0f64, 25.0, 80.0]);
        for _ in 0..n {
            g.step_time();
            match g.rng.below(16) {
                0..=3 => {
                    let x = match g.rng.below(14) {
                        0 => f64::NAN,
                        1 => f64::INFINITY,
                        2 => f64::NEG_INFINITY,
                        3 => 0.0,
                        4 => -0.0,
                        5 => -5.0,
                        6 => f64::MIN_POSITIVE,
                        7 => 5e-324,
                        8 => 10_000.0,
                        9 => 1.0e9,
                        10 => base * 1.5,
                        11 => base * 2.0,
                        12 => base * 1.4999,
                        _ => g.jitter(base, 30),
                    };
                    g.rtt(x);
                }
                4..=5 => {
                    let (s, l) = g.loss_pair();
                    g.loss(s, l);
                }
                6 => {
                    let b = g.rng.next_u64() >> g.rng.below(64);
                    let k = (g.rng.next_u64() as i32) >> g.rng.below(32);
                    g.traffic(b, k);
                }
                7 => {
                    let bad = *g.rng.pick(&[
                        "tick", "tick x 1", "rtt 1", "loss 1 2", "loss 4294967296 0 1", "traffic 1 2147483648 5",
                        "tick 18446744073709551616 1", "frob 1 2", "all", "all 5 1:2:3", "traffic 1 -2147483649 5",
                    ]);
                    g.ops.push(bad.to_string());
                }
                _ => {
                    let o = if g.rng.chance(1, 6) { g.rng.next_u64() >> g.rng.below(64) } else { *g.rng.pick(&RATES) };
                    g.tick(o);
                }
            }
        }
    }

    /// `tick_all` over a changing set of links (appear, vanish, re-appear, duplicate ids).
    fn gen_controller(g: &mut G) {
        let ids = [1u64, 2, 3, 1000, u64::MAX];
        let mut bytes = [0u64; 5];
        let mut naks = [0i32; 5];
        let mut present = [true, true, false, false, false];
        let rates = [2_000_000u64, 400_000, 8_000_000, 50_000, 0];
        let n = g.rng.range(8, 50);
        for _ in 0..n {
            g.step_time();
            for p in present.iter_mut() {
                if g.rng.chance(1, 7) {
                    *p = !*p;
                }
            }
            let mut toks = vec!["all".to_string(), g.now.to_string()];
            for k in 0..5 {
                if !present[k] {
                    continue;
                }
                if g.rng.chance(1, 25) {
                    bytes[k] = 0; // reconnect: counters restart
                    naks[k] = 0;
                }
                bytes[k] = bytes[k].saturating_add(rates[k] / 8);
                if g.rng.chance(1, 4) {
                    naks[k] = naks[k].saturating_add(g.rng.range(1, 40) as i32);
                }
                let rtt: f64 = match g.rng.below(12) {
                    0 => 0.0,
                    1 => -3.0,
                    2 => f64::NAN,
                    3 => 100.0,
                    4 => 61.0,
                    _ => g.jitter(30.0, 4),
                };
                let bps: f64 = match g.rng.below(10) {
                    0 => 0.0,
                    1 => -1.0,
                    2 => rates[k] as f64 * 100.0,
                    3 => f64::NAN,
                    4 => 1e30,
                    _ => rates[k] as f64 + g.rng.range(0, 999) as f64 / 7.0,
                };
                // a link that is re-registering (tear-down -> REG3) stays in the list, not connected
                let t = if g.rng.chance(1, 6) {
                    format!("{}:{}:{}:{}:{}:0", ids[k], rtt.to_bits(), bytes[k], naks[k], bps.to_bits())
                } else if g.rng.chance(1, 4) {
                    format!("{}:{}:{}:{}:{}:1", ids[k], rtt.to_bits(), bytes[k], naks[k], bps.to_bits())
                } else {
                    format!("{}:{}:{}:{}:{}", ids[k], rtt.to_bits(), bytes[k], naks[k], bps.to_bits())
                };
                toks.push(t.clone());
                if g.rng.chance(1, 30) {
                    toks.push(t); // the same connection id twice in one call
                }
            }
            g.ops.push(toks.join(" "));
        }
    }
}

/// `id:rttbits:bytes:nak:bpsbits[:connected]` — the optional last field is the link's `connected`
/// flag (default 1): a link that is re-registering stays in the connection list under the same id.
fn parse_conn(t: &str) -> Option<(u64, f64, u64, i32, f64, bool)> {
    let v: Vec<&str> = t.split(':').collect();
    if v.len() != 5 && v.len() != 6 {
        return None;
    }
    let connected = match v.get(5) {
        None | Some(&"1") => true,
        Some(&"0") => false,
        _ => return None,
    };
    Some((
        v[0].parse().ok()?,
        f64::from_bits(v[1].parse().ok()?),
        v[2].parse().ok()?,
        v[3].parse().ok()?,
        f64::from_bits(v[4].parse().ok()?),
        connected,
    ))
}

impl Component for LinkCc {
    fn gen_case(&mut self, rng: &mut Rng, tier: Tier, idx: usize) -> Vec<String> {
        // the real event loop: a few dozen scenarios per run (each costs a fraction of a second of wall time)
        if idx % (if matches!(tier, Tier::Quick) { 150 } else { 50 }) == 77 {
            let sc = verif_harness::looptrace::generate(rng, true);
            return vec![format!("looptrace {}", sc.render())];
        }
        let style = rng.below(3);
        let start = *rng.pick(&[0u64, 0, 1, 1000, 5000, 1_700_000_000_000, u64::MAX - 100_000, (1u64 << 32) - 3000, (417u64 << 32) - 2500]);
        let kind = if idx < 8 { idx as u64 } else { rng.below(10) };
        let mut g = G { rng, now: start, ops: Vec::new(), style };
        match kind {
            0 | 1 => Self::gen_floor(&mut g),
            2 | 3 => Self::gen_loss(&mut g),
            4 => Self::gen_latch(&mut g),
            5 => Self::gen_soup(&mut g),
            6 => Self::gen_burst(&mut g),
            7 => Self::gen_counters(&mut g),
            _ => Self::gen_controller(&mut g),
        }
        if g.rng.chance(1, 5) {
            // a second scenario on the same state
            match g.rng.below(4) {
                0 => Self::gen_floor(&mut g),
                1 => Self::gen_burst(&mut g),
                2 => Self::gen_latch(&mut g),
                _ => Self::gen_soup(&mut g),
            }
        }
        g.ops
    }

    fn start_case(&mut self) {
        *self = LinkCc::default();
    }

    fn exec(&mut self, toks: &[&str], mon: &mut Mon) -> String {
        match toks {
            ["rtt", x, now] => {
                let (Ok(x), Ok(now)) = (x.parse::<u64>(), now.parse::<u64>()) else { return "bad-op".into() };
                let x = f64::from_bits(x);
                self.cc.record_rtt(x, now);
                self.lm.note_rtt(x);
                if !(x.is_finite() && x > 0.0) {
                    mon.count("rtt-rejected");
                }
                let n = self.cc.snapshot();
                self.lm.after_other(&n, "record_rtt", mon);
                show_snap(" ", &n)
            }
            ["traffic", b, k, now] => {
                let (Ok(b), Ok(k), Ok(now)) = (b.parse::<u64>(), k.parse::<i32>(), now.parse::<u64>()) else {
                    return "bad-op".into();
                };
                if let Some(pb) = self.prev_bytes {
                    if b < pb {
                        mon.count("counter-reset");
                    }
                }
                self.prev_bytes = Some(b);
                self.cc.observe_traffic(b, k, now);
                let n = self.cc.snapshot();
                self.lm.ghost_traffic(b, k, now);
                self.lm.check_loss(&n, "observe_traffic", mon);
                if n.loss_permille > 1_000_000 {
                    mon.fail("C16", "loss-permille-range", format!("loss_permille {}", n.loss_permille));
                }
                self.lm.after_other(&n, "observe_traffic", mon);
                show_snap(" ", &n)
            }
            ["loss", s, l, now] => {
                let (Ok(s), Ok(l), Ok(now)) = (s.parse::<u32>(), l.parse::<u32>(), now.parse::<u64>()) else {
                    return "bad-op".into();
                };
                self.cc.record_loss(s, l, now);
                let n = self.cc.snapshot();
                self.lm.ghost_loss(u64::from(s), u64::from(l), now);
                self.lm.check_loss(&n, "record_loss", mon);
                self.lm.after_other(&n, "record_loss", mon);
                show_snap(" ", &n)
            }
            ["tick", o, now] => {
                let (Ok(o), Ok(now)) = (o.parse::<u64>(), now.parse::<u64>()) else { return "bad-op".into() };
                self.cc.tick(o, now);
                let n = self.cc.snapshot();
                self.lm.ghost_evict(now);
                self.lm.check_loss(&n, "tick", mon);
                self.lm.after_tick(&n, o, now, "", mon);
                show_snap(" ", &n)
            }
            ["all", now, conns @ ..] => {
                let Ok(now) = now.parse::<u64>() else { return "bad-op".into() };
                let Some(cs): Option<Vec<_>> = conns.iter().map(|t| parse_conn(t)).collect() else {
                    return "bad-op".into();
                };
                let mut links = create_test_connections_sync(cs.len());
                for (c, (id, rtt, bytes, nak, bps, connected)) in links.iter_mut().zip(cs.iter()) {
                    c.conn_id = *id;
                    c.connected = *connected;
                    if !*connected {
                        mon.count("tick_all-disconnected-link");
                    }
                    c.rtt.kalman_rtt.reset();
                    c.rtt.kalman_rtt.update(*rtt);
                    c.bitrate.bytes_sent_total = *bytes;
                    c.congestion.nak_count = *nak;
                    c.bitrate.current_bitrate_bps = *bps;
                }
                let snaps = self.ctl.tick_all(&links, now);
                mon.count("tick_all");
                // Shadow: one real `LinkCongestionState` per id, stepped by the harness with the same
                // inputs in the same order; an id absent from the previous call starts from
                // `default()` (garbage collection ⇒ restart).  The per-tick monitors run on the shadow
                // (every intermediate step is observable there) and the shadow's final snapshot must be
                // what `tick_all` returned.
                let mut next: BTreeMap<u64, (LinkCongestionState, LinkMon, bool)> = BTreeMap::new();
                for (i, (id, _rtt, bytes, nak, bps, _connected)) in cs.iter().enumerate() {
                    let smooth = links[i].get_smooth_rtt_ms();
                    let obs = bps.max(0.0) as u64;
                    if next.contains_key(id) {
                        mon.count("duplicate-id");
                    }
                    let old = &mut self.shadow;
                    let (cc, lm, was_present) = next.entry(*id).or_insert_with(|| match old.remove(id) {
                        Some((cc, lm)) => (cc, lm, true),
                        None => (LinkCongestionState::default(), LinkMon::fresh(), false),
                    });
                    let tag = format!("link {id} ");
                    if smooth > 0.0 {
                        cc.record_rtt(smooth, now);
                        lm.note_rtt(smooth);
                        lm.after_other(&cc.snapshot(), "record_rtt", mon);
                    }
                    cc.observe_traffic(*bytes, *nak, now);
                    lm.ghost_traffic(*bytes, *nak, now);
                    lm.check_loss(&cc.snapshot(), "observe_traffic (tick_all shadow)", mon);
                    lm.after_other(&cc.snapshot(), "observe_traffic", mon);
                    cc.tick(obs, now);
                    lm.ghost_evict(now);
                    lm.check_loss(&cc.snapshot(), "tick (tick_all shadow)", mon);
                    lm.after_tick(&cc.snapshot(), obs, now, &tag, mon);
                    let _ = was_present;
                }
                for (id, (cc, _, was_present)) in next.iter() {
                    if !*was_present {
                        mon.count("link-(re)appeared");
                    }
                    match snaps.get(id) {
                        None => mon.fail("C16", "tick_all-missing", format!("id {id} not in the returned map")),
                        Some(n) => {
                            let exp = show_snap(",", &cc.snapshot());
                            let got = show_snap(",", n);
                            if exp != got {
                                if *was_present {
                                    mon.fail("C16", "tick_all-diverges", format!("link {id}: tick_all returned {got}, per-link steps give {exp}"));
                                } else {
                                    mon.fail("C16", "gc-stale-state", format!("link {id} (re)appeared but does not start from the default state: {got} vs fresh {exp}"));
                                }
                            }
                        }
                    }
                }
                for _ in self.shadow.keys() {
                    mon.count("link-vanished"); // ids left in the old map were not in this call
                }
                if snaps.len() != next.len() {
                    mon.fail("C16", "tick_all-extra", format!("returned {} snapshots for {} distinct ids", snaps.len(), next.len()));
                }
                self.shadow = next.into_iter().map(|(k, (cc, lm, _))| (k, (cc, lm))).collect();
                let mut ids: Vec<u64> = snaps.keys().copied().collect();
                ids.sort();
                if ids.is_empty() {
                    "-".into()
                } else {
                    ids.iter().map(|id| format!("{id}:{}", show_snap(",", &snaps[id]))).collect::<Vec<_>>().join(" ")
                }
            }
            ["looptrace", rest @ ..] => {
                // the REAL event loop end to end (see verif_harness::looptrace): C16 clauses on the per-tick CC
                // snapshots it publishes, with NAK bursts, reconnects (counter restarts) and reloads. Monitor only.
                let Some(sc) = verif_harness::looptrace::Scenario::parse(rest) else { return "bad-op".into() };
                match verif_harness::looptrace::run(&sc) {
                    Err(why) => mon.count(why),
                    Ok(trace) => {
                        mon.count("looptrace-scenario");
                        if trace.ticks.iter().any(|t| t.links.iter().any(|l| l.cc_state != "bootstrap" && !l.cc_state.is_empty())) {
                            mon.nontrivial();
                        }
                        verif_harness::looptrace::monitors_c16(&trace.ticks, &sc, mon);
                    }
                }
                "looptrace-ok".into()
            }
            _ => "bad-op".into(),
        }
    }

    fn rule(&self) -> &'static str {
        "cases are scenario histories of one link (floor-driving drains/back-offs then low traffic, loss episodes, sustained-loss latch, 100x bursts / zero / 2x-cap edges, cumulative counters with resets and extremes, random soup with rejected RTT samples and malformed lines) or tick_all histories over links that appear, vanish and re-appear; irregular and occasionally backwards time. Non-trivial: some tick ended outside Bootstrap (the controller was seeded and its transitions were exercised)."
    }
}

/// `create_test_connections` is async only because of its signature; it does no I/O.
fn create_test_connections_sync(n: usize) -> Vec<srtla_core::connection::SrtlaConnection> {
    if n == 0 {
        return Vec::new();
    }
    RT.with(|rt| rt.block_on(create_test_connections(n))).into_iter().collect()
}

thread_local! {
    static RT: tokio::runtime::Runtime = tokio::runtime::Builder::new_current_thread().build().unwrap();
}

fn main() {
    verif_harness::run_main("linkcc", Box::new(LinkCc::default()));
}
