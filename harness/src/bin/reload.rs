//! Component `reload`: SIGHUP IP-list reload (C19).
//!
//! Real code driven: `analyze_ip_reload_text`, `analyze_ip_reload` (real files in a temp dir),
//! `create_connections_from_ips`, `apply_connection_changes` (real UDP sockets on loopback, real
//! `SourceIpBinder::bind` reached through a recording `CallbackBinder`), `SequenceTracker`.
//! The SIGHUP arm and the housekeeping arm are inlined in `run_sender_with_config`; they are
//! mirrored here (`sighup`, `tick`) and the mirror is pinned to the source text (`glue-drift`).
//!
//! Canonical naming (shared with lean/Srtla/Drv/Reload.lean): the k-th created uplink of a case is
//! printed as id k, its socket as `k<k>` while (raw fd, local port, Arc pointer) are those recorded
//! at creation, its state as `t<tok>` while the full state dump equals the dump recorded when the
//! token was assigned (`t0` at creation, `mut … tok=n` later).

use std::collections::{BTreeSet, HashMap, HashSet};
use std::mem::ManuallyDrop;
use std::net::IpAddr;
use std::os::fd::FromRawFd;
use std::path::PathBuf;
use std::sync::{Arc, Mutex};

use smallvec::SmallVec;
use srtla_core::connection::{LinkPhase, SrtlaConnection};
use srtla_core::utils::verif_clock;
use srtla_send::net::{CallbackBinder, SourceIpBinder, UplinkBinder};
use srtla_send::sender::verif_hooks::{
    ConnIoMap, IpReload, PendingConnectionChanges, ReloadRefusal, SequenceTracker,
    analyze_ip_reload, analyze_ip_reload_text, apply_connection_changes,
    create_connections_from_ips, reconnect_uplink,
};

use verif_harness::util::*;
use verif_harness::{Component, Mon, Rng, Tier};

const HOST: &str = "127.0.0.1";
/// Source text of the event loop as it is NOW in the repository under test (`VERIF_REPO`, default /repo).
fn mod_rs() -> String {
    let root = std::env::var("VERIF_REPO").unwrap_or_else(|_| "/repo".to_string());
    std::fs::read_to_string(format!("{root}/src/sender/mod.rs")).unwrap_or_default()
}
const GHOST_LO: u64 = 1_000_000;
const GHOST_HI: u64 = 2_000_000;

#[derive(Clone, PartialEq, Eq, Debug)]
struct Ident {
    fd: i32,
    port: u16,
    ptr: usize,
}

struct Real {
    port: u16,
    connections: SmallVec<SrtlaConnection, 4>,
    conn_io: ConnIoMap,
    tracker: SequenceTracker,
    last_selected: Option<usize>,
    pending: Option<PendingConnectionChanges>,
    canon: HashMap<u64, u64>,
    real_of: HashMap<u64, u64>,
    next_canon: u64,
    sock_ident: HashMap<u64, (u64, Ident)>,
    tok: HashMap<u64, (u64, String)>,
    tracked: BTreeSet<u32>,
}

#[derive(Clone, PartialEq, Debug)]
struct LinkSnap {
    id: u64,
    ip: IpAddr,
    label: String,
    dump: String,
    ident: Option<Ident>,
}

#[derive(Clone, PartialEq, Debug)]
struct Snap {
    links: Vec<LinkSnap>,
    io_keys: BTreeSet<u64>,
    last: Option<usize>,
    trk: Vec<(u32, Option<u64>)>,
    pending: Option<Vec<IpAddr>>,
}

/// Everything observable about a link except its `conn_id` (compared separately).
fn dump(c: &SrtlaConnection) -> String {
    format!(
        "ip={} label={:?} connected={} window={} inflight={} log={:?} hacked={} lr={:?} ls={:?} lka={:?} \
         proof={} priv={:?} rtt={:?} cong={:?} br={:?} rec={:?} q={} batch={:?} phase={:?} weak={} ccb={} \
         cct={} ld={}",
        c.local_ip,
        c.label,
        c.connected,
        c.window,
        c.in_flight_packets,
        c.verif_packet_log(),
        c.verif_highest_acked_seq(),
        c.last_received,
        c.last_sent,
        c.verif_last_keepalive_sent(),
        c.last_ack_or_rtt_sample_ms,
        c.verif_private(),
        c.rtt,
        c.congestion,
        c.bitrate,
        c.reconnection,
        c.batch_sender.queued_count(),
        c.batch_sender,
        c.phase,
        c.weak,
        c.cc_backing_off,
        c.cc_target_bps,
        c.loss_degraded
    )
}

fn ident_of(io: &srtla_send::sender::verif_hooks::ConnIo) -> Ident {
    let port = io
        .socket
        .get_ref()
        .local_addr()
        .ok()
        .and_then(|a| a.as_socket())
        .map(|a| a.port())
        .unwrap_or(0);
    Ident { fd: io.socket.as_raw_fd(), port, ptr: Arc::as_ptr(&io.socket) as usize }
}

impl Real {
    fn new(port: u16) -> Self {
        Real {
            port,
            connections: SmallVec::new(),
            conn_io: HashMap::new(),
            tracker: SequenceTracker::new(),
            last_selected: None,
            pending: None,
            canon: HashMap::new(),
            real_of: HashMap::new(),
            next_canon: 1,
            sock_ident: HashMap::new(),
            tok: HashMap::new(),
            tracked: BTreeSet::new(),
        }
    }

    /// Give canonical names to links that do not have one yet (creation order = vec order).
    fn adopt_new(&mut self) {
        for c in self.connections.iter() {
            if !self.canon.contains_key(&c.conn_id) {
                let k = self.next_canon;
                self.next_canon += 1;
                self.canon.insert(c.conn_id, k);
                self.real_of.insert(k, c.conn_id);
                if let Some(io) = self.conn_io.get(&c.conn_id) {
                    self.sock_ident.insert(k, (k, ident_of(io)));
                }
                self.tok.insert(k, (0, dump(c)));
            }
        }
    }

    fn canon_str(&self, real: u64) -> String {
        if let Some(k) = self.canon.get(&real) {
            k.to_string()
        } else if (GHOST_LO..GHOST_HI).contains(&real) {
            real.to_string()
        } else {
            "?".into()
        }
    }

    fn real_id(&self, canon: u64) -> Option<u64> {
        if canon == 0 {
            Some(0)
        } else if let Some(r) = self.real_of.get(&canon) {
            Some(*r)
        } else if (GHOST_LO..GHOST_HI).contains(&canon) {
            Some(canon)
        } else {
            None
        }
    }

    fn snap(&self, now: u64) -> Snap {
        Snap {
            links: self
                .connections
                .iter()
                .map(|c| LinkSnap {
                    id: c.conn_id,
                    ip: c.local_ip,
                    label: c.label.clone(),
                    dump: dump(c),
                    ident: self.conn_io.get(&c.conn_id).map(ident_of),
                })
                .collect(),
            io_keys: self.conn_io.keys().copied().collect(),
            last: self.last_selected,
            trk: self.tracked.iter().map(|s| (*s, self.tracker.get(*s, now))).collect(),
            pending: self
                .pending
                .as_ref()
                .map(|p| p.new_ips.as_ref().map(|v| v.to_vec()).unwrap_or_default()),
        }
    }

    fn show_state(&self) -> String {
        let links: Vec<String> = self
            .connections
            .iter()
            .map(|c| {
                let k = self.canon.get(&c.conn_id).copied();
                let tok = match k.and_then(|k| self.tok.get(&k)) {
                    Some((t, d)) if *d == dump(c) => format!("t{t}"),
                    _ => "t?".into(),
                };
                format!(
                    "{}/{}/{}/{}",
                    self.canon_str(c.conn_id),
                    c.local_ip,
                    // the receiver may be named `localhost` (op `host`): print the label as if by address
                    c.label.replacen("localhost:", "127.0.0.1:", 1).replace(' ', "_"),
                    tok
                )
            })
            .collect();
        let mut io: Vec<(String, u64, String)> = self
            .conn_io
            .iter()
            .map(|(id, io)| {
                let k = self.canon.get(id).copied();
                let s = match k.and_then(|k| self.sock_ident.get(&k)) {
                    Some((t, i)) if *i == ident_of(io) => format!("k{t}"),
                    _ => "k?".into(),
                };
                (self.canon_str(*id), k.unwrap_or(u64::MAX), s)
            })
            .collect();
        io.sort_by_key(|e| e.1);
        let io: Vec<String> = io.into_iter().map(|(k, _, s)| format!("{k}/{s}")).collect();
        let pend = match &self.pending {
            None => "-".to_string(),
            Some(p) => match &p.new_ips {
                None => "none".to_string(),
                Some(v) => format!("[{}]", v.iter().map(|i| i.to_string()).collect::<Vec<_>>().join(",")),
            },
        };
        format!(
            "links=[{}] io=[{}] last={} pend={}",
            links.join(","),
            io.join(","),
            show_opt(self.last_selected),
            pend
        )
    }

    fn show_trk(&self, now: u64) -> String {
        let v: Vec<String> = self
            .tracked
            .iter()
            .map(|s| {
                format!(
                    "{}/{}",
                    s,
                    match self.tracker.get(*s, now) {
                        None => "-".to_string(),
                        Some(id) => self.canon_str(id),
                    }
                )
            })
            .collect();
        format!("trk=[{}]", v.join(","))
    }
}

pub struct Reload {
    rt: tokio::runtime::Runtime,
    attempts: Arc<Mutex<Vec<IpAddr>>>,
    binder: Arc<dyn UplinkBinder>,
    st: Option<Real>,
    dir: PathBuf,
    probe_cache: HashMap<IpAddr, bool>,
    glue_checked: bool,
    /// how the receiver is named for this case (`host` op): the dotted quad or a NAME that resolves to it -
    /// nothing C19 states may depend on the spelling
    host: String,
}

fn norm_ws(s: &str) -> String {
    s.split_whitespace().collect::<Vec<_>>().join(" ")
}

/// The event-loop arms mirrored by `sighup` / `tick` must still read like this in the source.
fn glue_problems() -> Vec<String> {
    let src = norm_ws(&mod_rs());
    let mut p = Vec::new();
    let need = [
        "let mut pending_changes: Option<PendingConnectionChanges> = None;",
        "if let Some(changes) = pending_changes.take() && let Some(new_ips) = changes.new_ips { \
         info!(\"applying queued connection changes: {} IPs\", new_ips.len()); \
         apply_connection_changes( &mut connections, &mut conn_io, &new_ips, &changes.receiver_host, \
         changes.receiver_port, &mut last_selected_idx, &mut seq_tracker, &binder, ).await;",
        "match reload::analyze_ip_reload(ips_file) { reload::IpReload::Apply { ips, first_invalid_line } => {",
        "pending_changes = Some(PendingConnectionChanges { new_ips: Some(ips), receiver_host: \
         receiver_host.to_string(), receiver_port, });",
        "reload::IpReload::Refuse(reason) => { warn!( \"refusing SIGHUP reload ({reason:?}); keeping current \
         connections\" ); } }",
    ];
    for n in need {
        let n = norm_ws(n);
        if src.matches(&n).count() != 1 {
            p.push(format!("snippet not found exactly once in src/sender/mod.rs: `{n}`"));
        }
    }
    let k = src.matches("pending_changes").count();
    if k != 3 {
        p.push(format!("`pending_changes` occurs {k} times in src/sender/mod.rs (mirror assumes 3: decl, take, queue)"));
    }
    p
}

/// Per-line verdicts of the trusted std parsers, in op syntax.
fn classify(text: &str) -> String {
    let v: Vec<String> = text
        .lines()
        .map(|l| {
            let t = l.trim();
            if t.is_empty() {
                "b".to_string()
            } else {
                match t.parse::<IpAddr>() {
                    Ok(ip) => format!("o/{ip}"),
                    Err(_) => "x".to_string(),
                }
            }
        })
        .collect();
    if v.is_empty() { "-".into() } else { v.join(",") }
}

fn show_reload(r: &IpReload) -> String {
    match r {
        IpReload::Refuse(ReloadRefusal::NotFound) => "refuse:notfound".into(),
        IpReload::Refuse(ReloadRefusal::Empty) => "refuse:empty".into(),
        IpReload::Refuse(ReloadRefusal::NoValidIps { first_invalid_line }) => {
            format!("refuse:novalid:{first_invalid_line}")
        }
        IpReload::Apply { ips, first_invalid_line } => format!(
            "apply:[{}]:first_invalid={}",
            ips.iter().map(|i| i.to_string()).collect::<Vec<_>>().join(","),
            show_opt(*first_invalid_line)
        ),
    }
}

/// C19 clause 1 on the real analyser, stated with std iterators only.
fn monitor_analysis(text: Option<&str>, r: &IpReload, mon: &mut Mon) {
    let Some(text) = text else {
        if *r != IpReload::Refuse(ReloadRefusal::NotFound) {
            mon.fail("C19", "applied-list", format!("unreadable file not refused as NotFound: {r:?}"));
        }
        mon.count("analysis:notfound");
        return;
    };
    let nonblank: Vec<(usize, &str)> = text
        .lines()
        .enumerate()
        .map(|(i, l)| (i + 1, l.trim()))
        .filter(|(_, t)| !t.is_empty())
        .collect();
    let parsable: Vec<IpAddr> = nonblank.iter().filter_map(|(_, t)| t.parse().ok()).collect();
    let first_bad = nonblank.iter().find(|(_, t)| t.parse::<IpAddr>().is_err()).map(|(i, _)| *i);
    match r {
        IpReload::Apply { ips, first_invalid_line } => {
            mon.count("analysis:apply");
            if first_invalid_line.is_some() {
                mon.count("analysis:apply-mixed");
            }
            if ips.as_slice() != parsable.as_slice() || parsable.is_empty() {
                mon.fail("C19", "applied-list", format!("applied {ips:?}, parsable lines are {parsable:?}"));
            }
            if *first_invalid_line != first_bad {
                mon.fail("C19", "applied-list", format!("first_invalid_line {first_invalid_line:?}, expected {first_bad:?}"));
            }
            let distinct: HashSet<&IpAddr> = ips.iter().collect();
            if distinct.len() != ips.len() {
                mon.count("analysis:apply-duplicates");
            }
        }
        IpReload::Refuse(why) => {
            if !parsable.is_empty() {
                mon.fail("C19", "applied-list", format!("refused ({why:?}) although {parsable:?} are parsable"));
            }
            match why {
                ReloadRefusal::Empty => {
                    mon.count("analysis:refuse-empty");
                    if !nonblank.is_empty() {
                        mon.fail("C19", "applied-list", "refused as Empty with non-blank lines".into());
                    }
                }
                ReloadRefusal::NoValidIps { first_invalid_line } => {
                    mon.count("analysis:refuse-novalid");
                    if nonblank.is_empty() || Some(*first_invalid_line) != first_bad {
                        mon.fail("C19", "applied-list", format!("NoValidIps line {first_invalid_line}, expected {first_bad:?}"));
                    }
                }
                ReloadRefusal::NotFound => {
                    mon.fail("C19", "applied-list", "readable text refused as NotFound".into());
                }
            }
        }
    }
}

fn parse_ips(s: &str) -> Option<Vec<IpAddr>> {
    if s == "-" {
        return Some(Vec::new());
    }
    s.split(',').map(|x| x.parse().ok()).collect()
}

fn parse_table(s: &str) -> Option<HashMap<IpAddr, bool>> {
    if s == "-" {
        return Some(HashMap::new());
    }
    s.split(',')
        .map(|e| {
            let (ip, f) = e.split_once('/')?;
            let b = match f {
                "1" => true,
                "0" => false,
                _ => return None,
            };
            Some((ip.parse().ok()?, b))
        })
        .collect()
}

impl Reload {
    fn gen_case_inner(&mut self, rng: &mut Rng, tier: Tier, idx: usize) -> Vec<String> {
        let mut ops: Vec<String> = Vec::new();
        let _ = tier;
        let pairs = 1024;
        let port = 5000 + rng.below(3) as u16;
        let mut now: u64 = 1_000_000 + rng.below(1000);
        let pool5 = Self::pool(5);
        if idx % 3000 == 1500 {
            // whole-loop scenario: every file of the scenario is applicable (no refusals), so whatever the
            // timing, once things settle the uplink set is the address set of the LAST file
            let n0 = rng.range(1, 3) as usize;
            let mut initial: Vec<IpAddr> = Vec::new();
            while initial.len() < n0 {
                let ip = *rng.pick(&pool5);
                if !initial.contains(&ip) {
                    initial.push(ip);
                }
            }
            let mut steps: Vec<String> = Vec::new();
            let nsteps = rng.range(1, 3);
            for k in 0..nsteps {
                let last = k + 1 == nsteps;
                let target: Vec<IpAddr> = if last && nsteps >= 2 && rng.chance(1, 2) {
                    initial.clone() // an edit reverted before (or after) it was applied
                } else {
                    let m = rng.range(1, 3) as usize;
                    let mut t: Vec<IpAddr> = Vec::new();
                    while t.len() < m {
                        let ip = *rng.pick(&pool5);
                        if !t.contains(&ip) {
                            t.push(ip);
                        }
                    }
                    t
                };
                let noise = rng.chance(1, 3);
                let text = Self::gen_file_text(rng, &target, noise);
                let gap = if last { 0 } else { *rng.pick(&[150u64, 200, 300, 1300]) };
                steps.push(format!("{}@{gap}", to_hex(text.as_bytes())));
            }
            // one scenario in three: the file is overwritten with something NOT applicable (empty / garbage) shortly after
            // the last SIGHUP, without a signal - a non-atomic in-place rewrite caught between two reads.  The list that
            // was accepted when the signal arrived is the one to apply; nothing may read the file again
            if rng.chance(1, 3) {
                let junk = *rng.pick(&["", "\n\n", "# rewriting...\n", "not-an-ip\n256.1.1.1\n"]);
                steps.push(format!("{}@!", to_hex(junk.as_bytes())));
            }
            return vec![format!("evloop ips={} steps={}", join_list(&initial), steps.join(";"))];
        }
        if idx < pairs {
            // (c) exhaustive subset pairs
            let code = idx;
            let (o, n) = (code >> 5, code & 31);
            let old: Vec<IpAddr> = (0..5).filter(|b| o >> b & 1 == 1).map(|b| pool5[b]).collect();
            let new: Vec<IpAddr> = (0..5).filter(|b| n >> b & 1 == 1).map(|b| pool5[b]).collect();
            ops.push(format!("start port={port} now={now} ips={} conn={}", join_list(&old), self.table_for(&old)));
            let mut tok = 0u64;
            let mut seqs = Vec::new();
            for (i, _) in old.iter().enumerate() {
                tok += 1;
                ops.push(format!("mut i={i} tok={tok} k=0 a={} b={}", now - 10, now - 20));
                ops.push(format!("mut i={i} tok={} k=6 a={} b={}", tok + 100, 100 * (i + 1), now - 5));
                let s = 100 * (i as u32 + 1);
                ops.push(format!("track seq={s} id={} ts={}", i + 1, now - 5));
                seqs.push(s);
            }
            ops.push(format!("sel v={}", if old.is_empty() { "-".to_string() } else { rng.below(old.len() as u64).to_string() }));
            now += 1000;
            if new.is_empty() || rng.chance(1, 4) {
                ops.push(format!("apply now={now} ips={} conn={}", join_list(&new), self.table_for(&new)));
            } else {
                let text = Self::gen_file_text(rng, &new, false);
                let (op, ok) = self.text_op("sighup kind=text", &text);
                ops.push(op);
                ops.push(format!("tick now={now} conn={}", self.table_for(&ok)));
            }
            for s in seqs {
                ops.push(format!("get seq={s} now={now}"));
            }
            ops.push(format!("tick now={} conn=-", now + 1000));
            return ops;
        }
        if rng.chance(1, 4) {
            // (a) parser cases
            ops.push(format!("start port={port} now={now} ips=127.0.0.1 conn={}", self.table_for(&pool5[..1])));
            for _ in 0..rng.range(3, 8) {
                let k = rng.below(4) as usize;
                let mut target: Vec<IpAddr> = (0..k).map(|_| *rng.pick(&pool5)).collect();
                if rng.chance(1, 3) {
                    target.push(Self::exotic(rng).parse().unwrap());
                }
                let text = match rng.below(10) {
                    0 => String::new(),
                    1 => "\n \n\t\r\n".to_string(),
                    2 => (0..rng.range(1, 4)).map(|_| Self::junk_line(rng)).collect::<Vec<_>>().join("\n"),
                    3 => "\u{feff}127.0.0.1\n".to_string(),
                    4 => "\u{feff}127.0.0.1\r\n127.0.0.2".to_string(),
                    _ => Self::gen_file_text(rng, &target, true),
                };
                match rng.below(8) {
                    0 => ops.push("sighup kind=missing".into()),
                    1 => ops.push("sighup kind=dir".into()),
                    2 => {
                        let mut b = text.into_bytes();
                        b.insert(rng.below(b.len() as u64 + 1) as usize, 0xff);
                        ops.push(format!("sighup kind=raw text={}", to_hex(&b)));
                    }
                    3 | 4 => {
                        let (op, _) = self.text_op("sighup kind=text", &text);
                        ops.push(op);
                    }
                    _ => {
                        let (op, _) = self.text_op("analyze", &text);
                        ops.push(op);
                    }
                }
            }
            ops.push("state".into());
            return ops;
        }
        // (b) reload sequences
        let mut cur: Vec<IpAddr> = pool5.iter().copied().filter(|_| rng.chance(1, 2)).collect();
        if cur.is_empty() || rng.chance(1, 8) {
            cur.push(*rng.pick(&pool5));
        }
        if rng.chance(1, 6) {
            let d = *rng.pick(&cur);
            cur.push(d); // duplicated line at startup: two uplinks with one label
        }
        if rng.chance(1, 8) {
            cur.push(Self::exotic(rng).parse().unwrap());
        }
        ops.push(format!("start port={port} now={now} ips={} conn={}", join_list(&cur), self.table_for(&cur)));
        // shadow of which links exist (only to aim indices / ids; the real outcome is never predicted)
        let mut live: Vec<IpAddr> = cur.iter().copied().filter(|ip| self.probe(*ip)).collect();
        let mut created = live.len() as u64;
        let mut tok = 0u64;
        let mut seqs: Vec<(u32, u64)> = Vec::new();
        let mut pending: Option<Vec<IpAddr>> = None;
        let reloads = rng.range(2, 6);
        for _ in 0..reloads {
            now += rng.range(1, 3000);
            self.gen_env(rng, &mut ops, live.len(), created, &mut tok, now, &mut seqs);
            let mut target: Vec<IpAddr> = pool5.iter().copied().filter(|_| rng.chance(1, 2)).collect();
            for i in (1..target.len()).rev() {
                let j = rng.below(i as u64 + 1) as usize;
                if rng.chance(1, 2) {
                    target.swap(i, j);
                }
            }
            if rng.chance(1, 5) {
                target.push(Self::exotic(rng).parse().unwrap());
            }
            let n_sighup = if rng.chance(1, 5) { 2 } else { 1 };
            for _ in 0..n_sighup {
                match rng.below(12) {
                    0 => ops.push("sighup kind=missing".into()),
                    1 => {
                        let (op, _) = self.text_op("sighup kind=text", "\n  \n");
                        ops.push(op);
                    }
                    2 => {
                        let (op, _) = self.text_op("sighup kind=text", "garbage\n\nmore garbage\n");
                        ops.push(op);
                    }
                    _ => {
                        let noise = rng.chance(1, 2);
                        let text = Self::gen_file_text(rng, &target, noise);
                        let (op, ok) = self.text_op("sighup kind=text", &text);
                        ops.push(op);
                        if !ok.is_empty() {
                            pending = Some(ok);
                        }
                    }
                }
                if rng.chance(1, 3) {
                    self.gen_env(rng, &mut ops, live.len(), created, &mut tok, now, &mut seqs);
                }
            }
            now += rng.range(1, 1000);
            let table = self.table_for(pending.as_deref().unwrap_or(&[]));
            ops.push(format!("tick now={now} conn={table}"));
            if let Some(p) = pending.take() {
                let desired: HashSet<IpAddr> = p.iter().copied().collect();
                let mut next: Vec<IpAddr> = live.iter().copied().filter(|ip| desired.contains(ip)).collect();
                for ip in &p {
                    if !live.contains(ip) && !next.contains(ip) && self.probe(*ip) {
                        next.push(*ip);
                        created += 1;
                    }
                }
                live = next;
            }
            for _ in 0..rng.below(3) {
                if !seqs.is_empty() {
                    let (s, ts) = *rng.pick(&seqs);
                    let at = if rng.chance(1, 2) {
                        ts + *rng.pick(&[0u64, 4999, 5000, 5001])
                    } else {
                        now + *rng.pick(&[0u64, 1, 4000, 5000, 5001, 9000])
                    };
                    ops.push(format!("get seq={s} now={at}"));
                }
            }
            if rng.chance(1, 6) {
                ops.push(format!("tick now={} conn=-", now + 1));
            }
        }
        ops
    }
    fn new() -> Self {
        let rt = tokio::runtime::Builder::new_current_thread().enable_all().build().unwrap();
        let attempts: Arc<Mutex<Vec<IpAddr>>> = Arc::new(Mutex::new(Vec::new()));
        let log = attempts.clone();
        // Records every `binder.bind` call (= one connect attempt) and delegates to the real
        // `SourceIpBinder::bind` on the very socket `connect_uplink` created.
        let binder: Arc<dyn UplinkBinder> = Arc::new(CallbackBinder(move |fd, ip| {
            log.lock().unwrap().push(ip);
            let sock = ManuallyDrop::new(unsafe { socket2::Socket::from_raw_fd(fd) });
            SourceIpBinder.bind(&sock, ip).map_err(|e| std::io::Error::other(e.to_string()))
        }));
        let dir = std::env::temp_dir().join(format!("verif_reload_{}", std::process::id()));
        let _ = std::fs::create_dir_all(&dir);
        Reload { rt, attempts, binder, st: None, dir, probe_cache: HashMap::new(), glue_checked: false, host: HOST.to_string() }
    }

    /// Generator side: connect outcome of one address, measured on the real code (cached).
    /// One whole-loop scenario (op `evloop`): start the real sender on loopback with `ips`, then for every
    /// step write the file and raise SIGHUP at this process, wait `gap` ms; finally wait (<= 60 s) for the
    /// uplink set published in the telemetry snapshot to become the address set of the last file.
    fn run_evloop(&mut self, ips: &str, steps: &str, mon: &mut Mon) {
        use srtla_send::config::DynamicConfig;
        use srtla_send::sender::run_sender_with_config;
        use srtla_send::stats::SharedStats;
        use srtla_send::subscriptions::SubscriptionHub;
        use std::time::{Duration, Instant};
        let Some(initial) = ips.strip_prefix("ips=").and_then(parse_ips) else {
            mon.count("evloop-unparsed");
            return;
        };
        let mut plan: Vec<(String, u64)> = Vec::new();
        let mut scribble: Option<String> = None;
        for st in steps.strip_prefix("steps=").unwrap_or("").split(';') {
            let Some((h, g)) = st.split_once('@') else {
                mon.count("evloop-unparsed");
                return;
            };
            if g == "!" {
                // last step only: overwrite the file WITHOUT a signal
                let Some(bytes) = parse_hex(h).or_else(|| if h == "-" || h.is_empty() { Some(Vec::new()) } else { None }) else {
                    mon.count("evloop-unparsed");
                    return;
                };
                scribble = Some(String::from_utf8_lossy(&bytes).into_owned());
                continue;
            }
            if scribble.is_some() {
                mon.count("evloop-unparsed");
                return;
            }
            let (Some(bytes), Ok(g)) = (parse_hex(h), g.parse::<u64>()) else {
                mon.count("evloop-unparsed");
                return;
            };
            plan.push((String::from_utf8_lossy(&bytes).into_owned(), g.min(5000)));
        }
        if initial.is_empty() || plan.is_empty() || plan.len() > 6 {
            mon.count("evloop-unparsed");
            return;
        }
        let parsable = |t: &str| -> Vec<IpAddr> {
            let mut v: Vec<IpAddr> = Vec::new();
            for l in t.lines() {
                if let Ok(ip) = l.trim().parse::<IpAddr>() {
                    if !v.contains(&ip) {
                        v.push(ip);
                    }
                }
            }
            v
        };
        // the oracle needs every file applicable and every address bindable on this machine
        let mut all: Vec<IpAddr> = initial.clone();
        for (t, _) in &plan {
            let v = parsable(t);
            if v.is_empty() {
                mon.count("evloop-skipped:refusable-file");
                return;
            }
            all.extend(v);
        }
        for ip in &all {
            if !self.probe(*ip) {
                mon.count("evloop-skipped:unbindable");
                return;
            }
        }
        let want: BTreeSet<IpAddr> = parsable(&plan[plan.len() - 1].0).into_iter().collect();
        // with a scribble the signal may be handled only AFTER the file was overwritten (then the reload is refused and
        // the previous set stays): both outcomes are what C19 allows, anything else is not
        let prev_want: BTreeSet<IpAddr> = if plan.len() >= 2 { parsable(&plan[plan.len() - 2].0).into_iter().collect() } else { initial.iter().copied().collect() };
        if scribble.as_deref().is_some_and(|t| !parsable(t).is_empty()) {
            mon.count("evloop-unparsed");
            return;
        }
        let path = self.dir.join("evloop_ips.txt");
        let init_text: String = initial.iter().map(|i| format!("{i}\n")).collect();
        if std::fs::write(&path, init_text).is_err() {
            mon.count("evloop-skipped:io");
            return;
        }
        let Ok(receiver) = std::net::UdpSocket::bind("127.0.0.1:0") else {
            mon.count("evloop-skipped:io");
            return;
        };
        let receiver_port = receiver.local_addr().map(|a| a.port()).unwrap_or(0);
        let srt_port = std::net::UdpSocket::bind("[::]:0").ok().and_then(|s| s.local_addr().ok()).map(|a| a.port()).unwrap_or(0);
        if receiver_port == 0 || srt_port == 0 {
            mon.count("evloop-skipped:io");
            return;
        }
        verif_clock::set(None);
        let stats = SharedStats::new();
        let live = |s: &SharedStats| -> BTreeSet<IpAddr> { s.get().links.iter().map(|l| l.ip).collect() };
        let init_set: BTreeSet<IpAddr> = initial.iter().copied().collect();
        let file = path.to_string_lossy().into_owned();
        let outcome: Result<BTreeSet<IpAddr>, &'static str> = self.rt.block_on(async {
            let sender = {
                let stats = stats.clone();
                let file = file.clone();
                tokio::spawn(async move {
                    let binder: Arc<dyn UplinkBinder> = Arc::new(SourceIpBinder);
                    run_sender_with_config(
                        srt_port,
                        HOST,
                        receiver_port,
                        &file,
                        DynamicConfig::new(),
                        stats,
                        srtla_core::priority::CriticalWindow::new(),
                        SubscriptionHub::new(),
                        binder,
                    )
                    .await
                })
            };
            // the first housekeeping tick publishes the first snapshot (and the SIGHUP stream exists by then)
            let t0 = Instant::now();
            while live(&stats) != init_set {
                if t0.elapsed() > Duration::from_secs(60) || sender.is_finished() {
                    sender.abort();
                    let _ = sender.await;
                    return Err("sender did not come up");
                }
                tokio::time::sleep(Duration::from_millis(10)).await;
            }
            for (text, gap) in &plan {
                if std::fs::write(&file, text).is_err() {
                    sender.abort();
                    let _ = sender.await;
                    return Err("cannot write the ips file");
                }
                unsafe {
                    libc::raise(libc::SIGHUP);
                }
                tokio::time::sleep(Duration::from_millis(*gap)).await;
            }
            if let Some(junk) = &scribble {
                // let the signal reach the loop (it queues the list it parsed), then overwrite the file without a
                // signal and give the next housekeeping tick time to apply what was queued
                tokio::time::sleep(Duration::from_millis(150)).await;
                let _ = std::fs::write(&file, junk);
                tokio::time::sleep(Duration::from_millis(2600)).await;
            }
            // settled = equal to the expected set for two consecutive housekeeping periods
            let t1 = Instant::now();
            let mut ok_since: Option<Instant> = None;
            let mut seen = live(&stats);
            while t1.elapsed() < Duration::from_secs(if scribble.is_some() { 12 } else { 60 }) {
                seen = live(&stats);
                if seen == want || (scribble.is_some() && seen == prev_want) {
                    if ok_since.is_none() {
                        ok_since = Some(Instant::now());
                    }
                    if ok_since.is_some_and(|t| t.elapsed() > Duration::from_millis(2300)) {
                        break;
                    }
                } else {
                    ok_since = None;
                }
                tokio::time::sleep(Duration::from_millis(25)).await;
            }
            let finished = sender.is_finished();
            sender.abort();
            let _ = sender.await;
            if finished { Err("sender exited") } else { Ok(seen) }
        });
        drop(receiver);
        match outcome {
            Err(why) => {
                // environment trouble (ports, load): never an alarm
                mon.count(match why {
                    "sender did not come up" => "evloop-skipped:not-up",
                    "sender exited" => "evloop-skipped:sender-exited",
                    _ => "evloop-skipped:io",
                });
            }
            Ok(seen) => {
                mon.count("evloop-scenario");
                mon.nontrivial();
                if plan.len() >= 2 {
                    mon.count("evloop-scenario:several-sighups");
                }
                if want == init_set && plan.len() >= 2 {
                    mon.count("evloop-scenario:edit-reverted");
                }
                if scribble.is_some() {
                    mon.count("evloop-scenario:file-overwritten-after-sighup");
                    if seen == prev_want && prev_want != want {
                        mon.count("evloop-scenario:signal-after-overwrite");
                    }
                    if seen != want && seen != prev_want {
                        mon.fail(
                            "C19",
                            "evloop-reread-after-sighup",
                            format!(
                                "real event loop: started with {init_set:?}; the file listed {want:?} when the last SIGHUP was raised (before it: {prev_want:?}) and was overwritten with text that holds no address 150 ms later, without a signal; the sender then runs {seen:?} - neither the list accepted at the signal nor the refused-reload outcome"
                            ),
                        );
                    }
                } else if seen != want {
                    mon.fail(
                        "C19",
                        "evloop-applied-list",
                        format!(
                            "real event loop: started with {init_set:?}; {} reload(s), every file applicable, the last one lists {want:?}; 60 s later the sender runs {seen:?}",
                            plan.len()
                        ),
                    );
                }
            }
        }
    }

    fn probe(&mut self, ip: IpAddr) -> bool {
        if let Some(b) = self.probe_cache.get(&ip) {
            return *b;
        }
        let mut io: ConnIoMap = HashMap::new();
        let conns = self.rt.block_on(create_connections_from_ips(&[ip], HOST, 5000, &self.binder, &mut io));
        let ok = conns.len() == 1;
        self.probe_cache.insert(ip, ok);
        ok
    }

    fn table_for(&mut self, ips: &[IpAddr]) -> String {
        let mut seen = Vec::new();
        for ip in ips {
            if !seen.contains(ip) {
                seen.push(*ip);
            }
        }
        let v: Vec<String> = seen.iter().map(|ip| format!("{}/{}", ip, show_bool(self.probe(*ip)))).collect();
        if v.is_empty() { "-".into() } else { v.join(",") }
    }

    /// `apply_connection_changes` on the real state + every C19 apply-clause as a monitor.
    fn checked_apply(&mut self, new_ips: &[IpAddr], table: &HashMap<IpAddr, bool>, now: u64, mon: &mut Mon) -> String {
        let binder = self.binder.clone();
        let st = self.st.as_mut().unwrap();
        let before = st.snap(now);
        self.attempts.lock().unwrap().clear();
        let port = st.port;
        let host = self.host.clone();
        self.rt.block_on(apply_connection_changes(
            &mut st.connections,
            &mut st.conn_io,
            new_ips,
            &host,
            port,
            &mut st.last_selected,
            &mut st.tracker,
            &binder,
        ));
        let attempts: Vec<IpAddr> = std::mem::take(&mut *self.attempts.lock().unwrap());
        st.adopt_new();
        let after = st.snap(now);

        let desired: HashSet<IpAddr> = new_ips.iter().copied().collect();
        let before_ids: HashSet<u64> = before.links.iter().map(|l| l.id).collect();
        let after_by_id: HashMap<u64, &LinkSnap> = after.links.iter().map(|l| (l.id, l)).collect();
        let removed: Vec<&LinkSnap> = before.links.iter().filter(|l| !desired.contains(&l.ip)).collect();
        let removed_ids: HashSet<u64> = removed.iter().map(|l| l.id).collect();
        let survivors: Vec<&LinkSnap> = before.links.iter().filter(|l| desired.contains(&l.ip)).collect();

        for s in &survivors {
            match after_by_id.get(&s.id) {
                None => mon.fail("C19", "removed-set", format!("uplink {} ({}) is still listed but was removed", s.id, s.ip)),
                Some(a) => {
                    if a.dump != s.dump || a.label != s.label || a.ip != s.ip {
                        mon.fail("C19", "survivor-changed", format!("state of surviving uplink {} changed:\n before {}\n after  {}", s.ip, s.dump, a.dump));
                    }
                    if a.ident != s.ident || s.ident.is_none() {
                        mon.fail("C19", "survivor-changed", format!("socket of surviving uplink {} changed: {:?} -> {:?}", s.ip, s.ident, a.ident));
                    }
                }
            }
        }
        let kept_order: Vec<u64> = after.links.iter().map(|l| l.id).filter(|id| before_ids.contains(id)).collect();
        let want_order: Vec<u64> = survivors.iter().map(|l| l.id).collect();
        if kept_order != want_order {
            mon.fail("C19", "survivor-order", format!("survivor order {kept_order:?}, expected {want_order:?}"));
        }
        for r in &removed {
            if after_by_id.contains_key(&r.id) {
                mon.fail("C19", "removed-set", format!("uplink {} ({}) is no longer listed but was kept", r.id, r.ip));
            }
            if after.io_keys.contains(&r.id) {
                mon.fail("C19", "io-keys", format!("I/O handle of removed uplink {} ({}) still in the map", r.id, r.ip));
            }
        }
        let ids_b: BTreeSet<u64> = before.links.iter().map(|l| l.id).collect();
        let ids_a: BTreeSet<u64> = after.links.iter().map(|l| l.id).collect();
        if before.io_keys == ids_b && after.io_keys != ids_a {
            mon.fail("C19", "io-keys", format!("io-map keys {:?} != live conn_ids {:?}", after.io_keys, ids_a));
        }
        for ((seq, b), (_, a)) in before.trk.iter().zip(after.trk.iter()) {
            if let Some(id) = a {
                if removed_ids.contains(id) {
                    mon.fail("C19", "tracker-not-purged", format!("seq {seq} still attributed to removed conn_id {id}"));
                }
            }
            match b {
                Some(id) if !removed_ids.contains(id) => {
                    if a != b {
                        mon.fail("C19", "tracker-collateral", format!("seq {seq} of surviving/foreign id {id} changed to {a:?}"));
                    }
                }
                Some(_) => mon.count("tracker:purged-entry"),
                None => {
                    if a.is_some() {
                        mon.fail("C19", "tracker-collateral", format!("seq {seq} appeared in the tracker: {a:?}"));
                    }
                }
            }
        }
        // additions
        let before_ips: HashSet<IpAddr> = before.links.iter().map(|l| l.ip).collect();
        let mut expected_attempts: Vec<IpAddr> = Vec::new();
        for ip in new_ips {
            if !before_ips.contains(ip) && !expected_attempts.contains(ip) {
                expected_attempts.push(*ip);
            }
        }
        let mut cnt: HashMap<IpAddr, usize> = HashMap::new();
        for ip in &attempts {
            *cnt.entry(*ip).or_insert(0) += 1;
        }
        for (ip, n) in &cnt {
            if *n > 1 {
                mon.fail("C19", "added-twice", format!("address {ip} attempted {n} times in one reload"));
            }
            if before_ips.contains(ip) {
                mon.fail("C19", "added-twice", format!("address {ip} attempted although already connected"));
            }
            if !desired.contains(ip) {
                mon.fail("C19", "added-twice", format!("address {ip} attempted although not listed"));
            }
        }
        for ip in &expected_attempts {
            if !cnt.contains_key(ip) {
                mon.fail("C19", "added-missed", format!("new address {ip} was never attempted"));
            }
        }
        let added: Vec<&LinkSnap> = after.links.iter().filter(|l| !before_ids.contains(&l.id)).collect();
        let mut added_ips: HashSet<IpAddr> = HashSet::new();
        for a in &added {
            if !added_ips.insert(a.ip) {
                mon.fail("C19", "added-twice", format!("two new uplinks for address {}", a.ip));
            }
            if !cnt.contains_key(&a.ip) || before_ips.contains(&a.ip) {
                mon.fail("C19", "added-twice", format!("new uplink for {} without a (legitimate) attempt", a.ip));
            }
            if a.id == 0 {
                mon.count("assumption:conn-id-zero");
            }
        }
        if ids_a.len() != after.links.len() {
            mon.fail("C19", "assumption:fresh-id", "conn_id collision (2^-64 event or a bug)".into());
        }
        let want_last = if removed.is_empty() { before.last } else { None };
        if after.last != want_last {
            mon.fail("C19", "last-selected", format!("last_selected_idx {:?}, expected {:?} (removed {})", after.last, want_last, removed.len()));
        }
        // C11: the hysteresis reference of enhanced selection is "the previously selected uplink": whatever
        // index survives a reload must still name the uplink that was selected before it
        if let Some(i) = after.last {
            let before_id = before.last.and_then(|j| before.links.get(j)).map(|l| l.id);
            let after_id = after.links.get(i).map(|l| l.id);
            if before_id.is_none() {
                // the harness injected an index that named no uplink before the reload (the shell only ever
                // stores the index of an existing uplink): outside the property's domain
                mon.count("anchor-was-dangling-before");
            } else if after_id.is_none() || after_id != before_id {
                mon.fail("C11", "anchor-names-another-uplink", format!("after the reload last_selected_idx {i} names uplink {after_id:?}, the uplink selected before it was {before_id:?}"));
            } else {
                mon.count("anchor-kept-on-same-uplink");
            }
        }

        // coverage
        if !removed.is_empty() {
            mon.count("apply:removed");
        }
        if !survivors.is_empty() {
            mon.count("apply:survivors");
        }
        if !added.is_empty() {
            mon.count("apply:added");
        }
        if attempts.len() > added.len() {
            mon.count("apply:connect-failed");
        }
        if new_ips.len() != desired.len() {
            mon.count("apply:duplicate-in-list");
        }
        if after.links.is_empty() {
            mon.count("apply:zero-links-after");
        }
        if !removed.is_empty() && !survivors.is_empty() && !added.is_empty() {
            mon.count("apply:removed+survivors+added");
            mon.nontrivial();
        }
        if !removed.is_empty() && before.last.is_some() {
            mon.count("apply:last-selected-reset");
        }
        if survivors.iter().any(|s| s.dump.contains("connected=true")) {
            mon.count("apply:survivor-with-traffic-state");
            mon.nontrivial();
        }

        // outcome table of the op must be what really happened
        let added_ip_set: HashSet<IpAddr> = added.iter().map(|l| l.ip).collect();
        for ip in &attempts {
            if table.get(ip).copied() != Some(added_ip_set.contains(ip)) {
                return format!("outcome-mismatch {} real={}", ip, show_bool(added_ip_set.contains(ip)));
            }
        }
        let att: Vec<String> =
            attempts.iter().map(|ip| format!("{}/{}", ip, show_bool(added_ip_set.contains(ip)))).collect();
        format!("applied att=[{}] {} {}", att.join(","), st.show_state(), st.show_trk(now))
    }

    // ---------------------------------------------------------------- generator helpers

    fn pool(n: u8) -> Vec<IpAddr> {
        (1..=n).map(|i| IpAddr::from([127, 0, 0, i])).collect()
    }

    fn gen_file_text(rng: &mut Rng, target: &[IpAddr], noise: bool) -> String {
        let mut lines: Vec<String> = Vec::new();
        if noise && rng.chance(1, 8) {
            lines.push("\u{feff}".to_string() + &target.first().map(|i| i.to_string()).unwrap_or_default());
        }
        for ip in target {
            if noise && rng.chance(1, 4) {
                lines.push(Self::junk_line(rng));
            }
            let s = ip.to_string();
            let s = if noise {
                match rng.below(8) {
                    0 => format!("  {s}"),
                    1 => format!("{s}\t "),
                    2 => format!("\u{a0}{s}\u{2003}"),
                    3 => format!("\u{b}{s}\u{c}"),
                    _ => s,
                }
            } else {
                s
            };
            lines.push(s);
            if noise && rng.chance(1, 6) {
                lines.push(ip.to_string()); // duplicate
            }
        }
        // a repeat that is NOT adjacent to its first occurrence (other addresses in between)
        if noise && target.len() >= 2 && rng.chance(1, 3) {
            lines.push(target[rng.below(target.len() as u64 - 1) as usize].to_string());
        }
        if noise && rng.chance(1, 3) {
            lines.push(Self::junk_line(rng));
        }
        let eol = if noise { *rng.pick(&["\n", "\r\n", "\n", "\n\n"]) } else { "\n" };
        let mut t = lines.join(eol);
        if !noise || rng.chance(2, 3) {
            t.push_str(eol);
        }
        t
    }

    fn junk_line(rng: &mut Rng) -> String {
        match rng.below(16) {
            0 => String::new(),
            1 => "   ".into(),
            2 => "\t".into(),
            3 => "not-an-ip".into(),
            4 => "127.0.0.1:5000".into(),
            5 => "127.0.0.2 # wifi".into(),
            6 => "256.1.1.1".into(),
            7 => "1.2.3".into(),
            8 => "127.000.000.001".into(),
            9 => "x".repeat(3000 + rng.below(3000) as usize),
            10 => "\u{feff}127.0.0.3".into(),
            11 => "127.0.0.1\r127.0.0.2".into(),
            12 => "::1%lo".into(),
            13 => "\u{2028}".into(),
            14 => "127.0.0.4,127.0.0.5".into(),
            _ => "# comment".into(),
        }
    }

    fn exotic(rng: &mut Rng) -> &'static str {
        *rng.pick(&[
            "10.255.255.1",
            "::1",
            "0:0:0:0:0:0:0:1",
            "2001:db8::1",
            "::ffff:127.0.0.1",
            "127.0.0.6",
            "127.0.0.7",
            "127.0.0.8",
            "0.0.0.0",
            "203.0.113.9",
        ])
    }

    fn text_op(&mut self, prefix: &str, text: &str) -> (String, Vec<IpAddr>) {
        let ok: Vec<IpAddr> = text
            .lines()
            .filter_map(|l| {
                let t = l.trim();
                if t.is_empty() { None } else { t.parse().ok() }
            })
            .collect();
        (format!("{prefix} text={} lines={}", to_hex(text.as_bytes()), classify(text)), ok)
    }

    fn gen_env(&mut self, rng: &mut Rng, ops: &mut Vec<String>, nlinks: usize, created: u64, tok: &mut u64, now: u64, seqs: &mut Vec<(u32, u64)>) {
        let n = rng.range(1, 5);
        for _ in 0..n {
            match rng.below(8) {
                7 => {
                    let i = if nlinks > 0 && rng.chance(9, 10) { rng.below(nlinks as u64) } else { nlinks as u64 + rng.below(2) };
                    *tok += 1;
                    ops.push(format!("resock i={i} tok={tok} sock={} now={now}", 1000 + *tok));
                }
                0 | 1 | 2 => {
                    let i = if nlinks > 0 && rng.chance(9, 10) { rng.below(nlinks as u64) } else { nlinks as u64 + rng.below(2) };
                    *tok += 1;
                    let k = rng.below(7);
                    let a = match k {
                        1 => rng.range(1000, 60000),
                        _ => rng.below(100000),
                    };
                    ops.push(format!("mut i={i} tok={tok} k={k} a={a} b={}", now - rng.below(3000)));
                }
                3 | 4 | 5 => {
                    let id = match rng.below(10) {
                        0 => 0,
                        1 => GHOST_LO + rng.below(3),
                        2 => created + 1 + rng.below(2), // not created yet -> bad-id
                        _ => {
                            if created > 0 { rng.range(1, created) } else { GHOST_LO }
                        }
                    };
                    let seq = if !seqs.is_empty() && rng.chance(1, 4) {
                        let s = rng.pick(seqs).0;
                        match rng.below(3) {
                            0 => s,
                            1 => s.wrapping_add(16384),
                            _ => s.wrapping_add(1),
                        }
                    } else {
                        match rng.below(4) {
                            0 => rng.below(40) as u32,
                            1 => u32::MAX - rng.below(3) as u32,
                            _ => rng.next_u64() as u32,
                        }
                    };
                    let ts = match rng.below(5) {
                        0 => now.saturating_sub(5000),
                        1 => now.saturating_sub(5001),
                        2 => now.saturating_sub(4999),
                        3 => now + 10,
                        _ => now - rng.below(2000),
                    };
                    seqs.push((seq, ts));
                    ops.push(format!("track seq={seq} id={id} ts={ts}"));
                }
                _ => {
                    let v = if rng.chance(1, 5) { "-".to_string() } else { rng.below(nlinks.max(1) as u64 + 1).to_string() };
                    ops.push(format!("sel v={v}"));
                }
            }
        }
    }
}

impl Component for Reload {
    fn rule(&self) -> &'static str {
        "reload: (a) parser cases: `analyze`/`sighup` on file texts with blank and whitespace-only lines, \
         Unicode whitespace, CRLF, BOM, IPv4/IPv6, alternative spellings, garbage, duplicates, very long lines, \
         missing file, directory, non-UTF-8 bytes; (b) sequences: `start` on a (possibly duplicated) subset of \
         127.0.0.1-5, then 2-6 reloads (`sighup` of a generated file + `tick`, sometimes refused or overridden \
         by a second SIGHUP, sometimes with unbindable / wrong-family addresses) interleaved with state \
         mutations of links, in-place reconnects (real `reconnect_uplink`), SequenceTracker inserts for live, removed, ghost and zero ids (slot collisions, \
         5000/5001 ms ages) and routing choices; (c) every (old,new) subset pair of 5 loopback addresses \
         (all 1024, in both tiers). Non-trivial: one reload removed, kept and added links at \
         once, or a survivor carried traffic state (connected, in-flight log) across a reload."
    }

    fn gen_case(&mut self, rng: &mut Rng, tier: Tier, idx: usize) -> Vec<String> {
        let mut ops = self.gen_case_inner(rng, tier, idx);
        // every third stateful case names the receiver `localhost` instead of 127.0.0.1
        if idx % 3 == 2 && ops.first().is_some_and(|o| o.starts_with("start ")) {
            ops.insert(0, "host localhost".into());
        }
        ops
    }


    fn start_case(&mut self) {
        self.st = None; // drops ConnIo -> closes every socket of the previous case
        self.host = HOST.to_string();
        self.attempts.lock().unwrap().clear();
        verif_clock::set(None);
    }

    fn exec(&mut self, toks: &[&str], mon: &mut Mon) -> String {
        if !self.glue_checked {
            self.glue_checked = true;
            for p in glue_problems() {
                mon.fail("C19", "glue-drift", p);
            }
        }
        match toks {
            ["evloop", ips, steps] => {
                // the REAL event loop (`run_sender_with_config`) on loopback, real ips file, real SIGHUPs:
                // no model state, constant reply (the model driver answers the same); monitors only
                self.run_evloop(ips, steps, mon);
                "evloop-ok".into()
            }
            ["host", name] => {
                // how the receiver is named from here on: its dotted quad or a name resolving to it. Takes effect
                // only before `start`; when the name does not resolve to 127.0.0.1 first here, the address is kept.
                if *name != HOST && *name != "localhost" {
                    return "bad-op".into();
                }
                if self.st.is_none() {
                    use std::net::ToSocketAddrs;
                    let first = (*name, 5000u16).to_socket_addrs().ok().and_then(|mut a| a.next());
                    if first == Some(std::net::SocketAddr::from(([127, 0, 0, 1], 5000))) {
                        self.host = name.to_string();
                        mon.count(if *name == HOST { "host-by-address" } else { "host-by-name" });
                    } else {
                        mon.count("host-by-name-skipped:does-not-resolve");
                    }
                }
                "ok".into()
            }
            ["start", rest @ ..] => {
                let (Some(port), Some(now), Some(ips), Some(table)) = (
                    kv_parse::<u16>(rest, "port"),
                    kv_parse::<u64>(rest, "now"),
                    kv(rest, "ips").and_then(parse_ips),
                    kv(rest, "conn").and_then(parse_table),
                ) else {
                    return "bad-op".into();
                };
                if self.st.is_some() || rest.len() != 4 {
                    return "bad-op".into();
                }
                verif_clock::set(Some(now));
                let mut st = Real::new(port);
                self.attempts.lock().unwrap().clear();
                let host = self.host.clone();
                st.connections = self.rt.block_on(create_connections_from_ips(
                    &ips,
                    &host,
                    port,
                    &self.binder,
                    &mut st.conn_io,
                ));
                let attempts: Vec<IpAddr> = std::mem::take(&mut *self.attempts.lock().unwrap());
                st.adopt_new();
                // (how often a REPEATED line of the start-up list is attempted is not C19's business: only the set)
                if attempts.iter().collect::<BTreeSet<_>>() != ips.iter().collect::<BTreeSet<_>>() {
                    mon.fail("C19", "startup-attempts", format!("startup attempted {attempts:?} for list {ips:?}"));
                }
                let ids: BTreeSet<u64> = st.connections.iter().map(|c| c.conn_id).collect();
                let keys: BTreeSet<u64> = st.conn_io.keys().copied().collect();
                if ids != keys || ids.len() != st.connections.len() {
                    mon.fail("C19", "io-keys", format!("after startup io keys {keys:?} != conn_ids {ids:?}"));
                }
                // per-attempt outcome: walk the created links in order
                let mut it = st.connections.iter().peekable();
                let mut att = Vec::new();
                let mut table_ok = true;
                for ip in &attempts {
                    let ok = it.peek().map(|c| c.local_ip == *ip).unwrap_or(false);
                    if ok {
                        it.next();
                    }
                    table_ok &= table.get(ip) == Some(&ok);
                    att.push(format!("{}/{}", ip, show_bool(ok)));
                }
                if it.next().is_some() || !table_ok {
                    self.st = Some(st);
                    return format!("outcome-mismatch start att=[{}]", att.join(","));
                }
                if st.connections.len() >= 2 {
                    mon.count("start:multi");
                }
                let out = format!("st att=[{}] {}", att.join(","), st.show_state());
                self.st = Some(st);
                out
            }
            ["analyze", t, l] => {
                let (Some(hex), Some(cls)) = (kv(&[*t], "text"), kv(&[*l], "lines")) else { return "bad-op".into() };
                let Some(bytes) = parse_hex(hex) else { return "bad-op".into() };
                let Ok(text) = String::from_utf8(bytes) else { return "bad-op".into() };
                if classify(&text) != cls {
                    return format!("bad-class {}", classify(&text));
                }
                let r = analyze_ip_reload_text(&text);
                monitor_analysis(Some(&text), &r, mon);
                show_reload(&r)
            }
            ["sighup", rest @ ..] => {
                if self.st.is_none() {
                    return "bad-op".into();
                }
                let path = self.dir.join("ips.txt");
                let _ = std::fs::remove_file(&path);
                let (path_s, text): (String, Option<String>) = match rest {
                    ["kind=missing"] => (path.to_string_lossy().into_owned(), None),
                    ["kind=dir"] => (self.dir.to_string_lossy().into_owned(), None),
                    ["kind=raw", t] => {
                        let Some(bytes) = kv(&[*t], "text").and_then(parse_hex) else { return "bad-op".into() };
                        if String::from_utf8(bytes.clone()).is_ok() {
                            return "bad-class raw-is-utf8".into();
                        }
                        std::fs::write(&path, &bytes).unwrap();
                        (path.to_string_lossy().into_owned(), None)
                    }
                    ["kind=text", t, l] => {
                        let (Some(hex), Some(cls)) = (kv(&[*t], "text"), kv(&[*l], "lines")) else { return "bad-op".into() };
                        let Some(bytes) = parse_hex(hex) else { return "bad-op".into() };
                        let Ok(text) = String::from_utf8(bytes) else { return "bad-op".into() };
                        if classify(&text) != cls {
                            return format!("bad-class {}", classify(&text));
                        }
                        std::fs::write(&path, text.as_bytes()).unwrap();
                        (path.to_string_lossy().into_owned(), Some(text))
                    }
                    _ => return "bad-op".into(),
                };
                let st = self.st.as_mut().unwrap();
                let now = verif_clock::get().unwrap_or(0);
                let before = st.snap(now);
                // ---- mirror of the SIGHUP arm of run_sender_with_config (pinned by glue_problems) ----
                let r = analyze_ip_reload(&path_s);
                match r.clone() {
                    IpReload::Apply { ips, first_invalid_line: _ } => {
                        st.pending = Some(PendingConnectionChanges {
                            new_ips: Some(ips),
                            receiver_host: self.host.clone(),
                            receiver_port: st.port,
                        });
                    }
                    IpReload::Refuse(_reason) => {}
                }
                // ---------------------------------------------------------------------------------------
                let _ = std::fs::remove_file(&path);
                monitor_analysis(text.as_deref(), &r, mon);
                let after = st.snap(now);
                match &r {
                    IpReload::Refuse(_) => {
                        mon.count("sighup:refused");
                        if before.pending.is_some() {
                            mon.count("sighup:refused-while-pending");
                        }
                        if after != before {
                            mon.fail("C19", "refuse-changed-state", "a refused reload changed the sender state".into());
                        }
                    }
                    IpReload::Apply { ips, .. } => {
                        mon.count("sighup:queued");
                        if before.pending.is_some() {
                            mon.count("sighup:overrode-pending");
                        }
                        let mut b2 = before.clone();
                        b2.pending = Some(ips.to_vec());
                        if after != b2 {
                            mon.fail("C19", "refuse-changed-state", "SIGHUP changed more than the pending list".into());
                        }
                    }
                }
                let pend = match &st.pending {
                    None => "-".to_string(),
                    Some(p) => format!(
                        "[{}]",
                        p.new_ips.as_ref().map(|v| v.iter().map(|i| i.to_string()).collect::<Vec<_>>().join(",")).unwrap_or_default()
                    ),
                };
                format!("{} pend={}", show_reload(&r), pend)
            }
            ["tick", n, c] => {
                if self.st.is_none() {
                    return "bad-op".into();
                }
                let (Some(now), Some(table)) = (kv_parse::<u64>(&[*n], "now"), kv(&[*c], "conn").and_then(parse_table)) else {
                    return "bad-op".into();
                };
                verif_clock::set(Some(now));
                // ---- mirror of the housekeeping arm: `pending_changes.take()` && `changes.new_ips` ----
                let taken = self.st.as_mut().unwrap().pending.take();
                if let Some(changes) = taken
                    && let Some(new_ips) = changes.new_ips
                {
                    self.checked_apply(&new_ips, &table, now, mon)
                } else {
                    let st = self.st.as_mut().unwrap();
                    mon.count("tick:nothing-pending");
                    format!("noop {} {}", st.show_state(), st.show_trk(now))
                }
            }
            ["apply", n, i, c] => {
                if self.st.is_none() {
                    return "bad-op".into();
                }
                let (Some(now), Some(ips), Some(table)) = (
                    kv_parse::<u64>(&[*n], "now"),
                    kv(&[*i], "ips").and_then(parse_ips),
                    kv(&[*c], "conn").and_then(parse_table),
                ) else {
                    return "bad-op".into();
                };
                verif_clock::set(Some(now));
                self.checked_apply(&ips, &table, now, mon)
            }
            ["mut", i, t, k, a, b] => {
                let Some(st) = self.st.as_mut() else { return "bad-op".into() };
                let (Some(idx), Some(tok), Some(kind), Some(a), Some(b)) = (
                    kv_parse::<usize>(&[*i], "i"),
                    kv_parse::<u64>(&[*t], "tok"),
                    kv_parse::<u64>(&[*k], "k"),
                    kv_parse::<u64>(&[*a], "a"),
                    kv_parse::<u64>(&[*b], "b"),
                ) else {
                    return "bad-op".into();
                };
                let Some(c) = st.connections.get_mut(idx) else { return "noidx".into() };
                match kind % 7 {
                    0 => {
                        c.connected = true;
                        c.phase = LinkPhase::Live;
                        c.last_received = Some(a.max(b));
                        c.reconnection.connection_established_ms = b;
                    }
                    1 => c.window = a as i32,
                    2 => c.register_packet(a as i32, b),
                    3 => {
                        c.queue_data_packet(&[0u8; 24], Some(a as u32), b);
                    }
                    4 => {
                        c.handle_nak(a as i32, b);
                    }
                    5 => {
                        let mut p = c.verif_private();
                        p.stall_gate_events = a;
                        p.silence_pulls = b % 1000;
                        c.verif_set_private(p);
                        c.weak = a % 2 == 0;
                        c.cc_target_bps = a * 1000;
                    }
                    _ => {
                        for j in 0..(1 + a % 5) {
                            c.register_packet((a + j) as i32, b);
                        }
                    }
                }
                let k = st.canon.get(&c.conn_id).copied().unwrap_or(0);
                let d = dump(c);
                st.tok.insert(k, (tok, d));
                mon.count("env:mutate");
                "ok".into()
            }
            ["resock", i, t, k, n] => {
                let Some(st) = self.st.as_mut() else { return "bad-op".into() };
                let (Some(idx), Some(tok), Some(sock), Some(now)) = (
                    kv_parse::<usize>(&[*i], "i"),
                    kv_parse::<u64>(&[*t], "tok"),
                    kv_parse::<u64>(&[*k], "sock"),
                    kv_parse::<u64>(&[*n], "now"),
                ) else {
                    return "bad-op".into();
                };
                verif_clock::set(Some(now));
                let Some(c) = st.connections.get_mut(idx) else { return "noidx".into() };
                // as in handle_housekeeping: `match conn_io.get_mut(&conn.conn_id) { Some(io) => reconnect_uplink(conn, io, now)`
                let Some(io) = st.conn_io.get_mut(&c.conn_id) else { return "noio".into() };
                let old = ident_of(io);
                if self.rt.block_on(reconnect_uplink(c, io, now)).is_err() {
                    return "fail".into();
                }
                let k = st.canon.get(&c.conn_id).copied().unwrap_or(0);
                let new = ident_of(io);
                if new.ptr == old.ptr && new.port == old.port {
                    mon.count("env:reconnect-same-identity");
                }
                st.sock_ident.insert(k, (sock, new));
                st.tok.insert(k, (tok, dump(c)));
                mon.count("env:reconnect");
                "ok".into()
            }
            ["track", q, i, t] => {
                let Some(st) = self.st.as_mut() else { return "bad-op".into() };
                let (Some(seq), Some(id), Some(ts)) =
                    (kv_parse::<u32>(&[*q], "seq"), kv_parse::<u64>(&[*i], "id"), kv_parse::<u64>(&[*t], "ts"))
                else {
                    return "bad-op".into();
                };
                let Some(real) = st.real_id(id) else { return "bad-id".into() };
                st.tracker.insert(seq, real, ts);
                st.tracked.insert(seq);
                mon.count(if id == 0 {
                    "env:track-zero-id"
                } else if id >= GHOST_LO {
                    "env:track-ghost-id"
                } else if st.connections.iter().any(|c| c.conn_id == real) {
                    "env:track-live-id"
                } else {
                    "env:track-removed-id"
                });
                "ok".into()
            }
            ["get", q, n] => {
                let Some(st) = self.st.as_ref() else { return "bad-op".into() };
                let (Some(seq), Some(now)) = (kv_parse::<u32>(&[*q], "seq"), kv_parse::<u64>(&[*n], "now")) else {
                    return "bad-op".into();
                };
                match st.tracker.get(seq, now) {
                    None => "-".into(),
                    Some(id) => st.canon_str(id),
                }
            }
            ["sel", v] => {
                let Some(st) = self.st.as_mut() else { return "bad-op".into() };
                let v = match kv(&[*v], "v") {
                    Some("-") => None,
                    Some(x) => match x.parse::<usize>() {
                        Ok(n) => Some(n),
                        Err(_) => return "bad-op".into(),
                    },
                    None => return "bad-op".into(),
                };
                st.last_selected = v;
                "ok".into()
            }
            ["state"] => match &self.st {
                Some(st) => st.show_state(),
                None => "links=[] io=[] last=- pend=-".into(),
            },
            _ => "bad-op".into(),
        }
    }
}

impl Drop for Reload {
    fn drop(&mut self) {
        self.st = None;
        let _ = std::fs::remove_dir_all(&self.dir);
    }
}

fn main() {
    verif_harness::run_main("reload", Box::new(Reload::new()));
}
