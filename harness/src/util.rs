//! Canonical printing shared by all components (must match lean/Srtla/Drv/Util.lean).

pub fn to_hex(b: &[u8]) -> String {
    if b.is_empty() {
        return "-".into();
    }
    let mut s = String::with_capacity(b.len() * 2);
    for x in b {
        s.push_str(&format!("{x:02x}"));
    }
    s
}

pub fn parse_hex(s: &str) -> Option<Vec<u8>> {
    if s == "-" {
        return Some(Vec::new());
    }
    if s.len() % 2 != 0 {
        return None;
    }
    (0..s.len() / 2)
        .map(|i| u8::from_str_radix(&s[2 * i..2 * i + 2], 16).ok())
        .collect()
}

pub fn show_opt<T: std::fmt::Display>(o: Option<T>) -> String {
    match o {
        None => "-".into(),
        Some(x) => x.to_string(),
    }
}

pub fn show_bool(b: bool) -> &'static str {
    if b { "1" } else { "0" }
}

pub fn show_list<T: std::fmt::Display>(l: &[T]) -> String {
    let v: Vec<String> = l.iter().map(|x| x.to_string()).collect();
    format!("[{}]", v.join(","))
}

/// "a,b,c" or "-" for empty.
pub fn parse_list<T: std::str::FromStr>(s: &str) -> Option<Vec<T>> {
    if s == "-" {
        return Some(Vec::new());
    }
    s.split(',').map(|x| x.parse().ok()).collect()
}

pub fn join_list<T: std::fmt::Display>(l: &[T]) -> String {
    if l.is_empty() {
        return "-".into();
    }
    let v: Vec<String> = l.iter().map(|x| x.to_string()).collect();
    v.join(",")
}

pub fn kv<'a>(toks: &[&'a str], key: &str) -> Option<&'a str> {
    toks.iter().find_map(|t| {
        let (k, v) = t.split_once('=')?;
        (k == key).then_some(v)
    })
}

pub fn kv_parse<T: std::str::FromStr>(toks: &[&str], key: &str) -> Option<T> {
    kv(toks, key)?.parse().ok()
}

pub fn kv_bool(toks: &[&str], key: &str) -> Option<bool> {
    match kv(toks, key)? {
        "1" => Some(true),
        "0" => Some(false),
        _ => None,
    }
}
