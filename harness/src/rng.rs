//! SplitMix64: every random choice of a run derives from one seed.

#[derive(Clone)]
pub struct Rng(pub u64);

impl Rng {
    pub fn new(seed: u64) -> Self {
        Rng(seed ^ 0x9E37_79B9_7F4A_7C15)
    }

    pub fn next_u64(&mut self) -> u64 {
        self.0 = self.0.wrapping_add(0x9E37_79B9_7F4A_7C15);
        let mut z = self.0;
        z = (z ^ (z >> 30)).wrapping_mul(0xBF58_476D_1CE4_E5B9);
        z = (z ^ (z >> 27)).wrapping_mul(0x94D0_49BB_1331_11EB);
        z ^ (z >> 31)
    }

    /// Uniform in `0..n` (n > 0).
    pub fn below(&mut self, n: u64) -> u64 {
        self.next_u64() % n
    }

    /// Uniform in `lo..=hi`.
    pub fn range(&mut self, lo: u64, hi: u64) -> u64 {
        lo + self.below(hi - lo + 1)
    }

    pub fn chance(&mut self, num: u64, den: u64) -> bool {
        self.below(den) < num
    }

    pub fn pick<'a, T>(&mut self, xs: &'a [T]) -> &'a T {
        &xs[self.below(xs.len() as u64) as usize]
    }

    pub fn bytes(&mut self, n: usize) -> Vec<u8> {
        (0..n).map(|_| self.next_u64() as u8).collect()
    }

    /// Start-of-case clock in ms.  Mostly the small base the cases always used (`lo` + below(`spread`)); one case in
    /// five runs at an epoch-scale clock (what `now_ms()` returns in production, ~1.79e12) and one in five starts a
    /// few seconds BEFORE a multiple of 2^32 ms, so that the case crosses the point where the low 32 bits of the
    /// clock roll over (a stamp narrowed to u32 / compared with a saturating subtraction goes wrong only there).
    pub fn time_base(&mut self, lo: u64, spread: u64) -> u64 {
        match self.below(5) {
            0 => 1_790_000_000_000 + self.below(1_000_000_000),
            1 => {
                let k = *self.pick(&[1u64, 2, 417]);
                (k << 32) - 1 - self.below(12_000)
            }
            _ => lo + self.below(spread),
        }
    }

    /// Fork an independent stream (per case), so case `k` replays alone.
    pub fn fork(&mut self, k: u64) -> Rng {
        Rng::new(self.0 ^ k.wrapping_mul(0xD6E8_FEB8_6659_FD93))
    }
}
