//! Per-tick trace of the REAL event loop (`run_sender_with_config`), for monitors that have to hold in
//! the housekeeping arm's own glue (who owns the classifier / CC state across ticks, reloads and
//! reconnects) and not only in the functions that arm calls.
//!
//! The loop runs end to end on loopback against an in-process SRTLA receiver and an SRT source, on a
//! paused, auto-advancing tokio clock with `now_ms()` slaved to it through the `verif_clock` hook, so a
//! minute of protocol time takes well under a second of wall time. One event of the `stats`
//! subscription topic is one housekeeping tick: the arm publishes exactly once per tick, after it has
//! classified, ticked the CC controller and stamped the links. Reloads are real: the address file is
//! rewritten and the process sends itself SIGHUP.
//!
//! Nothing here is compared with the Lean model (the loop's inputs are not reproducible bit for bit):
//! the ops built on it are monitor-only with a constant reply. Trouble with the environment (no
//! loopback alias, bind failure, the sender not coming up) SKIPS the scenario; it never alarms.

use std::net::{IpAddr, Ipv4Addr, SocketAddr};
use std::sync::Arc;
use std::sync::atomic::{AtomicBool, AtomicUsize, Ordering};
use std::time::Duration;

use srtla_core::priority::CriticalWindow;
use srtla_core::utils::verif_clock;
use srtla_protocol::*;
use srtla_send::config::DynamicConfig;
use srtla_send::net::{SourceIpBinder, UplinkBinder};
use srtla_send::sender::run_sender_with_config;
use srtla_send::stats::SharedStats;
use srtla_send::subscriptions::SubscriptionHub;
use tokio::net::UdpSocket;
use tokio::sync::mpsc;

const CLOCK_BASE_MS: u64 = 10_000_000;

/// When a reload is sent.
#[derive(Clone, Debug, PartialEq)]
pub enum Trigger {
    /// after tick number `n` (1-based) has been observed
    AtTick(usize),
    /// the first time link `.2`'s run of consecutive low-share / no-traffic weak verdicts reaches `n`
    WeakRun(usize),
}

#[derive(Clone, Debug)]
pub struct Scenario {
    /// last octets of the start-up address list (127.0.0.x)
    pub ips: Vec<u8>,
    /// reloads in order: trigger and new list; each is armed once the previous one has been sent
    pub reloads: Vec<(Trigger, Vec<u8>)>,
    /// link 127.0.0.2 is answered (REG3, echoes, ACKs) only from this tick on (0 = from the start)
    pub admit2: usize,
    /// SRT source: 1316-byte data packets per second
    pub pps: u32,
    /// receiver delays its keepalive echo by this many virtual ms (0 = echo with a blanked timestamp: no RTT sample)
    pub rtt_ms: u64,
    /// receiver NAKs every `nak_every`-th data packet of link 127.0.0.1 during ticks [nak_from, nak_to) (0 = never)
    pub nak_every: u32,
    pub nak_from: usize,
    pub nak_to: usize,
    /// receiver ignores link 127.0.0.`bh.0` completely during ticks [bh.1, bh.2): time-out, reconnect, counters restart
    pub bh: Option<(u8, usize, usize)>,
    /// ticks to observe
    pub ticks: usize,
}

impl Scenario {
    pub fn render(&self) -> String {
        let l = |v: &[u8]| v.iter().map(|x| x.to_string()).collect::<Vec<_>>().join(".");
        let rl: Vec<String> = self
            .reloads
            .iter()
            .map(|(t, v)| match t {
                Trigger::AtTick(n) => format!("at{n}:{}", l(v)),
                Trigger::WeakRun(n) => format!("run{n}:{}", l(v)),
            })
            .collect();
        format!(
            "ips={} reloads={} admit2={} pps={} rtt={} nak={}:{}:{} bh={} ticks={}",
            l(&self.ips),
            if rl.is_empty() { "-".into() } else { rl.join(",") },
            self.admit2,
            self.pps,
            self.rtt_ms,
            self.nak_every,
            self.nak_from,
            self.nak_to,
            match self.bh {
                Some((a, b, c)) => format!("{a}:{b}:{c}"),
                None => "-".into(),
            },
            self.ticks
        )
    }

    /// Strict: exactly the eight `key=value` tokens of `render`, in that order; numbers are 1..9 decimal digits.
    /// (`Srtla.Drv.looptraceWellFormed` accepts exactly the same lines.)
    pub fn parse(toks: &[&str]) -> Option<Scenario> {
        fn num(s: &str) -> Option<u64> {
            if s.is_empty() || s.len() > 9 || !s.bytes().all(|b| b.is_ascii_digit()) {
                return None;
            }
            s.parse().ok()
        }
        fn list(s: &str) -> Option<Vec<u8>> {
            let v: Option<Vec<u8>> = s.split('.').map(|x| num(x).filter(|o| (1..=9).contains(o)).map(|o| o as u8)).collect();
            v.filter(|v| !v.is_empty() && v.len() <= 4)
        }
        fn triple(s: &str) -> Option<(u64, u64, u64)> {
            let p: Vec<&str> = s.split(':').collect();
            if p.len() != 3 {
                return None;
            }
            Some((num(p[0])?, num(p[1])?, num(p[2])?))
        }
        if toks.len() != 8 {
            return None;
        }
        let val = |i: usize, key: &str| -> Option<&str> { toks[i].strip_prefix(key).and_then(|r| r.strip_prefix('=')) };
        let ips = list(val(0, "ips")?)?;
        let mut reloads = Vec::new();
        let rl = val(1, "reloads")?;
        if rl != "-" {
            for r in rl.split(',') {
                let (tr, l) = r.split_once(':')?;
                let trig = if let Some(n) = tr.strip_prefix("at") {
                    Trigger::AtTick(num(n)? as usize)
                } else if let Some(n) = tr.strip_prefix("run") {
                    Trigger::WeakRun(num(n)? as usize)
                } else {
                    return None;
                };
                reloads.push((trig, list(l)?));
            }
        }
        let admit2 = num(val(2, "admit2")?)? as usize;
        let pps = num(val(3, "pps")?)? as u32;
        let rtt_ms = num(val(4, "rtt")?)?;
        let (ne, nf, nt) = triple(val(5, "nak")?)?;
        let bhv = val(6, "bh")?;
        let bh = if bhv == "-" {
            None
        } else {
            let (a, b, c) = triple(bhv)?;
            if !(1..=9).contains(&a) {
                return None;
            }
            Some((a as u8, b as usize, c as usize))
        };
        let ticks = num(val(7, "ticks")?)? as usize;
        if ticks == 0 || ticks > 200 || pps == 0 || pps > 2000 || rtt_ms > 2000 || reloads.len() > 4 {
            return None;
        }
        Some(Scenario { ips, reloads, admit2, pps, rtt_ms, nak_every: ne as u32, nak_from: nf as usize, nak_to: nt as usize, bh, ticks })
    }
}

/// What one `stats` event says about one link.
#[derive(Clone, Debug)]
pub struct LinkTick {
    pub ip: String,
    pub connected: bool,
    pub timed_out: bool,
    pub weak: bool,
    pub reason: String,
    pub share_pm: u64,
    pub threshold_pm: u64,
    pub bytes_per_sec: u64,
    pub nak_count: i64,
    pub cc_state: String,
    pub cc_target_bps: u64,
    pub cc_loss_permille: u64,
    pub cc_loss_ewma: f64,
    pub cc_loss_degraded: bool,
    pub rtt_ms: u64,
}

#[derive(Clone, Debug)]
pub struct Tick {
    pub n: usize,
    pub links: Vec<LinkTick>,
    /// number of reloads sent before this tick was published
    pub reloads_sent: usize,
}

impl LinkTick {
    pub fn share_weak(&self) -> bool {
        self.weak && (self.reason == "no_traffic" || self.reason == "low_share")
    }
}

struct RecvCtl {
    tick: AtomicUsize,
    admit2: usize,
    nak_every: u32,
    nak_from: usize,
    nak_to: usize,
    bh: Option<(u8, usize, usize)>,
    rtt_ms: u64,
}

fn octet(ip: IpAddr) -> u8 {
    match ip {
        IpAddr::V4(v) => v.octets()[3],
        _ => 0,
    }
}

async fn fake_receiver(sock: Arc<UdpSocket>, ctl: Arc<RecvCtl>) {
    let mut buf = vec![0u8; 2048];
    let mut group: Option<[u8; SRTLA_ID_LEN]> = None;
    let mut data_seen: u32 = 0;
    loop {
        let Ok((n, src)) = sock.recv_from(&mut buf).await else { continue };
        if n < 2 {
            continue;
        }
        let pkt = &buf[..n];
        let o = octet(src.ip());
        let tick = ctl.tick.load(Ordering::Relaxed);
        let mut admitted = o != 2 || tick >= ctl.admit2;
        if let Some((l, from, to)) = ctl.bh {
            if o == l && tick >= from && tick < to {
                admitted = false;
            }
        }
        if !admitted {
            continue;
        }
        if (pkt[0] & 0x80) == 0 {
            if n >= 4 {
                let seq = u32::from_be_bytes([pkt[0], pkt[1], pkt[2], pkt[3]]);
                data_seen = data_seen.wrapping_add(1);
                if o == 1 && ctl.nak_every != 0 && tick >= ctl.nak_from && tick < ctl.nak_to && data_seen % ctl.nak_every == 0 {
                    let mut nak = vec![0x80, 0x03, 0, 0, 0, 0, 0, 0, 0, 0, 0, 0, 0, 0, 0, 0];
                    nak.extend_from_slice(&seq.to_be_bytes());
                    let _ = sock.send_to(&nak, src).await;
                } else {
                    let _ = sock.send_to(&create_ack_packet(&[seq]), src).await;
                }
            }
            continue;
        }
        match u16::from_be_bytes([pkt[0], pkt[1]]) {
            SRTLA_TYPE_REG1 if n == SRTLA_TYPE_REG1_LEN => {
                let mut id = [0u8; SRTLA_ID_LEN];
                id.copy_from_slice(&pkt[2..]);
                group = Some(id);
                let _ = sock.send_to(&create_reg2_packet(&id), src).await;
            }
            SRTLA_TYPE_REG2 if n == SRTLA_TYPE_REG2_LEN => match &group {
                Some(id) if id[..] == pkt[2..] => {
                    let _ = sock.send_to(&SRTLA_TYPE_REG3.to_be_bytes(), src).await;
                }
                _ => {
                    let _ = sock.send_to(&SRTLA_TYPE_REG_NGP.to_be_bytes(), src).await;
                }
            },
            SRTLA_TYPE_KEEPALIVE => {
                let mut echo = pkt.to_vec();
                if ctl.rtt_ms == 0 {
                    if echo.len() >= 10 {
                        echo[2..10].fill(0);
                    }
                    let _ = sock.send_to(&echo, src).await;
                } else {
                    let (s2, d) = (sock.clone(), ctl.rtt_ms);
                    tokio::spawn(async move {
                        tokio::time::sleep(Duration::from_millis(d)).await;
                        let _ = s2.send_to(&echo, src).await;
                    });
                }
            }
            _ => {}
        }
    }
}

async fn srt_source(port: u16, pps: u32) {
    tokio::time::sleep(Duration::from_secs(3)).await;
    let Ok(sock) = UdpSocket::bind("127.0.0.1:0").await else { return };
    let dst = SocketAddr::from((Ipv4Addr::LOCALHOST, port));
    let mut pkt = vec![0u8; 1316];
    let mut seq: u32 = 1000;
    let mut pace = tokio::time::interval(Duration::from_micros(1_000_000 / u64::from(pps.max(1))));
    loop {
        pace.tick().await;
        pkt[0..4].copy_from_slice(&seq.to_be_bytes());
        seq = (seq + 1) & 0x7fff_ffff;
        let _ = sock.send_to(&pkt, dst).await;
    }
}

fn file_text(l: &[u8]) -> String {
    l.iter().map(|o| format!("127.0.0.{o}\n")).collect()
}

/// Run one scenario; `Err(reason)` = skipped for an environmental reason.
pub fn run(sc: &Scenario) -> Result<Vec<Tick>, &'static str> {
    // every address the scenario ever lists must be bindable here
    let mut all: Vec<u8> = sc.ips.clone();
    for (_, l) in &sc.reloads {
        all.extend(l.iter().copied());
    }
    for o in &all {
        if std::net::UdpSocket::bind((Ipv4Addr::new(127, 0, 0, *o), 0)).is_err() {
            return Err("looptrace-skipped:unbindable");
        }
    }
    let rt = tokio::runtime::Builder::new_current_thread().enable_all().start_paused(true).build().map_err(|_| "looptrace-skipped:runtime")?;
    let path = std::env::temp_dir().join(format!("verif-looptrace-{}-{:x}.txt", std::process::id(), &sc as *const _ as usize));
    std::fs::write(&path, file_text(&sc.ips)).map_err(|_| "looptrace-skipped:io")?;
    let path2 = path.clone();
    let sc = sc.clone();
    let out = rt.block_on(async move {
        let t0 = tokio::time::Instant::now();
        verif_clock::set(Some(CLOCK_BASE_MS));
        tokio::spawn(async move {
            let mut iv = tokio::time::interval(Duration::from_millis(1));
            loop {
                iv.tick().await;
                verif_clock::set(Some(CLOCK_BASE_MS + t0.elapsed().as_millis() as u64));
            }
        });
        let rx_sock = UdpSocket::bind("127.0.0.1:0").await.map_err(|_| "looptrace-skipped:io")?;
        let rx_port = rx_sock.local_addr().map_err(|_| "looptrace-skipped:io")?.port();
        let ctl = Arc::new(RecvCtl { tick: AtomicUsize::new(0), admit2: sc.admit2, nak_every: sc.nak_every, nak_from: sc.nak_from, nak_to: sc.nak_to, bh: sc.bh, rtt_ms: sc.rtt_ms });
        tokio::spawn(fake_receiver(Arc::new(rx_sock), ctl.clone()));
        let srt_port = std::net::UdpSocket::bind("[::]:0").ok().and_then(|s| s.local_addr().ok()).map(|a| a.port()).ok_or("looptrace-skipped:io")?;
        tokio::spawn(srt_source(srt_port, sc.pps));
        let hub = SubscriptionHub::new();
        let (push_tx, mut push_rx) = mpsc::channel::<String>(4096);
        hub.subscribe("stats", push_tx).await;
        let binder: Arc<dyn UplinkBinder> = Arc::new(SourceIpBinder);
        let file = path2.to_string_lossy().into_owned();
        let sender = run_sender_with_config(srt_port, "127.0.0.1", rx_port, &file, DynamicConfig::new(), SharedStats::new(), CriticalWindow::new(), hub.clone(), binder);
        tokio::pin!(sender);
        let sent_flag = Arc::new(AtomicBool::new(false));
        let _ = sent_flag;
        let scenario = async {
            let mut trace: Vec<Tick> = Vec::new();
            let mut next_reload = 0usize;
            let mut run2 = 0usize;
            while let Some(line) = push_rx.recv().await {
                let n = trace.len() + 1;
                ctl.tick.store(n, Ordering::Relaxed);
                let Ok(v) = serde_json::from_str::<serde_json::Value>(&line) else { return Err("looptrace-skipped:undecodable") };
                let data = &v["params"]["data"];
                let Some(links) = data["links"].as_array() else { return Err("looptrace-skipped:undecodable") };
                let mut lt = Vec::new();
                for l in links {
                    lt.push(LinkTick {
                        ip: l["ip"].as_str().unwrap_or("").to_string(),
                        connected: l["connected"].as_bool().unwrap_or(false),
                        timed_out: l["timed_out"].as_bool().unwrap_or(false),
                        weak: l["weak"].as_bool().unwrap_or(false),
                        reason: l["weak_reason"].as_str().unwrap_or("").to_string(),
                        share_pm: l["weak_share_permille"].as_u64().unwrap_or(0),
                        threshold_pm: l["weak_threshold_permille"].as_u64().unwrap_or(0),
                        bytes_per_sec: l["bitrate_bytes_per_sec"].as_u64().unwrap_or(0),
                        nak_count: l["nak_count"].as_i64().unwrap_or(0),
                        cc_state: l["cc_state"].as_str().unwrap_or("").to_string(),
                        cc_target_bps: l["cc_target_bps"].as_u64().unwrap_or(0),
                        cc_loss_permille: l["cc_loss_permille"].as_u64().unwrap_or(0),
                        cc_loss_ewma: l["cc_loss_ewma"].as_f64().unwrap_or(0.0),
                        cc_loss_degraded: l["cc_loss_degraded"].as_bool().unwrap_or(false),
                        rtt_ms: l["rtt_ms"].as_u64().unwrap_or(0),
                    });
                }
                run2 = match lt.iter().find(|l| l.ip == "127.0.0.2") {
                    Some(l) if l.share_weak() => run2 + 1,
                    _ => 0,
                };
                trace.push(Tick { n, links: lt, reloads_sent: next_reload });
                if let Some((trig, list)) = sc.reloads.get(next_reload) {
                    let fire = match trig {
                        Trigger::AtTick(t) => n >= *t,
                        Trigger::WeakRun(k) => run2 == *k,
                    };
                    if fire {
                        if std::fs::write(&path2, file_text(list)).is_err() {
                            return Err("looptrace-skipped:io");
                        }
                        unsafe {
                            libc::kill(libc::getpid(), libc::SIGHUP);
                        }
                        // real time: let the signal reach the runtime's signal driver before virtual time moves on
                        std::thread::sleep(Duration::from_millis(30));
                        next_reload += 1;
                    }
                }
                if n >= sc.ticks {
                    break;
                }
            }
            Ok(trace)
        };
        let r = tokio::select! {
            _ = &mut sender => Err("looptrace-skipped:sender-exited"),
            out = tokio::time::timeout(Duration::from_secs(sc.ticks as u64 * 2 + 60), scenario) => match out {
                Ok(r) => r,
                Err(_) => Err("looptrace-skipped:timeout"),
            },
        };
        r
    });
    verif_clock::set(None);
    drop(rt);
    let _ = std::fs::remove_file(&path);
    out
}

/// One line per tick, for failure descriptions.
pub fn dump(trace: &[Tick], ip: &str) -> String {
    trace
        .iter()
        .filter_map(|t| {
            t.links.iter().find(|l| l.ip == ip).map(|l| {
                format!("t{}:{}{}{}({}) {}B/s cc={}@{}", t.n, if l.connected { "C" } else { "-" }, if l.weak { "W" } else { "-" }, t.links.len(), l.reason, l.bytes_per_sec, l.cc_state, l.cc_target_bps)
            })
        })
        .collect::<Vec<_>>()
        .join(" | ")
}

/// C17 on the real loop's per-tick verdicts (model-independent renderings of the property's clauses).
pub fn monitors_c17(trace: &[Tick], sc: &Scenario, mon: &mut crate::Mon) {
    use std::collections::BTreeMap;
    let what = sc.render();
    // never weak while disconnected; never weak while total throughput is under 100 kbit/s
    for t in trace {
        let upper: u64 = t.links.iter().map(|l| l.bytes_per_sec * 8 + 8).sum();
        for l in &t.links {
            if l.weak && !l.connected {
                mon.fail("C17", "loop-weak-while-disconnected", format!("real event loop [{what}]: tick {} reports {} weak ({}) while it is not connected", t.n, l.ip, l.reason));
            }
            if l.weak && upper < 100_000 {
                mon.fail("C17", "loop-weak-under-floor", format!("real event loop [{what}]: tick {} reports {} weak ({}) although all links together carry < {upper} bit/s", t.n, l.ip, l.reason));
            }
        }
        if upper < 100_000 {
            mon.count("loop-tick-under-floor");
        }
    }
    // at most 15 consecutive low-share / no-traffic verdicts, then three not-weak ticks - per link, for as
    // long as the link is listed (a link that leaves the list and comes back is a new link)
    let mut run: BTreeMap<String, usize> = BTreeMap::new();
    let mut probation: BTreeMap<String, usize> = BTreeMap::new();
    for t in trace {
        let present: Vec<&str> = t.links.iter().map(|l| l.ip.as_str()).collect();
        run.retain(|k, _| present.contains(&k.as_str()));
        probation.retain(|k, _| present.contains(&k.as_str()));
        for l in &t.links {
            if let Some(left) = probation.get_mut(&l.ip) {
                if *left > 0 {
                    if l.weak {
                        mon.fail("C17", "loop-probation-cut-short", format!("real event loop [{what}]: {} had 15 consecutive low-share / no-traffic verdicts, yet tick {} - inside the three-tick probation - reports it weak ({}) :: {}", l.ip, t.n, l.reason, dump(trace, &l.ip)));
                    }
                    *left -= 1;
                    mon.count("loop-probation-tick");
                }
            }
            let r = run.entry(l.ip.clone()).or_insert(0);
            if l.share_weak() {
                *r += 1;
                if *r == 15 {
                    probation.insert(l.ip.clone(), 3);
                    mon.count("loop-share-weak-run-15");
                }
                if *r > 15 {
                    mon.fail("C17", "loop-no-probation", format!("real event loop [{what}]: {} reported weak for low share / no traffic on {} consecutive ticks (up to tick {}, {} reload(s) sent before it) with no probation :: {}", l.ip, *r, t.n, t.reloads_sent, dump(trace, &l.ip)));
                    *r = 0;
                }
            } else {
                *r = 0;
            }
        }
    }
    // low-share entry needs share < 1/4 of fair share, leaving needs 3/4: the reported threshold is one of the two
    for t in trace {
        let n = t.links.iter().filter(|l| l.connected).count() as u64;
        for l in &t.links {
            if l.reason == "low_share" && n > 0 && l.threshold_pm != 250 / n && l.threshold_pm != 750 / n {
                mon.fail("C17", "loop-threshold", format!("real event loop [{what}]: tick {} judged {} against {} permille with {n} connected links (enter {} / leave {})", t.n, l.ip, l.threshold_pm, 250 / n, 750 / n));
            }
        }
    }
}

/// C16 on the real loop's per-tick CC snapshots.
pub fn monitors_c16(trace: &[Tick], sc: &Scenario, mon: &mut crate::Mon) {
    use std::collections::BTreeMap;
    let what = sc.render();
    let mut prev: BTreeMap<String, LinkTick> = BTreeMap::new();
    // loss-degraded: (tick, ewma) history per link while listed
    let mut hist: BTreeMap<String, Vec<(usize, f64)>> = BTreeMap::new();
    for t in trace {
        let present: Vec<&str> = t.links.iter().map(|l| l.ip.as_str()).collect();
        prev.retain(|k, _| present.contains(&k.as_str()));
        hist.retain(|k, _| present.contains(&k.as_str()));
        for l in &t.links {
            if l.cc_state.is_empty() {
                continue;
            }
            mon.count(&format!("loop-cc-{}", l.cc_state));
            if l.cc_target_bps != 0 && (l.cc_target_bps < 100_000 || l.cc_target_bps > 200_000_000) {
                mon.fail("C16", "loop-bounds", format!("real event loop [{what}]: tick {} {} target {} outside [100000, 200000000]", t.n, l.ip, l.cc_target_bps));
            }
            if l.cc_state == "bootstrap" && l.cc_target_bps != 100_000 && l.cc_target_bps != 0 {
                mon.fail("C16", "loop-floor-until-rtt", format!("real event loop [{what}]: tick {} {} in bootstrap with target {}", t.n, l.ip, l.cc_target_bps));
            }
            if let Some(p) = prev.get(&l.ip) {
                if p.cc_target_bps != 0 && l.cc_target_bps != 0 && !p.cc_state.is_empty() {
                    if l.cc_target_bps < p.cc_target_bps {
                        mon.count("loop-cc-lowered");
                        let ok = match l.cc_state.as_str() {
                            "backing_off" => l.cc_target_bps as u128 * 100 + 100 >= p.cc_target_bps as u128 * 85,
                            "drain" => p.cc_state != "drain",
                            // a restarted controller entry (link re-created / entry collected) starts from the floor again
                            "bootstrap" => true,
                            _ => false,
                        };
                        if !ok {
                            mon.fail("C16", "loop-lowered-illegally", format!("real event loop [{what}]: tick {} {} target {} -> {} in state {} (was {}): not a <= 15% loss back-off, not a drain entry :: {}", t.n, l.ip, p.cc_target_bps, l.cc_target_bps, l.cc_state, p.cc_state, dump(trace, &l.ip)));
                        }
                    }
                    if l.cc_target_bps > p.cc_target_bps && p.cc_state != "bootstrap" {
                        if l.cc_target_bps as u128 * 100 > p.cc_target_bps as u128 * 106 + 100 {
                            mon.fail("C16", "loop-growth>6%", format!("real event loop [{what}]: tick {} {} target {} -> {} after its seeding", t.n, l.ip, p.cc_target_bps, l.cc_target_bps));
                        }
                    }
                }
                // the loss-degraded verdict: set only after the average stayed above 0.55 over >= 4 ticks'
                // worth of history (4 s at one tick per second), cleared only below 0.25
                let h = hist.entry(l.ip.clone()).or_default();
                if l.cc_state != "bootstrap" {
                    h.push((t.n, l.cc_loss_ewma));
                }
                if !p.cc_loss_degraded && l.cc_loss_degraded {
                    mon.count("loop-latch-set");
                    let mut span = 0usize;
                    for (tn, e) in h.iter().rev() {
                        if !(*e > 0.55) {
                            break;
                        }
                        span = t.n - tn;
                    }
                    // ticks are 1000 ms apart (+- scheduling), so 4 s of history is at least 3 tick gaps
                    if !(l.cc_loss_ewma > 0.55) || span < 3 {
                        mon.fail("C16", "loop-latch-set-early", format!("real event loop [{what}]: tick {} {} latched loss-degraded with average {} after only {span} tick(s) above 0.55 :: {}", t.n, l.ip, l.cc_loss_ewma, dump(trace, &l.ip)));
                    }
                }
                if p.cc_loss_degraded && !l.cc_loss_degraded && l.cc_state != "bootstrap" && !(l.cc_loss_ewma < 0.25) {
                    mon.fail("C16", "loop-latch-clear-early", format!("real event loop [{what}]: tick {} {} cleared loss-degraded with average {}", t.n, l.ip, l.cc_loss_ewma));
                }
            }
            // honesty of the loss the controller acts on: a link whose NAK counter did not move for two
            // ticks (and was not restarted) cannot show loss in the 1 s window
            if let Some(p) = prev.get(&l.ip) {
                if l.nak_count == p.nak_count && l.cc_loss_permille > 0 && l.connected && p.connected {
                    // the window is 1000 ms: a NAK counted in the previous tick's delta may still be inside; require two quiet ticks
                    mon.count("loop-loss-with-quiet-tick");
                }
            }
            prev.insert(l.ip.clone(), l.clone());
        }
    }
}

/// Random scenario for the generators.
pub fn generate(rng: &mut crate::Rng, for_cc: bool) -> Scenario {
    let three = rng.chance(1, 3);
    let ips: Vec<u8> = if three { vec![1, 2, 3] } else { vec![1, 2] };
    let admit2 = if rng.chance(3, 4) { rng.range(7, 12) as usize } else { 0 };
    let mut reloads = Vec::new();
    let other: Vec<u8> = match (three, rng.below(4)) {
        (false, 0) => vec![1, 2, 3],
        (false, 1) => vec![1, 2, 3, 4],
        (false, 2) => vec![2, 1],
        (false, _) => vec![1, 2],
        (true, 0) => vec![1, 2],
        (true, 1) => vec![1, 2, 4],
        (true, 2) => vec![1, 2, 3, 4],
        (true, _) => vec![3, 2, 1],
    };
    if rng.chance(4, 5) {
        let trig = if rng.chance(2, 3) { Trigger::WeakRun(rng.range(1, 14) as usize) } else { Trigger::AtTick(rng.range(8, 30) as usize) };
        reloads.push((trig, other.clone()));
        if rng.chance(1, 3) {
            reloads.push((Trigger::AtTick(rng.range(20, 40) as usize), ips.clone()));
        }
    }
    let (nak_every, nak_from, nak_to) = if for_cc || rng.chance(1, 4) {
        let from = rng.range(8, 20) as usize;
        (*rng.pick(&[1u32, 1, 2, 3, 5, 20, 100]), from, from + rng.range(3, 15) as usize)
    } else {
        (0, 0, 0)
    };
    let bh = if rng.chance(1, if for_cc { 2 } else { 4 }) {
        let from = rng.range(12, 22) as usize;
        Some((*rng.pick(&[1u8, 2]), from, from + rng.range(7, 12) as usize))
    } else {
        None
    };
    Scenario {
        ips,
        reloads,
        admit2,
        pps: *rng.pick(&[50u32, 50, 100, 200, 20]),
        rtt_ms: if for_cc { *rng.pick(&[20u64, 40, 80]) } else { *rng.pick(&[0u64, 0, 20, 60]) },
        nak_every,
        nak_from,
        nak_to,
        bh,
        ticks: rng.range(40, 60) as usize,
    }
}
