//! Per-tick trace of the REAL event loop (`run_sender_with_config`), for monitors that have to hold in
//! the housekeeping arm's own glue (who owns the classifier / CC state across ticks, reloads and
//! reconnects) and not only in the functions that arm calls.
//!
//! The loop runs end to end on loopback against an in-process SRTLA receiver and an SRT source, on a
//! paused, auto-advancing tokio clock with `now_ms()` slaved to it through the `verif_clock` hook, so a
//! minute of protocol time takes well under a second of wall time. One event of the `stats`
//! subscription topic is one housekeeping tick: the arm publishes exactly once per tick, after it has
//! classified, ticked the CC controller and stamped the links. Reloads are real: the address file is
//! rewritten and the process sends itself SIGHUP.
//!
//! Nothing here is compared with the Lean model (the loop's inputs are not reproducible bit for bit):
//! the ops built on it are monitor-only with a constant reply. Trouble with the environment (no
//! loopback alias, bind failure, the sender not coming up) SKIPS the scenario; it never alarms.

use std::net::{IpAddr, Ipv4Addr, SocketAddr};
use std::sync::Arc;
use std::sync::atomic::{AtomicUsize, Ordering};
use std::time::Duration;

use srtla_core::priority::CriticalWindow;
use srtla_core::utils::verif_clock;
use srtla_protocol::*;
use srtla_send::config::DynamicConfig;
use srtla_send::net::{SourceIpBinder, UplinkBinder};
use srtla_send::sender::run_sender_with_config;
use srtla_send::stats::SharedStats;
use srtla_send::subscriptions::SubscriptionHub;
use tokio::net::UdpSocket;
use tokio::sync::mpsc;

const CLOCK_BASE_MS: u64 = 10_000_000;

/// When a reload is sent.
#[derive(Clone, Debug, PartialEq)]
pub enum Trigger {
    /// after tick number `n` (1-based) has been observed
    AtTick(usize),
    /// the first time link `.2`'s run of consecutive low-share / no-traffic weak verdicts reaches `n`
    WeakRun(usize),
}

#[derive(Clone, Debug)]
pub struct Scenario {
    /// last octets of the start-up address list (127.0.0.x)
    pub ips: Vec<u8>,
    /// reloads in order: trigger and new list; each is armed once the previous one has been sent
    pub reloads: Vec<(Trigger, Vec<u8>)>,
    /// link 127.0.0.2 is answered (REG3, echoes, ACKs) only from this tick on (0 = from the start)
    pub admit2: usize,
    /// SRT source: 1316-byte data packets per second
    pub pps: u32,
    /// receiver delays its keepalive echo by this many virtual ms (0 = echo with a blanked timestamp: no RTT sample)
    pub rtt_ms: u64,
    /// receiver NAKs every `nak_every`-th data packet of link 127.0.0.1 during ticks [nak_from, nak_to) (0 = never)
    pub nak_every: u32,
    pub nak_from: usize,
    pub nak_to: usize,
    /// receiver ignores link 127.0.0.`.0` completely during ticks [.1, .2): time-out, reconnect, counters restart
    pub bh: Vec<(u8, usize, usize)>,
    /// receiver answers every `sack`-th data packet with an SRT ACK on the arrival link as well (0 = never):
    /// return traffic that must reach the SRT client unchanged
    pub sack: u32,
    /// the receiver restarts at this tick (0 = never): group and every registration forgotten
    pub forget: usize,
    /// run-time setting changes, applied right after the given tick was observed: (tick, what, value) with
    /// what = 0 mode (0 enhanced / 1 classic), 1 quality scoring (0/1), 2 stalled-link guard (0/1), 3 connection timeout (ms)
    pub cfg: Vec<(usize, u8, u64)>,
    /// the SRT source sends nothing during ticks [.0, .1) ((0, 0) = never pauses)
    pub quiet: (usize, usize),
    /// overload: from tick .0 on, for .1 seconds, the source offers 320 small datagrams per millisecond while the
    /// event loop gets one scheduling turn per millisecond (time is advanced by hand): the local socket stays
    /// backlogged ((0, 0) = never)
    pub flood: (usize, usize),
    /// ticks to observe
    pub ticks: usize,
}

impl Scenario {
    pub fn render(&self) -> String {
        let l = |v: &[u8]| v.iter().map(|x| x.to_string()).collect::<Vec<_>>().join(".");
        let rl: Vec<String> = self
            .reloads
            .iter()
            .map(|(t, v)| match t {
                Trigger::AtTick(n) => format!("at{n}:{}", l(v)),
                Trigger::WeakRun(n) => format!("run{n}:{}", l(v)),
            })
            .collect();
        format!(
            "ips={} reloads={} admit2={} pps={} rtt={} nak={}:{}:{} bh={} sack={} forget={} cfg={} quiet={}:{} flood={}:{} ticks={}",
            l(&self.ips),
            if rl.is_empty() { "-".into() } else { rl.join(",") },
            self.admit2,
            self.pps,
            self.rtt_ms,
            self.nak_every,
            self.nak_from,
            self.nak_to,
            if self.bh.is_empty() { "-".to_string() } else { self.bh.iter().map(|(a, b, c)| format!("{a}:{b}:{c}")).collect::<Vec<_>>().join(",") },
            self.sack,
            self.forget,
            if self.cfg.is_empty() { "-".to_string() } else { self.cfg.iter().map(|(a, b, c)| format!("{a}:{b}:{c}")).collect::<Vec<_>>().join(",") },
            self.quiet.0,
            self.quiet.1,
            self.flood.0,
            self.flood.1,
            self.ticks
        )
    }

    /// Strict: exactly the thirteen `key=value` tokens of `render`, in that order; numbers are 1..9 decimal digits.
    /// (`Srtla.Drv.looptraceWellFormed` accepts exactly the same lines.)
    pub fn parse(toks: &[&str]) -> Option<Scenario> {
        fn num(s: &str) -> Option<u64> {
            if s.is_empty() || s.len() > 9 || !s.bytes().all(|b| b.is_ascii_digit()) {
                return None;
            }
            s.parse().ok()
        }
        fn list(s: &str) -> Option<Vec<u8>> {
            let v: Option<Vec<u8>> = s.split('.').map(|x| num(x).filter(|o| (1..=9).contains(o)).map(|o| o as u8)).collect();
            v.filter(|v| !v.is_empty() && v.len() <= 4)
        }
        fn triple(s: &str) -> Option<(u64, u64, u64)> {
            let p: Vec<&str> = s.split(':').collect();
            if p.len() != 3 {
                return None;
            }
            Some((num(p[0])?, num(p[1])?, num(p[2])?))
        }
        if toks.len() != 13 {
            return None;
        }
        let val = |i: usize, key: &str| -> Option<&str> { toks[i].strip_prefix(key).and_then(|r| r.strip_prefix('=')) };
        let ips = list(val(0, "ips")?)?;
        let mut reloads = Vec::new();
        let rl = val(1, "reloads")?;
        if rl != "-" {
            for r in rl.split(',') {
                let (tr, l) = r.split_once(':')?;
                let trig = if let Some(n) = tr.strip_prefix("at") {
                    Trigger::AtTick(num(n)? as usize)
                } else if let Some(n) = tr.strip_prefix("run") {
                    Trigger::WeakRun(num(n)? as usize)
                } else {
                    return None;
                };
                reloads.push((trig, list(l)?));
            }
        }
        let admit2 = num(val(2, "admit2")?)? as usize;
        let pps = num(val(3, "pps")?)? as u32;
        let rtt_ms = num(val(4, "rtt")?)?;
        let (ne, nf, nt) = triple(val(5, "nak")?)?;
        let bhv = val(6, "bh")?;
        let mut bh = Vec::new();
        if bhv != "-" {
            for part in bhv.split(',') {
                let (a, b, c) = triple(part)?;
                if !(1..=9).contains(&a) {
                    return None;
                }
                bh.push((a as u8, b as usize, c as usize));
            }
        }
        let sack = num(val(7, "sack")?)? as u32;
        let forget = num(val(8, "forget")?)? as usize;
        let cfgv = val(9, "cfg")?;
        let mut cfg = Vec::new();
        if cfgv != "-" {
            for part in cfgv.split(',') {
                let (a, b, c) = triple(part)?;
                if b > 3 {
                    return None;
                }
                cfg.push((a as usize, b as u8, c));
            }
        }
        let quiet = {
            let q = val(10, "quiet")?;
            let (a, b) = q.split_once(':')?;
            (num(a)? as usize, num(b)? as usize)
        };
        let flood = {
            let q = val(11, "flood")?;
            let (a, b) = q.split_once(':')?;
            (num(a)? as usize, num(b)? as usize)
        };
        if flood.1 > 10 {
            return None;
        }
        let ticks = num(val(12, "ticks")?)? as usize;
        if ticks == 0 || ticks > 200 || pps == 0 || pps > 2000 || rtt_ms > 2000 || reloads.len() > 4 || bh.len() > 4 || cfg.len() > 6 {
            return None;
        }
        Some(Scenario { ips, reloads, admit2, pps, rtt_ms, nak_every: ne as u32, nak_from: nf as usize, nak_to: nt as usize, bh, sack, forget, cfg, quiet, flood, ticks })
    }
}

/// What one `stats` event says about one link.
#[derive(Clone, Debug)]
pub struct LinkTick {
    pub ip: String,
    pub connected: bool,
    pub timed_out: bool,
    pub weak: bool,
    pub reason: String,
    pub share_pm: u64,
    pub threshold_pm: u64,
    pub bytes_per_sec: u64,
    pub nak_count: i64,
    pub cc_state: String,
    pub cc_target_bps: u64,
    pub cc_loss_permille: u64,
    pub cc_loss_ewma: f64,
    pub cc_loss_degraded: bool,
    pub rtt_ms: u64,
    pub window: i64,
    pub in_flight: i64,
    pub stall_gated: bool,
    pub stall_gate_events: u64,
}

#[derive(Clone, Debug)]
pub struct Tick {
    pub n: usize,
    /// virtual time (ms) at which the scenario saw this tick's `stats` event
    pub at: u64,
    pub links: Vec<LinkTick>,
    /// number of reloads sent before this tick was published
    pub reloads_sent: usize,
    pub mode: String,
    pub quality_enabled: bool,
    /// open file descriptors of this process when the tick was observed
    pub fds: usize,
    /// what the stamping loop of this tick left ON the connections (hook `stamp_log`): (ip, weak, cc_backing_off,
    /// cc_target_bps, loss_degraded) per link; `None` when the log did not hold exactly this tick's rows
    pub stamps: Option<Vec<(String, bool, bool, u64, bool)>>,
}

impl LinkTick {
    pub fn share_weak(&self) -> bool {
        self.weak && (self.reason == "no_traffic" || self.reason == "low_share")
    }
}

/// What arrived at the receiver's socket (logged whether or not the receiver answers it).
#[derive(Clone, Debug, PartialEq)]
pub enum RxKind {
    /// SRT data packet: sequence number, byte-identical to what the source sent?
    Data { seq: u32, intact: bool },
    Keepalive { ts: Option<u64>, len: usize, ext: bool },
    Reg1,
    Reg2,
    Other(u16),
}

#[derive(Clone, Debug)]
pub struct RxEv {
    /// position in the receiver's single log of arrivals and sends
    pub ord: u64,
    pub at: u64,
    /// last octet of the source address (the uplink)
    pub link: u8,
    pub port: u16,
    pub kind: RxKind,
    /// the receiver processed it (the link was admitted / not black-holed / registered)
    pub answered: bool,
}

/// What the receiver sent back on a link.
#[derive(Clone, Debug, PartialEq)]
pub enum TxKind {
    SrtlaAck,
    /// SRT NAK for this sequence number: return traffic, must reach the SRT client unchanged
    Nak(u32),
    /// SRT ACK with this marker: must reach the SRT client unchanged
    SrtAck(u32),
    Echo,
    Reg2,
    Reg3,
    RegNgp,
}

#[derive(Clone, Debug)]
pub struct TxEv {
    pub ord: u64,
    pub at: u64,
    pub link: u8,
    pub port: u16,
    pub kind: TxKind,
}

#[derive(Clone, Debug, Default)]
pub struct Trace {
    pub ticks: Vec<Tick>,
    pub rx: Vec<RxEv>,
    pub tx: Vec<TxEv>,
    /// (virtual ms, sequence number) of every datagram the SRT source sent
    pub src: Vec<(u64, u32)>,
    /// (virtual ms, bytes) of every datagram the SRT client socket received back
    pub client: Vec<(u64, Vec<u8>)>,
    /// (virtual ms, sequence number, uplink that carried the packet, uplink the NAK was sent back on)
    pub naks: Vec<(u64, u32, u8, u8)>,
    /// the loop stopped publishing housekeeping ticks: none for 10 s of virtual time after this many were seen
    pub stalled: bool,
}

#[derive(Default)]
struct Logs {
    ord: u64,
    rx: Vec<RxEv>,
    tx: Vec<TxEv>,
    src: Vec<(u64, u32)>,
    client: Vec<(u64, Vec<u8>)>,
    naks: Vec<(u64, u32, u8, u8)>,
}

struct RecvCtl {
    tick: AtomicUsize,
    admit2: usize,
    nak_every: u32,
    nak_from: usize,
    nak_to: usize,
    bh: Vec<(u8, usize, usize)>,
    rtt_ms: u64,
    sack: u32,
    forget: usize,
    quiet: (usize, usize),
    flood: (usize, usize),
    t0: tokio::time::Instant,
    logs: std::sync::Mutex<Logs>,
}

impl RecvCtl {
    fn now(&self) -> u64 {
        CLOCK_BASE_MS + self.t0.elapsed().as_millis() as u64
    }
}

fn octet(ip: IpAddr) -> u8 {
    match ip {
        IpAddr::V4(v) => v.octets()[3],
        _ => 0,
    }
}

/// The data packet with sequence number `seq` (16-byte SRT data header, patterned payload; 1316 bytes, edge sizes mixed in).
pub const FLOOD_SEQ0: u32 = 0x2000_0000;

pub fn source_packet(seq: u32) -> Vec<u8> {
    // the overload phase uses small datagrams from a sequence range of its own
    // ordinary stream: 1316 bytes (7 TS cells + header); every 16th datagram takes one of the edge sizes up to the MTU
    // (C01 quantifies over client datagrams of 1..MTU bytes: the loop's own receive buffer must hold all of them)
    let len = if seq >= FLOOD_SEQ0 {
        64
    } else if seq % 16 == 5 {
        [1500usize, 1499, 1473, 1472, 17, 188, 1317, 1457][((seq / 16) % 8) as usize]
    } else {
        1316
    };
    let mut pkt = vec![0u8; len];
    pkt[0..4].copy_from_slice(&seq.to_be_bytes());
    for (i, b) in pkt.iter_mut().enumerate().skip(16) {
        *b = (seq as usize * 31 + i * 7) as u8;
    }
    pkt
}

/// The 20-byte SRT NAK the receiver sends for one lost sequence number.
pub fn nak_packet(seq: u32) -> Vec<u8> {
    let mut nak = vec![0x80, 0x03, 0, 0, 0, 0, 0, 0, 0, 0, 0, 0, 0, 0, 0, 0];
    nak.extend_from_slice(&seq.to_be_bytes());
    nak
}

/// The SRT ACK the receiver sends back with marker `m` (cumulative number `ack` at bytes 16..20). Its length
/// cycles through 44 / 200 / 1316 / 1499 / 1500 (= MTU) bytes with the marker: return traffic of every size up to
/// the MTU must be relayed.
pub fn srt_ack_packet(m: u32, ack: u32) -> Vec<u8> {
    let len = [44usize, 200, 1316, 1499, 1500][(m % 5) as usize];
    let mut p = vec![0u8; len];
    p[0] = 0x80;
    p[1] = 0x02;
    p[4..8].copy_from_slice(&m.to_be_bytes());
    p[16..20].copy_from_slice(&ack.to_be_bytes());
    for (i, b) in p.iter_mut().enumerate().skip(20) {
        *b = (m as usize * 13 + i * 5) as u8;
    }
    p
}

async fn fake_receiver(sock: Arc<UdpSocket>, ctl: Arc<RecvCtl>) {
    let mut buf = vec![0u8; 2048];
    let mut group: Option<[u8; SRTLA_ID_LEN]> = None;
    let mut registered: std::collections::HashSet<SocketAddr> = Default::default();
    let mut forgot = false;
    let mut data_seen: u32 = 0;
    let mut nak_count: u32 = 0;
    let mut marker: u32 = 0;
    loop {
        let Ok((n, src)) = sock.recv_from(&mut buf).await else { continue };
        if n < 2 {
            continue;
        }
        let pkt = &buf[..n];
        let o = octet(src.ip());
        let tick = ctl.tick.load(Ordering::Relaxed);
        let now = ctl.now();
        if ctl.forget != 0 && tick >= ctl.forget && !forgot {
            forgot = true;
            group = None;
            registered.clear();
        }
        let mut admitted = o != 2 || tick >= ctl.admit2;
        for (l, from, to) in &ctl.bh {
            if o == *l && tick >= *from && tick < *to {
                admitted = false;
            }
        }
        let ty = u16::from_be_bytes([pkt[0], pkt[1]]);
        let is_data = (pkt[0] & 0x80) == 0;
        let kind = if is_data {
            let seq = if n >= 4 { u32::from_be_bytes([pkt[0], pkt[1], pkt[2], pkt[3]]) } else { 0 };
            RxKind::Data { seq, intact: pkt == source_packet(seq).as_slice() }
        } else if ty == SRTLA_TYPE_KEEPALIVE {
            RxKind::Keepalive { ts: extract_keepalive_timestamp(pkt), len: n, ext: extract_keepalive_conn_info(pkt).is_some() }
        } else if ty == SRTLA_TYPE_REG1 {
            RxKind::Reg1
        } else if ty == SRTLA_TYPE_REG2 {
            RxKind::Reg2
        } else {
            RxKind::Other(ty)
        };
        let is_reg = matches!(kind, RxKind::Reg1 | RxKind::Reg2);
        let answered = admitted && (is_reg || registered.contains(&src));
        {
            let mut l = ctl.logs.lock().unwrap();
            l.ord += 1;
            let ord = l.ord;
            l.rx.push(RxEv { ord, at: now, link: o, port: src.port(), kind: kind.clone(), answered });
        }
        if !answered {
            continue;
        }
        let logtx = |k: TxKind| {
            let mut l = ctl.logs.lock().unwrap();
            l.ord += 1;
            let ord = l.ord;
            l.tx.push(TxEv { ord, at: now, link: o, port: src.port(), kind: k });
        };
        match kind {
            RxKind::Data { seq, .. } => {
                data_seen = data_seen.wrapping_add(1);
                if o == 1 && ctl.nak_every != 0 && tick >= ctl.nak_from && tick < ctl.nak_to && data_seen % ctl.nak_every == 0 {
                    // every second NAK travels back over ANOTHER registered uplink (as a real receiver's may):
                    // the charge still belongs to the uplink that carried the packet
                    nak_count += 1;
                    let other = registered.iter().filter(|a| octet(a.ip()) != o).min_by_key(|a| (octet(a.ip()), a.port())).copied();
                    let via = if nak_count % 2 == 0 { other.unwrap_or(src) } else { src };
                    {
                        let mut l = ctl.logs.lock().unwrap();
                        l.ord += 1;
                        let ord = l.ord;
                        l.tx.push(TxEv { ord, at: now, link: octet(via.ip()), port: via.port(), kind: TxKind::Nak(seq) });
                        l.naks.push((now, seq, o, octet(via.ip())));
                    }
                    let _ = sock.send_to(&nak_packet(seq), via).await;
                } else {
                    logtx(TxKind::SrtlaAck);
                    let _ = sock.send_to(&create_ack_packet(&[seq]), src).await;
                }
                if ctl.sack != 0 && data_seen % ctl.sack == 0 {
                    marker += 1;
                    logtx(TxKind::SrtAck(marker));
                    let _ = sock.send_to(&srt_ack_packet(marker, seq.wrapping_add(1) & 0x7fff_ffff), src).await;
                }
            }
            RxKind::Reg1 if n == SRTLA_TYPE_REG1_LEN => {
                let mut id = [0u8; SRTLA_ID_LEN];
                id.copy_from_slice(&pkt[2..]);
                group = Some(id);
                logtx(TxKind::Reg2);
                let _ = sock.send_to(&create_reg2_packet(&id), src).await;
            }
            RxKind::Reg2 if n == SRTLA_TYPE_REG2_LEN => match &group {
                Some(id) if id[..] == pkt[2..] => {
                    // a re-created uplink socket comes from a new port: the old registration of that uplink is gone
                    registered.retain(|a| a.ip() != src.ip());
                    registered.insert(src);
                    logtx(TxKind::Reg3);
                    let _ = sock.send_to(&SRTLA_TYPE_REG3.to_be_bytes(), src).await;
                }
                _ => {
                    logtx(TxKind::RegNgp);
                    let _ = sock.send_to(&SRTLA_TYPE_REG_NGP.to_be_bytes(), src).await;
                }
            },
            RxKind::Keepalive { .. } => {
                let mut echo = pkt.to_vec();
                logtx(TxKind::Echo);
                if ctl.rtt_ms == 0 {
                    if echo.len() >= 10 {
                        echo[2..10].fill(0);
                    }
                    let _ = sock.send_to(&echo, src).await;
                } else {
                    let (s2, d) = (sock.clone(), ctl.rtt_ms);
                    tokio::spawn(async move {
                        tokio::time::sleep(Duration::from_millis(d)).await;
                        let _ = s2.send_to(&echo, src).await;
                    });
                }
            }
            _ => {}
        }
    }
}

/// SRT encoder / client stand-in: sends the data stream and logs whatever comes back on the same socket.
async fn srt_source(port: u16, pps: u32, ctl: Arc<RecvCtl>) {
    tokio::time::sleep(Duration::from_secs(3)).await;
    let Ok(sock) = UdpSocket::bind("127.0.0.1:0").await else { return };
    let sock = Arc::new(sock);
    let dst = SocketAddr::from((Ipv4Addr::LOCALHOST, port));
    {
        let (sock, ctl) = (sock.clone(), ctl.clone());
        tokio::spawn(async move {
            let mut buf = vec![0u8; 2048];
            loop {
                if let Ok((n, _)) = sock.recv_from(&mut buf).await {
                    let now = ctl.now();
                    ctl.logs.lock().unwrap().client.push((now, buf[..n].to_vec()));
                }
            }
        });
    }
    let mut seq: u32 = 1000;
    let mut flooded = false;
    let mut pace = tokio::time::interval(Duration::from_micros(1_000_000 / u64::from(pps.max(1))));
    loop {
        pace.tick().await;
        let tick = ctl.tick.load(Ordering::Relaxed);
        if ctl.flood.1 != 0 && !flooded && tick >= ctl.flood.0 {
            // overload: 320 small datagrams per millisecond, one scheduling turn for everybody else per millisecond
            flooded = true;
            let mut fseq: u32 = FLOOD_SEQ0;
            for _ in 0..ctl.flood.1 * 1000 {
                for _ in 0..320 {
                    let pkt = source_packet(fseq);
                    let now = ctl.now();
                    ctl.logs.lock().unwrap().src.push((now, fseq));
                    fseq = (fseq + 1) & 0x7fff_ffff;
                    let _ = sock.try_send_to(&pkt, dst);
                }
                tokio::time::advance(Duration::from_millis(1)).await;
            }
            continue;
        }
        if tick >= ctl.quiet.0 && tick < ctl.quiet.1 {
            continue;
        }
        let pkt = source_packet(seq);
        let now = ctl.now();
        ctl.logs.lock().unwrap().src.push((now, seq));
        seq = (seq + 1) & 0x7fff_ffff;
        let _ = sock.send_to(&pkt, dst).await;
    }
}

fn file_text(l: &[u8]) -> String {
    l.iter().map(|o| format!("127.0.0.{o}\n")).collect()
}

/// Run one scenario; `Err(reason)` = skipped for an environmental reason.
pub fn run(sc: &Scenario) -> Result<Trace, &'static str> {
    // every address the scenario ever lists must be bindable here
    let mut all: Vec<u8> = sc.ips.clone();
    for (_, l) in &sc.reloads {
        all.extend(l.iter().copied());
    }
    for o in &all {
        if std::net::UdpSocket::bind((Ipv4Addr::new(127, 0, 0, *o), 0)).is_err() {
            return Err("looptrace-skipped:unbindable");
        }
    }
    let rt = tokio::runtime::Builder::new_current_thread().enable_all().start_paused(true).build().map_err(|_| "looptrace-skipped:runtime")?;
    let path = std::env::temp_dir().join(format!("verif-looptrace-{}-{:x}.txt", std::process::id(), &sc as *const _ as usize));
    std::fs::write(&path, file_text(&sc.ips)).map_err(|_| "looptrace-skipped:io")?;
    let path2 = path.clone();
    let sc = sc.clone();
    let out = rt.block_on(async move {
        let t0 = tokio::time::Instant::now();
        verif_clock::set(Some(CLOCK_BASE_MS));
        tokio::spawn(async move {
            let mut iv = tokio::time::interval(Duration::from_millis(1));
            loop {
                iv.tick().await;
                verif_clock::set(Some(CLOCK_BASE_MS + t0.elapsed().as_millis() as u64));
            }
        });
        let rx_sock = UdpSocket::bind("127.0.0.1:0").await.map_err(|_| "looptrace-skipped:io")?;
        let rx_port = rx_sock.local_addr().map_err(|_| "looptrace-skipped:io")?.port();
        let ctl = Arc::new(RecvCtl {
            tick: AtomicUsize::new(0),
            admit2: sc.admit2,
            nak_every: sc.nak_every,
            nak_from: sc.nak_from,
            nak_to: sc.nak_to,
            bh: sc.bh.clone(),
            rtt_ms: sc.rtt_ms,
            sack: sc.sack,
            forget: sc.forget,
            quiet: sc.quiet,
            flood: sc.flood,
            t0,
            logs: Default::default(),
        });
        tokio::spawn(fake_receiver(Arc::new(rx_sock), ctl.clone()));
        let srt_port = std::net::UdpSocket::bind("[::]:0").ok().and_then(|s| s.local_addr().ok()).map(|a| a.port()).ok_or("looptrace-skipped:io")?;
        tokio::spawn(srt_source(srt_port, sc.pps, ctl.clone()));
        let hub = SubscriptionHub::new();
        let (push_tx, mut push_rx) = mpsc::channel::<String>(4096);
        hub.subscribe("stats", push_tx).await;
        // a second subscriber of the same topic that never reads (a suspended dashboard): its one-slot queue is full
        // after the first tick, and nothing about the loop may depend on it
        let (stuck_tx, _stuck_rx) = mpsc::channel::<String>(1);
        hub.subscribe("stats", stuck_tx).await;
        // the same for the OTHER topic of the hub: a suspended `priority.window` client, and the priority sidecar's
        // publishes next to the loop (one keyframe hint every 700 ms of virtual time, from a task of its own - what
        // `priority_listener` does per accepted datagram).  A publish that waits for this client holds the hub's
        // mutex, and the loop's own `stats` publish then never returns
        let (stuck2_tx, _stuck2_rx) = mpsc::channel::<String>(1);
        hub.subscribe("priority.window", stuck2_tx).await;
        {
            let hub = hub.clone();
            tokio::spawn(async move {
                let mut k = 0u64;
                loop {
                    tokio::time::sleep(Duration::from_millis(700)).await;
                    hub.publish("priority.window", serde_json::json!({"at_ms": k, "window_ms": 100, "deadline_ms": k + 100})).await;
                    k += 1;
                }
            });
        }
        let binder: Arc<dyn UplinkBinder> = Arc::new(SourceIpBinder);
        let file = path2.to_string_lossy().into_owned();
        let config = DynamicConfig::new();
        let sender = run_sender_with_config(srt_port, "127.0.0.1", rx_port, &file, config.clone(), SharedStats::new(), CriticalWindow::new(), hub.clone(), binder);
        tokio::pin!(sender);
        let stalled = std::cell::Cell::new(false);
        let scenario = async {
            let mut trace: Vec<Tick> = Vec::new();
            let mut next_reload = 0usize;
            let mut run2 = 0usize;
            // rows left by an earlier scenario of this process
            let _ = srtla_send::sender::verif_hooks::stamp_log::take();
            loop {
                // one tick per second: ten seconds of virtual time without one (sixty before the first) = the loop is stuck
                let wait = if trace.is_empty() { 60 } else { 10 };
                let line = match tokio::time::timeout(Duration::from_secs(wait), push_rx.recv()).await {
                    Ok(Some(line)) => line,
                    Ok(None) => break,
                    Err(_) => {
                        if trace.is_empty() {
                            return Err("looptrace-skipped:not-up");
                        }
                        stalled.set(true);
                        break;
                    }
                };
                let n = trace.len() + 1;
                ctl.tick.store(n, Ordering::Relaxed);
                let Ok(v) = serde_json::from_str::<serde_json::Value>(&line) else { return Err("looptrace-skipped:undecodable") };
                let data = &v["params"]["data"];
                let Some(links) = data["links"].as_array() else { return Err("looptrace-skipped:undecodable") };
                let mut lt = Vec::new();
                for l in links {
                    lt.push(LinkTick {
                        ip: l["ip"].as_str().unwrap_or("").to_string(),
                        connected: l["connected"].as_bool().unwrap_or(false),
                        timed_out: l["timed_out"].as_bool().unwrap_or(false),
                        weak: l["weak"].as_bool().unwrap_or(false),
                        reason: l["weak_reason"].as_str().unwrap_or("").to_string(),
                        share_pm: l["weak_share_permille"].as_u64().unwrap_or(0),
                        threshold_pm: l["weak_threshold_permille"].as_u64().unwrap_or(0),
                        bytes_per_sec: l["bitrate_bytes_per_sec"].as_u64().unwrap_or(0),
                        nak_count: l["nak_count"].as_i64().unwrap_or(0),
                        cc_state: l["cc_state"].as_str().unwrap_or("").to_string(),
                        cc_target_bps: l["cc_target_bps"].as_u64().unwrap_or(0),
                        cc_loss_permille: l["cc_loss_permille"].as_u64().unwrap_or(0),
                        cc_loss_ewma: l["cc_loss_ewma"].as_f64().unwrap_or(0.0),
                        cc_loss_degraded: l["cc_loss_degraded"].as_bool().unwrap_or(false),
                        rtt_ms: l["rtt_ms"].as_u64().unwrap_or(0),
                        window: l["window"].as_i64().unwrap_or(0),
                        in_flight: l["in_flight"].as_i64().unwrap_or(0),
                        stall_gated: l["stall_gated"].as_bool().unwrap_or(false),
                        stall_gate_events: l["stall_gate_events"].as_u64().unwrap_or(0),
                    });
                }
                run2 = match lt.iter().find(|l| l.ip == "127.0.0.2") {
                    Some(l) if l.share_weak() => run2 + 1,
                    _ => 0,
                };
                // the arm records the stamped fields right before it builds and publishes this snapshot, and the loop
                // cannot reach its next tick before this task has seen the event (virtual time only moves when every
                // task is idle): the log holds exactly this tick's rows - anything else is not judged
                let mut rows = srtla_send::sender::verif_hooks::stamp_log::take();
                let stamps = if rows.len() == 1 {
                    rows.pop().map(|r| r.into_iter().map(|(ip, _id, w, ccb, cct, ld)| (ip.to_string(), w, ccb, cct, ld)).collect())
                } else {
                    None
                };
                trace.push(Tick { n, at: ctl.now(), links: lt, reloads_sent: next_reload, mode: data["mode"].as_str().unwrap_or("").to_string(), quality_enabled: data["quality_enabled"].as_bool().unwrap_or(false), fds: std::fs::read_dir("/proc/self/fd").map(|d| d.count()).unwrap_or(0), stamps });
                for (t, k, v) in &sc.cfg {
                    if *t == n {
                        match k {
                            0 => config.set_mode(if *v == 1 { srtla_core::mode::SchedulingMode::Classic } else { srtla_core::mode::SchedulingMode::Enhanced }),
                            1 => config.set_quality_enabled(*v == 1),
                            2 => config.set_stall_deselect(*v == 1),
                            _ => {
                                config.set_conn_timeout_ms(*v);
                            }
                        }
                    }
                }
                if let Some((trig, list)) = sc.reloads.get(next_reload) {
                    let fire = match trig {
                        Trigger::AtTick(t) => n >= *t,
                        Trigger::WeakRun(k) => run2 == *k,
                    };
                    if fire {
                        if std::fs::write(&path2, file_text(list)).is_err() {
                            return Err("looptrace-skipped:io");
                        }
                        unsafe {
                            libc::kill(libc::getpid(), libc::SIGHUP);
                        }
                        // real time: let the signal reach the runtime's signal driver before virtual time moves on
                        std::thread::sleep(Duration::from_millis(30));
                        next_reload += 1;
                    }
                }
                if n >= sc.ticks {
                    break;
                }
            }
            Ok(trace)
        };
        let r = tokio::select! {
            _ = &mut sender => Err("looptrace-skipped:sender-exited"),
            out = tokio::time::timeout(Duration::from_secs(sc.ticks as u64 * 2 + 60), scenario) => match out {
                Ok(r) => r,
                Err(_) => Err("looptrace-skipped:timeout"),
            },
        };
        r.map(|ticks| {
            let mut l = ctl.logs.lock().unwrap();
            Trace { ticks, rx: std::mem::take(&mut l.rx), tx: std::mem::take(&mut l.tx), src: std::mem::take(&mut l.src), client: std::mem::take(&mut l.client), naks: std::mem::take(&mut l.naks), stalled: stalled.get() }
        })
    });
    verif_clock::set(None);
    drop(rt);
    let _ = std::fs::remove_file(&path);
    out
}

/// One line per tick, for failure descriptions.
pub fn dump(trace: &[Tick], ip: &str) -> String {
    trace
        .iter()
        .filter_map(|t| {
            t.links.iter().find(|l| l.ip == ip).map(|l| {
                format!("t{}:{}{}{}({}) {}B/s cc={}@{}", t.n, if l.connected { "C" } else { "-" }, if l.weak { "W" } else { "-" }, t.links.len(), l.reason, l.bytes_per_sec, l.cc_state, l.cc_target_bps)
            })
        })
        .collect::<Vec<_>>()
        .join(" | ")
}

/// C17 on the real loop's per-tick verdicts (model-independent renderings of the property's clauses).
/// The stamping loop of the REAL housekeeping arm: the four verdict fields it leaves on each connection - what selection
/// reads - are this tick's classifier verdict and CC snapshot for THAT link.  The published statistics take the verdicts
/// from the classifier / controller results directly, so without the hook nothing shows the stamped fields of the
/// running loop (audit 5, A1).  `which` = "C17" judges `weak`, "C16" the three controller fields.
pub fn monitors_stamps(trace: &[Tick], sc: &Scenario, which: &str, mon: &mut crate::Mon) {
    let what = sc.render();
    for t in trace {
        let Some(stamps) = &t.stamps else {
            mon.count("loop-stamps-not-aligned");
            continue;
        };
        mon.count("loop-stamps-tick");
        for l in &t.links {
            let Some((_, w, ccb, cct, ld)) = stamps.iter().find(|r| r.0 == l.ip) else {
                mon.fail(which, "loop-stamp-missing", format!("real event loop [{what}]: tick {} publishes uplink {} but the stamping loop saw no connection with that address", t.n, l.ip));
                continue;
            };
            if which == "C17" {
                if *w {
                    mon.count("loop-stamp-weak");
                }
                if *w != l.weak {
                    mon.fail("C17", "loop-stamp-differs-from-verdict", format!("real event loop [{what}]: tick {}: the classifier's verdict for {} is weak={} ({}), the connection was stamped weak={} :: {}", t.n, l.ip, l.weak, l.reason, w, dump(trace, &l.ip)));
                }
            } else {
                if *cct != 0 {
                    mon.count("loop-stamp-target-nonzero");
                }
                let want_ccb = l.cc_state == "backing_off";
                if *cct != l.cc_target_bps || *ld != l.cc_loss_degraded || *ccb != want_ccb {
                    mon.fail("C16", "loop-stamp-differs-from-verdict", format!("real event loop [{what}]: tick {}: the controller's snapshot for {} is state {} target {} loss_degraded {}, the connection was stamped cc_backing_off={} cc_target_bps={} loss_degraded={} :: {}", t.n, l.ip, l.cc_state, l.cc_target_bps, l.cc_loss_degraded, ccb, cct, ld, dump(trace, &l.ip)));
                }
            }
        }
    }
}

pub fn monitors_c17(trace: &[Tick], sc: &Scenario, mon: &mut crate::Mon) {
    monitors_stamps(trace, sc, "C17", mon);
    use std::collections::BTreeMap;
    let what = sc.render();
    // never weak while disconnected; never weak while total throughput is under 100 kbit/s
    for t in trace {
        let upper: u64 = t.links.iter().map(|l| l.bytes_per_sec * 8 + 8).sum();
        for l in &t.links {
            if l.weak && !l.connected {
                mon.fail("C17", "loop-weak-while-disconnected", format!("real event loop [{what}]: tick {} reports {} weak ({}) while it is not connected", t.n, l.ip, l.reason));
            }
            if l.weak && upper < 100_000 {
                mon.fail("C17", "loop-weak-under-floor", format!("real event loop [{what}]: tick {} reports {} weak ({}) although all links together carry < {upper} bit/s", t.n, l.ip, l.reason));
            }
        }
        if upper < 100_000 {
            mon.count("loop-tick-under-floor");
        }
    }
    // at most 15 consecutive low-share / no-traffic verdicts, then three not-weak ticks - per link, for as
    // long as the link is listed (a link that leaves the list and comes back is a new link)
    let mut run: BTreeMap<String, usize> = BTreeMap::new();
    let mut probation: BTreeMap<String, usize> = BTreeMap::new();
    for t in trace {
        let present: Vec<&str> = t.links.iter().map(|l| l.ip.as_str()).collect();
        run.retain(|k, _| present.contains(&k.as_str()));
        probation.retain(|k, _| present.contains(&k.as_str()));
        for l in &t.links {
            if let Some(left) = probation.get_mut(&l.ip) {
                if *left > 0 {
                    if l.weak {
                        mon.fail("C17", "loop-probation-cut-short", format!("real event loop [{what}]: {} had 15 consecutive low-share / no-traffic verdicts, yet tick {} - inside the three-tick probation - reports it weak ({}) :: {}", l.ip, t.n, l.reason, dump(trace, &l.ip)));
                    }
                    *left -= 1;
                    mon.count("loop-probation-tick");
                }
            }
            let r = run.entry(l.ip.clone()).or_insert(0);
            if l.share_weak() {
                *r += 1;
                if *r == 15 {
                    probation.insert(l.ip.clone(), 3);
                    mon.count("loop-share-weak-run-15");
                }
                if *r > 15 {
                    mon.fail("C17", "loop-no-probation", format!("real event loop [{what}]: {} reported weak for low share / no traffic on {} consecutive ticks (up to tick {}, {} reload(s) sent before it) with no probation :: {}", l.ip, *r, t.n, t.reloads_sent, dump(trace, &l.ip)));
                    *r = 0;
                }
            } else {
                *r = 0;
            }
        }
    }
    // low-share entry needs share < 1/4 of fair share, leaving needs 3/4: the reported threshold is one of the two
    for t in trace {
        let n = t.links.iter().filter(|l| l.connected).count() as u64;
        for l in &t.links {
            if l.reason == "low_share" && n > 0 && l.threshold_pm != 250 / n && l.threshold_pm != 750 / n {
                mon.fail("C17", "loop-threshold", format!("real event loop [{what}]: tick {} judged {} against {} permille with {n} connected links (enter {} / leave {})", t.n, l.ip, l.threshold_pm, 250 / n, 750 / n));
            }
        }
    }
}

/// C16 on the real loop's per-tick CC snapshots.
pub fn monitors_c16(trace: &[Tick], sc: &Scenario, mon: &mut crate::Mon) {
    monitors_stamps(trace, sc, "C16", mon);
    use std::collections::BTreeMap;
    let what = sc.render();
    let mut prev: BTreeMap<String, LinkTick> = BTreeMap::new();
    // loss-degraded: (tick, ewma) history per link while listed
    let mut hist: BTreeMap<String, Vec<(usize, f64)>> = BTreeMap::new();
    for t in trace {
        let present: Vec<&str> = t.links.iter().map(|l| l.ip.as_str()).collect();
        prev.retain(|k, _| present.contains(&k.as_str()));
        hist.retain(|k, _| present.contains(&k.as_str()));
        for l in &t.links {
            if l.cc_state.is_empty() {
                continue;
            }
            mon.count(&format!("loop-cc-{}", l.cc_state));
            // every listed uplink has a CC entry from the first pass it is part of: a snapshot without one (state
            // "unknown", target 0) on an uplink that already had one means the loop lost the entry
            if (l.cc_state == "unknown" || l.cc_target_bps == 0) && prev.get(&l.ip).is_some_and(|p| p.cc_target_bps != 0) {
                mon.fail("C16", "loop-cc-entry-lost", format!("real event loop [{what}]: tick {} reports uplink {} with CC state {:?} and target {} although the uplink stayed listed and had target {} one tick earlier :: {}", t.n, l.ip, l.cc_state, l.cc_target_bps, prev[&l.ip].cc_target_bps, dump(trace, &l.ip)));
            }
            if l.cc_target_bps == 0 {
                mon.count("loop-cc-target-zero");
            }
            if l.cc_target_bps != 0 && (l.cc_target_bps < 100_000 || l.cc_target_bps > 200_000_000) {
                mon.fail("C16", "loop-bounds", format!("real event loop [{what}]: tick {} {} target {} outside [100000, 200000000]", t.n, l.ip, l.cc_target_bps));
            }
            if l.cc_state == "bootstrap" && l.cc_target_bps != 100_000 && l.cc_target_bps != 0 {
                mon.fail("C16", "loop-floor-until-rtt", format!("real event loop [{what}]: tick {} {} in bootstrap with target {}", t.n, l.ip, l.cc_target_bps));
            }
            if let Some(p) = prev.get(&l.ip) {
                if p.cc_target_bps != 0 && l.cc_target_bps != 0 && !p.cc_state.is_empty() {
                    if l.cc_target_bps < p.cc_target_bps {
                        mon.count("loop-cc-lowered");
                        let ok = match l.cc_state.as_str() {
                            "backing_off" => l.cc_target_bps as u128 * 100 + 100 >= p.cc_target_bps as u128 * 85,
                            "drain" => p.cc_state != "drain",
                            // a controller entry restarts from the floor only with its uplink (re-created: the
                            // snapshots show it not connected at one of the two ticks)
                            "bootstrap" => !(p.connected && l.connected),
                            _ => false,
                        };
                        if !ok {
                            mon.fail("C16", "loop-lowered-illegally", format!("real event loop [{what}]: tick {} {} target {} -> {} in state {} (was {}): not a <= 15% loss back-off, not a drain entry :: {}", t.n, l.ip, p.cc_target_bps, l.cc_target_bps, l.cc_state, p.cc_state, dump(trace, &l.ip)));
                        }
                    }
                    if l.cc_target_bps > p.cc_target_bps && p.cc_state != "bootstrap" {
                        if l.cc_target_bps as u128 * 100 > p.cc_target_bps as u128 * 106 + 100 {
                            mon.fail("C16", "loop-growth>6%", format!("real event loop [{what}]: tick {} {} target {} -> {} after its seeding", t.n, l.ip, p.cc_target_bps, l.cc_target_bps));
                        }
                    }
                }
                // the loss-degraded verdict: set only after the average stayed above 0.55 over >= 4 ticks'
                // worth of history (4 s at one tick per second), cleared only below 0.25
                let h = hist.entry(l.ip.clone()).or_default();
                if l.cc_state != "bootstrap" {
                    h.push((t.n, l.cc_loss_ewma));
                }
                if !p.cc_loss_degraded && l.cc_loss_degraded {
                    mon.count("loop-latch-set");
                    let mut span = 0usize;
                    for (tn, e) in h.iter().rev() {
                        if !(*e > 0.55) {
                            break;
                        }
                        span = t.n - tn;
                    }
                    // ticks are 1000 ms apart (+- scheduling), so 4 s of history is at least 3 tick gaps
                    if !(l.cc_loss_ewma > 0.55) || span < 3 {
                        mon.fail("C16", "loop-latch-set-early", format!("real event loop [{what}]: tick {} {} latched loss-degraded with average {} after only {span} tick(s) above 0.55 :: {}", t.n, l.ip, l.cc_loss_ewma, dump(trace, &l.ip)));
                    }
                }
                if p.cc_loss_degraded && !l.cc_loss_degraded && l.cc_state != "bootstrap" && !(l.cc_loss_ewma < 0.25) {
                    mon.fail("C16", "loop-latch-clear-early", format!("real event loop [{what}]: tick {} {} cleared loss-degraded with average {}", t.n, l.ip, l.cc_loss_ewma));
                }
            }
            // honesty of the loss the controller acts on: a link whose NAK counter did not move for two
            // ticks (and was not restarted) cannot show loss in the 1 s window
            if let Some(p) = prev.get(&l.ip) {
                if l.nak_count == p.nak_count && l.cc_loss_permille > 0 && l.connected && p.connected {
                    // the window is 1000 ms: a NAK counted in the previous tick's delta may still be inside; require two quiet ticks
                    mon.count("loop-loss-with-quiet-tick");
                }
            }
            prev.insert(l.ip.clone(), l.clone());
        }
    }
}

/// Random scenario for the generators.
pub fn generate(rng: &mut crate::Rng, for_cc: bool) -> Scenario {
    let three = rng.chance(1, 3);
    let ips: Vec<u8> = if three { vec![1, 2, 3] } else { vec![1, 2] };
    let admit2 = if rng.chance(3, 4) { rng.range(7, 12) as usize } else { 0 };
    let mut reloads = Vec::new();
    let other: Vec<u8> = match (three, rng.below(4)) {
        (false, 0) => vec![1, 2, 3],
        (false, 1) => vec![1, 2, 3, 4],
        (false, 2) => vec![2, 1],
        (false, _) => vec![1, 2],
        (true, 0) => vec![1, 2],
        (true, 1) => vec![1, 2, 4],
        (true, 2) => vec![1, 2, 3, 4],
        (true, _) => vec![3, 2, 1],
    };
    if rng.chance(4, 5) {
        let trig = if rng.chance(2, 3) { Trigger::WeakRun(rng.range(1, 14) as usize) } else { Trigger::AtTick(rng.range(8, 30) as usize) };
        reloads.push((trig, other.clone()));
        if rng.chance(1, 3) {
            reloads.push((Trigger::AtTick(rng.range(20, 40) as usize), ips.clone()));
        }
    }
    let (nak_every, nak_from, nak_to) = if for_cc || rng.chance(1, 4) {
        let from = rng.range(8, 20) as usize;
        (*rng.pick(&[1u32, 1, 2, 3, 5, 20, 100]), from, from + rng.range(3, 15) as usize)
    } else {
        (0, 0, 0)
    };
    let bh = if rng.chance(1, if for_cc { 2 } else { 4 }) {
        let from = rng.range(12, 22) as usize;
        vec![(*rng.pick(&[1u8, 2]), from, from + rng.range(7, 12) as usize)]
    } else {
        Vec::new()
    };
    Scenario {
        ips,
        reloads,
        admit2,
        pps: *rng.pick(&[50u32, 50, 100, 200, 20]),
        rtt_ms: if for_cc { *rng.pick(&[20u64, 40, 80]) } else { *rng.pick(&[0u64, 0, 20, 60]) },
        nak_every,
        nak_from,
        nak_to,
        bh,
        sack: 0,
        forget: 0,
        // one scenario in three: a run-time mode round trip (enhanced -> classic -> enhanced) somewhere in the run
        cfg: if rng.chance(1, 3) {
            let a = rng.range(12, 35) as usize;
            vec![(a, 0, 1), (a + rng.range(1, 6) as usize, 0, 0)]
        } else {
            Vec::new()
        },
        quiet: (0, 0),
        flood: (0, 0),
        ticks: rng.range(40, 60) as usize,
    }
}

// ------------------------------------------------------------------------------------------------
// End-to-end monitors over the whole trace (component `e2e`): what the RECEIVER and the SRT CLIENT saw,
// against what the source sent and what the loop's own per-tick snapshots say about each link.

fn link_of(ip: &str) -> u8 {
    ip.rsplit('.').next().and_then(|x| x.parse().ok()).unwrap_or(0)
}

/// Was link `o` listed, connected and not timed out in the snapshot of tick index `k` (0-based)?
fn live_at(trace: &Trace, k: usize, o: u8) -> bool {
    trace.ticks.get(k).is_some_and(|t| t.links.iter().any(|l| link_of(&l.ip) == o && l.connected && !l.timed_out))
}

/// Index of the last tick published at or before `at` / of the first tick published after `at`.
fn bracket(trace: &Trace, at: u64) -> (Option<usize>, Option<usize>) {
    let after = trace.ticks.iter().position(|t| t.at > at);
    let before = match after {
        Some(0) => None,
        Some(i) => Some(i - 1),
        None => trace.ticks.len().checked_sub(1),
    };
    (before, after)
}

pub fn monitors_e2e(trace: &Trace, sc: &Scenario, mon: &mut crate::Mon) {
    use std::collections::{BTreeMap, BTreeSet};
    let what = sc.render();
    let links: BTreeSet<u8> = trace.rx.iter().map(|e| e.link).collect();

    // ---- the loop itself keeps running: a housekeeping pass every second whatever the subscribers of its statistics do
    if trace.stalled {
        let last = trace.ticks.last().map(|t| t.n).unwrap_or(0);
        let what2 = format!("real event loop [{what}]: after tick {last} the loop published no housekeeping tick for 10 s of virtual time (a second `stats` subscriber with a one-slot queue never reads): the loop is stuck - nothing is routed, no keepalive is sent");
        // a parked loop detects no failure, retries nothing, relays nothing: C08 ("retries continue indefinitely", "the
        // surviving uplinks keep carrying the stream throughout") and C09 (return traffic is delivered) fail with it
        mon.fail("C08", "e2e-loop-stalled", what2.clone());
        mon.fail("C09", "e2e-loop-stalled", what2.clone());
        mon.fail("C03", "e2e-loop-stalled", what2.clone());
        mon.fail("C20", "e2e-loop-stalled", what2.clone());
        mon.fail("C14", "e2e-loop-stalled", what2.clone());
        mon.fail("C01", "e2e-loop-stalled", what2);
    }
    // ---- C14 cadence at its source: keepalives are sent by the housekeeping pass, so two consecutive passes are
    // never more than two periods apart, however busy the data path is
    for k in 1..trace.ticks.len() {
        let gap = trace.ticks[k].at.saturating_sub(trace.ticks[k - 1].at);
        if gap > 2500 {
            mon.fail("C14", "e2e-housekeeping-starved", format!("real event loop [{what}]: {gap} ms of virtual time between the housekeeping passes of ticks {k} and {}: no keepalive can have been sent on any uplink in between, though the loop kept forwarding data", k + 1));
            break;
        }
    }
    if sc.flood.1 != 0 {
        mon.count("e2e-scenario-with-overload");
    }
    // ---- C01: what an uplink puts on the wire is a source datagram, byte for byte, and per uplink in source order
    let mut last_seq: BTreeMap<(u8, u16, bool), u32> = BTreeMap::new();
    let mut seen_on: BTreeMap<u32, Vec<u8>> = BTreeMap::new();
    let sent: BTreeMap<u32, u64> = trace.src.iter().map(|(at, s)| (*s, *at)).collect();
    for e in &trace.rx {
        if let RxKind::Data { seq, intact } = &e.kind {
            mon.count("e2e-data-arrival");
            if !*intact || !sent.contains_key(seq) {
                mon.fail("C01", "e2e-corrupted", format!("real event loop [{what}]: uplink 127.0.0.{} put a data packet on the wire (sequence field {seq}) that is not byte-identical to a datagram the SRT source sent", e.link));
                continue;
            }
            // (the overload phase has a sequence range of its own: order is judged within a range)
            if let Some(p) = last_seq.get(&(e.link, e.port, *seq >= FLOOD_SEQ0)) {
                if *seq == *p {
                    mon.fail("C01", "e2e-sent-twice-on-link", format!("real event loop [{what}]: uplink 127.0.0.{} sent datagram {seq} twice", e.link));
                } else if *seq < *p {
                    mon.fail("C01", "e2e-order", format!("real event loop [{what}]: uplink 127.0.0.{} sent datagram {seq} after {p}", e.link));
                }
            }
            last_seq.insert((e.link, e.port, *seq >= FLOOD_SEQ0), *seq);
            seen_on.entry(*seq).or_default().push(e.link);
        }
    }
    let dup = seen_on.values().filter(|v| v.len() > 1).count();
    if dup > 0 {
        mon.count("e2e-scenario-with-duplicates");
    }
    // duplicates are probes: at most one copy per uplink (several uplinks can be gated, and probed, at the same time;
    // twice on ONE uplink is judged above)
    for (seq, v) in &seen_on {
        if v.len() > links.len().max(2) {
            mon.fail("C01", "e2e-many-copies", format!("real event loop [{what}]: datagram {seq} went on the wire {} times (uplinks {v:?})", v.len()));
        }
    }

    // ---- C03 / C01: no blackout. A datagram sent by the source while - by the loop's own snapshots before and
    // after it - some uplink is connected and live must go on SOME uplink's wire; the only datagrams that may
    // vanish are those queued on an uplink at the moment it is torn down (fewer than 32 per tear-down)
    let teardowns: usize = {
        let mut n = 0;
        for o in &links {
            for k in 1..trace.ticks.len() {
                if live_at(trace, k - 1, *o) && !live_at(trace, k, *o) {
                    n += 1;
                }
            }
        }
        n
    };
    let first_arrival = trace.rx.iter().find(|e| matches!(e.kind, RxKind::Data { .. })).map(|e| e.at);
    let last_tick_at = trace.ticks.last().map(|t| t.at).unwrap_or(0);
    // virtual-time window of the overload phase (its datagrams are in the source log)
    let flood_window: Option<(u64, u64)> = {
        let mut it = trace.src.iter().filter(|(_, s)| *s >= FLOOD_SEQ0).map(|(at, _)| *at);
        it.next().map(|first| (first, it.last().unwrap_or(first)))
    };
    let mut lost: Vec<u32> = Vec::new();
    let mut judged = 0usize;
    let mut worst_hold: (u64, u32) = (0, 0);
    let mut first_arrival_of: BTreeMap<u32, u64> = BTreeMap::new();
    for e in &trace.rx {
        if let RxKind::Data { seq, .. } = &e.kind {
            first_arrival_of.entry(*seq).or_insert(e.at);
        }
    }
    if let Some(fa) = first_arrival {
        for (at, seq) in &trace.src {
            let near_overload = flood_window.is_some_and(|(a, b)| *at + 100 >= a && *at <= b + 5000);
            if *at <= fa + 50 || *at + 1500 > last_tick_at || *seq >= FLOOD_SEQ0 || near_overload {
                // (what the source offers during an overload may be dropped by the kernel before the sender reads it)
                continue;
            }
            let (b, a) = bracket(trace, *at);
            let (Some(b), Some(a)) = (b, a) else { continue };
            let usable = links.iter().any(|o| live_at(trace, b, *o) && live_at(trace, a, *o));
            if !usable {
                continue;
            }
            judged += 1;
            if !seen_on.contains_key(seq) {
                lost.push(*seq);
            } else if let Some(arr) = first_arrival_of.get(seq) {
                // hold time: on the wire after at most one batch or one 15 ms flush tick
                let held = arr.saturating_sub(*at);
                if held > worst_hold.0 {
                    worst_hold = (held, *seq);
                }
            }
        }
    }
    if judged > 0 {
        mon.count("e2e-scenario-with-stream");
        mon.nontrivial();
    }
    if !lost.is_empty() {
        mon.count("e2e-scenario-with-lost-datagrams");
    }
    mon.count(&format!("e2e-worst-hold-{}", match worst_hold.0 { 0..=15 => "<=15ms", 16..=30 => "<=30ms", 31..=100 => "<=100ms", _ => ">100ms" }));
    if worst_hold.0 > 100 {
        mon.fail("C01", "e2e-held-too-long", format!("real event loop [{what}]: datagram {} was sent by the source while an uplink was connected and live and went on the wire only {} ms later; an accepted datagram is on the wire after at most one batch or one 15 ms flush tick", worst_hold.1, worst_hold.0));
    }
    if lost.len() > 32 * teardowns {
        let what2 = format!("real event loop [{what}]: {} of {judged} datagrams sent by the source while an uplink was connected and live (by the loop's own snapshots before and after) never went on any uplink's wire; {teardowns} tear-down(s) can account for at most {} (first missing: {:?})", lost.len(), 32 * teardowns, &lost[..lost.len().min(12)]);
        mon.fail("C03", "e2e-blackout", what2.clone());
        mon.fail("C01", "e2e-datagram-vanished", what2);
    }

    // ---- C14: keepalive cadence and frame, seen from the receiver
    for o in &links {
        let kas: Vec<&RxEv> = trace.rx.iter().filter(|e| e.link == *o && matches!(e.kind, RxKind::Keepalive { .. })).collect();
        for e in &kas {
            if let RxKind::Keepalive { ts, len, ext } = &e.kind {
                mon.count("e2e-keepalive");
                if *len != 38 || !*ext {
                    mon.fail("C14", "e2e-keepalive-frame", format!("real event loop [{what}]: uplink 127.0.0.{o} sent a keepalive of {len} bytes (extended telemetry decodes: {ext}); a keepalive is a 38-byte extended frame"));
                }
                match ts {
                    Some(t) if e.at >= *t && e.at - *t <= 20 => {}
                    _ => mon.fail("C14", "e2e-keepalive-timestamp", format!("real event loop [{what}]: uplink 127.0.0.{o}: keepalive arriving at {} carries send timestamp {ts:?}", e.at)),
                }
            }
        }
        // every pair of consecutive snapshots that both show the uplink connected and live has a keepalive
        // between the earlier one's predecessor and the later one (never more than two periods without one)
        for k in 2..trace.ticks.len() {
            if live_at(trace, k - 2, *o) && live_at(trace, k - 1, *o) && live_at(trace, k, *o) {
                let (from, to) = (trace.ticks[k - 2].at, trace.ticks[k].at);
                mon.count("e2e-keepalive-window");
                if !kas.iter().any(|e| e.at > from.saturating_sub(5) && e.at <= to + 5) {
                    mon.fail("C14", "e2e-keepalive-gap", format!("real event loop [{what}]: uplink 127.0.0.{o} is connected and live in the snapshots of ticks {}..{} but no keepalive from it reached the receiver between {from} and {to} (two housekeeping periods)", k - 1, k + 1));
                }
            }
        }
    }

    // ---- C09: return traffic reaches the SRT client unchanged; SRTLA-internal traffic never does
    let mut acks: BTreeMap<u32, &TxEv> = BTreeMap::new();
    for t in &trace.tx {
        if let TxKind::SrtAck(m) = t.kind {
            acks.insert(m, t);
        }
    }
    let naks: BTreeSet<u32> = trace.tx.iter().filter_map(|t| if let TxKind::Nak(s) = t.kind { Some(s) } else { None }).collect();
    let mut got: BTreeMap<u32, usize> = BTreeMap::new();
    let mut got_nak: BTreeSet<u32> = BTreeSet::new();
    for (at, d) in &trace.client {
        let m = if d.len() >= 44 { u32::from_be_bytes([d[4], d[5], d[6], d[7]]) } else { 0 };
        let ack = if d.len() >= 44 { u32::from_be_bytes([d[16], d[17], d[18], d[19]]) } else { 0 };
        let nk = if d.len() == 20 { u32::from_be_bytes([d[16], d[17], d[18], d[19]]) } else { 0 };
        if d.len() >= 44 && acks.contains_key(&m) && *d == srt_ack_packet(m, ack) {
            *got.entry(m).or_default() += 1;
            mon.count("e2e-return-delivered");
        } else if d.len() == 20 && naks.contains(&nk) && *d == nak_packet(nk) {
            got_nak.insert(nk);
            mon.count("e2e-return-delivered-nak");
        } else {
            let ty = if d.len() >= 2 { u16::from_be_bytes([d[0], d[1]]) } else { 0 };
            mon.fail("C09", "e2e-return-foreign", format!("real event loop [{what}]: the SRT client received at {at} a {}-byte datagram of type {ty:#06x} that is not one of the receiver's SRT ACKs / NAKs, byte for byte", d.len()));
        }
    }
    for t in &trace.tx {
        if let TxKind::Nak(sq) = t.kind {
            let (b, a) = bracket(trace, t.at);
            let (Some(b), Some(a)) = (b, a) else { continue };
            if live_at(trace, b, t.link) && live_at(trace, a, t.link) && t.at + 1500 < last_tick_at && !got_nak.contains(&sq) {
                mon.fail("C09", "e2e-return-not-relayed", format!("real event loop [{what}]: the receiver's NAK for {sq}, sent at {} on uplink 127.0.0.{} (connected and live in the snapshots before and after), never reached the SRT client", t.at, t.link));
            }
        }
    }
    // (C09 says "at least once": the ACK fast path plus the ordinary relay deliver an SRT ACK twice - counted, not judged)
    if got.values().any(|n| *n > 1) {
        mon.count("e2e-scenario-with-return-delivered-twice");
    }
    for (m, t) in &acks {
        let (b, a) = bracket(trace, t.at);
        let (Some(b), Some(a)) = (b, a) else { continue };
        if live_at(trace, b, t.link) && live_at(trace, a, t.link) && t.at + 1500 < last_tick_at {
            mon.count("e2e-return-judged");
            if !got.contains_key(m) {
                mon.fail("C09", "e2e-return-not-relayed", format!("real event loop [{what}]: the receiver's SRT ACK #{m} ({} bytes), sent at {} on uplink 127.0.0.{} (connected and live in the snapshots before and after), never reached the SRT client", srt_ack_packet(*m, 0).len(), t.at, t.link));
            }
        }
    }

    // ---- C05: a NAK is charged to the uplink that carried the packet, whichever uplink brought the NAK back. Per
    // uplink, the loss count the loop reports can have risen (restarts after a reconnect aside) by no more than the
    // number of NAKs the receiver sent for packets THAT uplink carried, and all uplinks together by no more than
    // the number of NAKs sent
    // (not judged in overload scenarios: there the receiver's own socket drops arrivals, so it does not know every
    // uplink a packet travelled on, and the sender's 16384-slot tracker is overrun by design)
    if !trace.naks.is_empty() && sc.flood.1 == 0 {
        mon.count("e2e-scenario-with-naks");
        if trace.naks.iter().any(|n| n.2 != n.3) {
            mon.count("e2e-scenario-with-cross-link-naks");
        }
        let mut total_rise = 0i64;
        for o in &links {
            let mut rise = 0i64;
            let mut prev: Option<i64> = None;
            for t in &trace.ticks {
                match t.links.iter().find(|l| link_of(&l.ip) == *o) {
                    Some(l) => {
                        if let Some(p) = prev {
                            if l.nak_count > p {
                                rise += l.nak_count - p;
                            }
                        }
                        prev = Some(l.nak_count);
                    }
                    None => prev = None,
                }
            }
            // "carried": some copy of the NAKed packet travelled on this uplink (the unique copy, or a duplicate probe -
            // the receiver NAKs the copy it saw on uplink 1, the charge follows the sender's record of the unique copy)
            let carried = trace.naks.iter().filter(|n| n.2 == *o || seen_on.get(&n.1).is_some_and(|v| v.contains(o))).count() as i64;
            total_rise += rise;
            if rise > carried {
                mon.fail("C05", "e2e-nak-charged-to-non-carrier", format!("real event loop [{what}]: the loss count of uplink 127.0.0.{o} rose by {rise} over the run, but the receiver sent only {carried} NAK(s) for packets that uplink carried ({} NAKs in all, {} of them returned over another uplink)", trace.naks.len(), trace.naks.iter().filter(|n| n.2 != n.3).count()));
            }
        }
        if total_rise > trace.naks.len() as i64 {
            mon.fail("C05", "e2e-nak-charged-twice", format!("real event loop [{what}]: loss counts rose by {total_rise} in total for {} NAKs sent", trace.naks.len()));
        }
        if total_rise > 0 {
            mon.count("e2e-scenario-with-nak-charges");
        }
    }

    // ---- C08: an uplink the receiver stops answering is torn down no earlier than the configured timeout after
    // the last thing it was sent, and is connected again within 30 s of the receiver answering it again
    // the timeout in force at a housekeeping pass: the default 5000 ms until a `set_conn_timeout` (clamped to
    // 1000..60000) applied after an EARLIER tick
    let timeout_at = |tick_n: usize| -> u64 {
        let mut v = 5000u64;
        for (t, k, x) in &sc.cfg {
            if *k == 3 && *t < tick_n {
                v = (*x).clamp(1000, 60000);
            }
        }
        v
    };
    for o in &links {
        for k in 1..trace.ticks.len() {
            let was = trace.ticks[k - 1].links.iter().find(|l| link_of(&l.ip) == *o);
            let is = trace.ticks[k].links.iter().find(|l| link_of(&l.ip) == *o);
            let (Some(was), Some(is)) = (was, is) else { continue };
            if was.connected && !is.connected {
                mon.count("e2e-teardown");
                // last liveness-refreshing datagram the receiver sent on this uplink before the tear-down: sends to
                // the port the uplink used BEFORE it (a re-created socket has a new port; what the receiver
                // answers to that one is after the tear-down), strictly before the snapshot
                let old_port = trace.rx.iter().filter(|e| e.link == *o && e.at + 500 < trace.ticks[k].at).map(|e| e.port).last();
                let heard = trace.tx.iter().filter(|t| t.link == *o && Some(t.port) == old_port && t.at < trace.ticks[k].at && !matches!(t.kind, TxKind::Reg2 | TxKind::RegNgp)).map(|t| t.at).max();
                let timeout_ms = timeout_at(k + 1);
                if let Some(h) = heard {
                    let silent = trace.ticks[k].at.saturating_sub(h);
                    if silent < timeout_ms && sc.cfg.iter().any(|(t, key, _)| *key == 3 && *t < k + 1) {
                        mon.fail("C18", "e2e-timeout-not-in-force", format!("real event loop [{what}]: set_conn_timeout put {timeout_ms} ms in force before tick {}, yet uplink 127.0.0.{o} was torn down at tick {} after only {silent} ms of silence: the setting did not take effect for this uplink", k + 1, k + 1));
                    }
                    if silent < timeout_ms {
                        mon.fail("C08", "e2e-torn-down-early", format!("real event loop [{what}]: uplink 127.0.0.{o} went from connected to not connected at tick {} (t={}) although the receiver last sent it something at {h}, {silent} ms earlier - less than the configured timeout of {timeout_ms} ms, and no send failed", k + 1, trace.ticks[k].at));
                    } else {
                        mon.count("e2e-teardown-after-timeout");
                    }
                }
            }
        }
        // recovery: from the first REG3 the receiver sends after a black-hole / restart the uplink must show up
        // connected within 30 s; and measured from the end of the black-hole, a REG3 must exist within 30 s
        let mut ends: Vec<usize> = sc.bh.iter().filter(|(l, _, _)| l == o).map(|(_, _, to)| *to).collect();
        if sc.forget != 0 {
            ends.push(sc.forget);
        }
        for to in ends {
            let Some(t_end) = trace.ticks.get(to.saturating_sub(1)).map(|t| t.at) else { continue };
            if t_end + 32_000 > last_tick_at {
                mon.count("e2e-recovery-unjudged:trace-too-short");
                continue;
            }
            // still listed until the end?
            if !trace.ticks.iter().filter(|t| t.at >= t_end).all(|t| t.links.iter().any(|l| link_of(&l.ip) == *o)) {
                continue;
            }
            if sc.cfg.iter().any(|(_, k, v)| *k == 3 && *v > 5000) {
                // a link that is merely black-holed for less than a long configured timeout is never torn down at all
                mon.count("e2e-recovery-unjudged:long-timeout");
                continue;
            }
            mon.count("e2e-recovery-judged");
            let back = trace.ticks.iter().find(|t| t.at > t_end && t.links.iter().any(|l| link_of(&l.ip) == *o && l.connected && !l.timed_out));
            match back {
                Some(t) if t.at <= t_end + 31_000 => mon.count("e2e-recovered-within-30s"),
                _ => mon.fail("C08", "e2e-not-recovered", format!("real event loop [{what}]: the receiver answers uplink 127.0.0.{o} again from tick {to} (t={t_end}) on, yet no snapshot within 30 s shows it connected and live")),
            }
        }
        // retries: registration packets of one uplink while it is down are paced (count only: the bound depends on the phase)
        let regs: Vec<u64> = trace.rx.iter().filter(|e| e.link == *o && matches!(e.kind, RxKind::Reg2)).map(|e| e.at).collect();
        for w in regs.windows(2) {
            if w[1] - w[0] < 1000 {
                mon.count("e2e-reg2-gap<1s");
            } else if w[1] - w[0] < 5000 {
                mon.count("e2e-reg2-gap<5s");
            } else {
                mon.count("e2e-reg2-gap>=5s");
            }
        }
    }
}

/// C18 / C12 on the loop's snapshots after run-time setting changes.
pub fn monitors_cfg(trace: &Trace, sc: &Scenario, mon: &mut crate::Mon) {
    let what = sc.render();
    // C18: a setting applied after tick t is what every snapshot from tick t+1 on reports, until the next change
    for (idx, t) in trace.ticks.iter().enumerate() {
        let n = idx + 1;
        let mut mode: Option<u64> = None;
        let mut quality: Option<u64> = None;
        for (ct, k, v) in &sc.cfg {
            if *ct < n {
                match k {
                    0 => mode = Some(*v),
                    1 => quality = Some(*v),
                    _ => {}
                }
            }
        }
        if let Some(m) = mode {
            mon.count("e2e-mode-judged");
            let want = if m == 1 { "classic" } else { "enhanced" };
            if t.mode != want {
                mon.fail("C18", "e2e-mode-not-visible", format!("real event loop [{what}]: mode was set to {want} before tick {n}, the snapshot of tick {n} reports {:?}", t.mode));
            }
        }
        if let (Some(q), Some(m)) = (quality, mode.or(Some(0))) {
            // quality scoring is reported off in classic mode whatever the setting
            let want = q == 1 && m == 0;
            if t.quality_enabled != want {
                mon.fail("C18", "e2e-quality-not-visible", format!("real event loop [{what}]: quality scoring was set to {} (mode {}) before tick {n}, the snapshot of tick {n} reports {}", q == 1, if m == 1 { "classic" } else { "enhanced" }, t.quality_enabled));
            }
        }
    }
    // C12: with the guard switched off no uplink is held out of the rotation and no latch engages any more -
    // from the second snapshot after the change (a routing decision clears the flags)
    for (idx, t) in trace.ticks.iter().enumerate() {
        let n = idx + 1;
        let mut guard: Option<(usize, u64)> = None;
        for (ct, k, v) in &sc.cfg {
            if *k == 2 && *ct < n {
                guard = Some((*ct, *v));
            }
        }
        if let Some((since, 0)) = guard {
            if n >= since + 3 {
                mon.count("e2e-guard-off-tick");
                for l in &t.links {
                    let prev = trace.ticks[idx - 1].links.iter().find(|p| p.ip == l.ip);
                    if let Some(p) = prev {
                        if l.stall_gate_events > p.stall_gate_events {
                            mon.fail("C12", "e2e-latch-engaged-with-guard-off", format!("real event loop [{what}]: the guard was switched off after tick {since}, yet uplink {} latched between ticks {} and {n} (engagements {} -> {})", l.ip, n - 1, p.stall_gate_events, l.stall_gate_events));
                        }
                    }
                }
            }
        }
    }
    for t in &trace.ticks {
        if t.links.iter().any(|l| l.stall_gated) {
            mon.count("e2e-tick-with-latched-uplink");
        }
    }
    // C12: with the guard off there are no duplicate probes - a setting takes effect on the next routing decision,
    // so a datagram the source sent more than 50 ms after the guard was switched off goes on one uplink only
    {
        let mut off_since: Option<u64> = None; // virtual time from which the guard is off (None = on)
        let mut windows: Vec<(u64, u64)> = Vec::new();
        for (ct, k, v) in &sc.cfg {
            if *k != 2 {
                continue;
            }
            let Some(at) = trace.ticks.get(ct.saturating_sub(1)).map(|t| t.at) else { continue };
            match (*v, off_since) {
                (0, None) => off_since = Some(at),
                (1, Some(from)) => {
                    windows.push((from, at));
                    off_since = None;
                }
                _ => {}
            }
        }
        if let Some(from) = off_since {
            windows.push((from, u64::MAX));
        }
        if !windows.is_empty() {
            let sent_at: std::collections::BTreeMap<u32, u64> = trace.src.iter().map(|(at, s)| (*s, *at)).collect();
            let mut copies: std::collections::BTreeMap<u32, Vec<u8>> = Default::default();
            for e in &trace.rx {
                if let RxKind::Data { seq, .. } = &e.kind {
                    copies.entry(*seq).or_default().push(e.link);
                }
            }
            for (seq, links) in &copies {
                let Some(at) = sent_at.get(seq) else { continue };
                if windows.iter().any(|(from, to)| *at > from + 50 && *at < *to) {
                    mon.count("e2e-datagram-with-guard-off");
                    if links.len() > 1 {
                        mon.fail("C12", "e2e-probe-with-guard-off", format!("real event loop [{what}]: datagram {seq}, sent by the source at {at} - more than 50 ms after the guard was switched off - went on the wire of uplinks {links:?}: duplicate probes belong to the guard, and a setting takes effect on the next routing decision"));
                        break;
                    }
                }
            }
        }
    }
    // C10 / C06: classic mode applies no time-based recovery - between two snapshots that both report classic mode
    // (set before the earlier one), a connected uplink's window does not rise unless the receiver sent an SRTLA ACK
    // to some uplink in between (the only thing that raises a classic window)
    for k in 1..trace.ticks.len() {
        let (a, b) = (&trace.ticks[k - 1], &trace.ticks[k]);
        let classic_since = sc.cfg.iter().filter(|(_, key, _)| *key == 0).filter(|(t, _, _)| *t < k).last().map(|(_, _, v)| *v == 1).unwrap_or(false);
        if !(classic_since && a.mode == "classic" && b.mode == "classic") {
            continue;
        }
        let acked = trace.tx.iter().any(|t| matches!(t.kind, TxKind::SrtlaAck) && t.at + 200 >= a.at && t.at <= b.at);
        if acked {
            continue;
        }
        mon.count("e2e-classic-quiet-interval");
        for l in &b.links {
            if let Some(p) = a.links.iter().find(|p| p.ip == l.ip) {
                if p.connected && l.connected && l.window > p.window {
                    let what2 = format!("real event loop [{what}]: classic mode (set at run time, reported by both snapshots), no SRTLA ACK sent to any uplink between ticks {k} and {}, yet the window of {} rose {} -> {}: time-based recovery is still applied", k + 1, l.ip, p.window, l.window);
                    mon.fail("C10", "e2e-classic-window-rose-without-ack", what2.clone());
                    mon.fail("C06", "e2e-classic-window-rose-without-ack", what2);
                }
            }
        }
    }
    // C08 "retries continue indefinitely": a retry may not cost a descriptor. Among snapshots with the same number of
    // uplinks, the number of open descriptors of the process does not grow with the number of socket re-creations
    // (a re-created socket replaces the old one; its reader task goes with it)
    if sc.reloads.is_empty() && trace.ticks.len() > 8 {
        let base = trace.ticks[5].fds;
        let (worst_n, worst) = trace.ticks.iter().skip(5).map(|t| (t.n, t.fds)).max_by_key(|x| x.1).unwrap_or((0, base));
        let growth = worst.saturating_sub(base);
        let recreations: usize = {
            // a new source port on an uplink = a re-created socket
            let mut ports: std::collections::BTreeMap<u8, std::collections::BTreeSet<u16>> = Default::default();
            for e in &trace.rx {
                ports.entry(e.link).or_default().insert(e.port);
            }
            ports.values().map(|p| p.len().saturating_sub(1)).sum()
        };
        mon.count(&format!("e2e-fd-growth-{}", growth.min(9)));
        if recreations >= 4 {
            mon.count("e2e-scenario-with-4+-recreations");
            if growth >= 4 && growth + 1 >= recreations {
                mon.fail("C08", "e2e-descriptors-grow-with-retries", format!("real event loop [{what}]: the process held {base} descriptors at tick 6 and {worst} at tick {worst_n} with the same uplink list; uplink sockets were re-created {recreations} times in between - every retry leaves a descriptor behind, so retries cannot continue indefinitely"));
            }
        }
    }
    // C19: a reload whose file is fully parsable is applied - within three ticks of the SIGHUP the loop's uplink
    // set is exactly the file's address set (every address of these scenarios is bindable here), survivors first
    // in their old order; whatever else is going on (registration in progress, a receiver restart, a black-hole)
    for (r, (_, list)) in sc.reloads.iter().enumerate() {
        // first tick published with r+1 reloads sent = the tick after the SIGHUP
        let Some(first) = trace.ticks.iter().position(|t| t.reloads_sent == r + 1) else { continue };
        let sent_after = first; // 1-based number of the tick after which it was sent
        let next_sent = trace.ticks.iter().position(|t| t.reloads_sent == r + 2).unwrap_or(usize::MAX);
        let mut want: Vec<String> = Vec::new();
        for o in list {
            let ip = format!("127.0.0.{o}");
            if !want.contains(&ip) {
                want.push(ip);
            }
        }
        let mut want_set = want.clone();
        want_set.sort();
        let window: Vec<&Tick> = trace.ticks.iter().skip(first).take(3).collect();
        if window.len() < 3 || next_sent < first + 3 {
            mon.count("e2e-reload-unjudged");
            continue;
        }
        mon.count("e2e-reload-judged");
        let applied = window.iter().any(|t| {
            let mut got: Vec<String> = t.links.iter().map(|l| l.ip.clone()).collect();
            got.sort();
            got == want_set
        });
        if !applied {
            let got: Vec<String> = window.last().unwrap().links.iter().map(|l| l.ip.clone()).collect();
            mon.fail("C19", "e2e-reload-not-applied", format!("real event loop [{what}]: reload #{} (file = {want:?}) was signalled after tick {sent_after}; three ticks later the loop's uplinks are {got:?}", r + 1));
        }
    }
}

/// Random scenario for the `e2e` component.
pub fn generate_e2e(rng: &mut crate::Rng, idx: usize) -> Scenario {
    // the directed scenario kinds are stratified over the case index, so that even a run of 16 cases has each twice
    let kind = idx % 8;
    let n = rng.range(2, 3) as u8;
    let ips: Vec<u8> = (1..=n).collect();
    let ticks = rng.range(45, 80) as usize;
    let mut bh = Vec::new();
    if rng.chance(3, 4) {
        let from = rng.range(8, 16) as usize;
        bh.push((rng.range(1, n as u64) as u8, from, from + rng.range(2, 14) as usize));
        if rng.chance(1, 3) {
            let from2 = rng.range(24, 34) as usize;
            bh.push((rng.range(1, n as u64) as u8, from2, from2 + rng.range(2, 10) as usize));
        }
    }
    if kind == 3 {
        // one long outage: many paced retries
        bh.clear();
        bh.push((rng.range(1, n as u64) as u8, rng.range(6, 12) as usize, ticks));
    }
    let forget = if bh.is_empty() && rng.chance(1, 2) { rng.range(10, 25) as usize } else { 0 };
    let mut reloads = Vec::new();
    if rng.chance(1, 3) {
        let mut other = ips.clone();
        if rng.chance(1, 2) {
            other.push(n + 1);
        } else if other.len() > 2 {
            other.pop();
        }
        let at = match rng.below(4) {
            0 => rng.range(1, 3) as usize,                       // while the first registration is still in progress
            1 if forget != 0 => forget + rng.below(8) as usize,   // while the links re-register after a receiver restart
            _ => rng.range(8, 35) as usize,
        };
        reloads.push((Trigger::AtTick(at), other));
    }
    let (nak_every, nak_from, nak_to) = if rng.chance(1, 3) {
        let from = rng.range(8, 30) as usize;
        (*rng.pick(&[3u32, 10, 50]), from, from + rng.range(3, 10) as usize)
    } else {
        (0, 0, 0)
    };
    let sc = Scenario {
        ips,
        reloads,
        admit2: if rng.chance(1, 4) { rng.range(5, 10) as usize } else { 0 },
        pps: *rng.pick(&[50u32, 100, 200, 400, 25]),
        rtt_ms: *rng.pick(&[0u64, 10, 30, 80]),
        nak_every,
        nak_from,
        nak_to,
        bh,
        sack: *rng.pick(&[0u32, 7, 20, 50]),
        forget,
        cfg: {
            let mut c = Vec::new();
            if rng.chance(1, 2) {
                // a run-time change of the connection timeout, mode, quality scoring or the guard, some before a fault
                for _ in 0..rng.range(1, 3) {
                    let what = rng.below(4) as u8;
                    let v = match what {
                        3 => *rng.pick(&[1000u64, 2000, 3000, 8000, 12000, 500, 70000]),
                        _ => rng.below(2),
                    };
                    c.push((rng.range(4, 30) as usize, what, v));
                }
                c.sort();
            }
            c
        },
        quiet: if rng.chance(1, 3) {
            let from = rng.range(6, 30) as usize;
            (from, from + rng.range(2, 16) as usize)
        } else {
            (0, 0)
        },
        flood: (0, 0),
        ticks,
    };
    // one scenario in eight: an uplink is removed by a reload and the source falls silent in the very tick that
    // applies it (what is queued on the survivors at that moment must still be flushed within a tick)
    let mut sc = sc;
    if kind == 1 {
        if sc.ips.len() < 3 {
            sc.ips = vec![1, 2, 3];
        }
        let at = rng.range(8, 25) as usize;
        let mut fewer = sc.ips.clone();
        fewer.pop();
        sc.reloads = vec![(Trigger::AtTick(at), fewer)];
        sc.quiet = (at + 1, at + 1 + rng.range(2, 6) as usize);
        sc.pps = *rng.pick(&[200u32, 400, 400]);
        sc.bh.retain(|(_, from, to)| *to < at || *from > at + 8);
        sc.forget = 0;
    }
    // one scenario in eight: the guard is switched off while an uplink under load is black-holed (latched, probed)
    if kind == 0 {
        let from = rng.range(8, 14) as usize;
        sc.bh = vec![(rng.range(1, sc.ips.len() as u64) as u8, from, from + rng.range(12, 24) as usize)];
        sc.forget = 0;
        sc.pps = *rng.pick(&[200u32, 400]);
        sc.reloads.clear();
        sc.quiet = (0, 0);
        // no cumulative SRT ACKs (they would drain the black-holed link's backlog through the healthy links) and a
        // long timeout, so that the silent uplink stays connected, backlogged and latched for a while
        sc.sack = 0;
        // no RTT samples: the CC stays in bootstrap and publishes no in-flight cap (the cap would keep the silent
        // uplink's backlog under the 32 packets the latch needs)
        sc.rtt_ms = 0;
        sc.nak_every = 0;
        sc.admit2 = 0;
        sc.cfg.retain(|(_, k, _)| *k != 2 && *k != 3 && *k != 0);
        sc.cfg.push((3, 3, 20000));
        sc.cfg.push((from + rng.range(5, 10) as usize, 2, 0));
        sc.cfg.sort();
    }
    // overload (only in the check of C14, and in unspecific runs: it costs seconds): the source outruns the loop for 3 s
    if kind == 5 && idx < 16 && matches!(std::env::var("VERIF_PROP").as_deref(), Ok("C14") | Err(_)) {
        sc.flood = (rng.range(8, 14) as usize, 3);
        sc.bh.clear();
        sc.forget = 0;
        sc.reloads.clear();
        sc.quiet = (0, 0);
        sc.cfg.clear();
        sc.ticks = sc.ticks.min(40);
    }
    // timeout raised at run time, then an uplink added by a reload goes silent: the NEW uplink is judged against
    // the configured timeout too
    if kind == 4 {
        sc.ips = vec![1, 2];
        let at = rng.range(6, 9) as usize;
        sc.reloads = vec![(Trigger::AtTick(at), vec![1, 2, 3])];
        // (the new uplink needs a few ticks to register before it can go silent)
        let from = at + rng.range(8, 12) as usize;
        sc.bh = vec![(3, from, from + rng.range(8, 14) as usize)];
        sc.forget = 0;
        sc.quiet = (0, 0);
        sc.cfg.retain(|(_, k, _)| *k != 3);
        sc.cfg.push((3, 3, 20000));
        sc.cfg.sort();
        sc.ticks = sc.ticks.max(from + 20);
    }
    // one scenario in six: switch to classic mode at run time, then the source pauses for a while
    if kind == 2 {
        let at = rng.range(8, 20) as usize;
        sc.cfg.retain(|(_, k, _)| *k != 0);
        sc.cfg.push((at, 0, 1));
        sc.cfg.sort();
        sc.quiet = (at + 2, at + 2 + rng.range(4, 12) as usize);
    }
    sc
}
