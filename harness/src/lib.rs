//! verif-harness: runs the REAL srtla_send code on generated or stored operation
//! sequences and prints canonical observations, one line per operation, for the
//! correspondence check against the Lean model's driver.  Property monitors
//! (model-independent renderings of the property statements) run on the real
//! code's observations and report failures with a signature.
//!
//! One binary per component (src/bin/<component>.rs):
//!   <component> run  --seed S --cases N --tier quick|thorough --out DIR
//!   <component> exec <ops-file> --out DIR
//!
//! Writes DIR/<component>.ops (run only), .impl, .mon.jsonl, .stats.json.

pub mod looptrace;
pub mod rng;
pub mod util;

use std::collections::{BTreeMap, BTreeSet};
use std::io::Write;
use std::panic::{AssertUnwindSafe, catch_unwind};

pub use rng::Rng;

#[derive(Clone, Copy, PartialEq, Eq, Debug)]
pub enum Tier {
    Quick,
    Thorough,
}

#[derive(Debug, Clone)]
pub struct Fail {
    pub prop: String,
    pub sig: String,
    pub desc: String,
}

/// Monitor sink + coverage counters for one exec run.
#[derive(Default)]
pub struct Mon {
    pub fails: Vec<(usize, usize, Fail)>, // (case, line-in-case, fail)
    pub counters: BTreeMap<String, u64>,
    pub case_nontrivial: bool,
    cur_case: usize,
    cur_line: usize,
}

impl Mon {
    pub fn fail(&mut self, prop: &str, sig: &str, desc: String) {
        self.fails.push((
            self.cur_case,
            self.cur_line,
            Fail {
                prop: prop.to_string(),
                sig: sig.to_string(),
                desc,
            },
        ));
    }

    pub fn count(&mut self, key: &str) {
        *self.counters.entry(key.to_string()).or_insert(0) += 1;
    }

    /// Mark the current case as non-trivial by the component's rule.
    pub fn nontrivial(&mut self) {
        self.case_nontrivial = true;
    }
}

pub trait Component {
    /// Generate one case (a list of op lines) from the per-case RNG.
    fn gen_case(&mut self, rng: &mut Rng, tier: Tier, idx: usize) -> Vec<String>;
    /// Reset implementation state for a new case.
    fn start_case(&mut self);
    /// Execute one op on the real code; return the canonical observation line.
    fn exec(&mut self, toks: &[&str], mon: &mut Mon) -> String;
    /// End-of-case monitors.
    fn end_case(&mut self, _mon: &mut Mon) {}
    /// Optional: the COMPLETE enumeration of a finite sub-space named `which` (thorough tier,
    /// model validation only - never stands in for a theorem).
    fn exhaustive(&mut self, _which: &str) -> Option<Vec<Vec<String>>> {
        None
    }
    /// One-line description of the generator and the non-triviality rule.
    fn rule(&self) -> &'static str;
}

thread_local! {
    static LAST_PANIC: std::cell::RefCell<String> = const { std::cell::RefCell::new(String::new()) };
}

fn parse_flag(args: &[String], flag: &str) -> Option<String> {
    args.iter()
        .position(|a| a == flag)
        .and_then(|i| args.get(i + 1).cloned())
}

fn fnv(s: &str) -> u64 {
    let mut h: u64 = 0xcbf29ce484222325;
    for b in s.as_bytes() {
        h ^= *b as u64;
        h = h.wrapping_mul(0x100000001b3);
    }
    h
}

/// Entry point shared by every component binary (`src/bin/<component>.rs`).
pub fn run_main(comp_name: &str, mut comp: Box<dyn Component>) {
    // Keep panics inside catch_unwind quiet; they are reported as observations (message and location are kept for
    // the panic-freedom monitor below).
    std::panic::set_hook(Box::new(|info| {
        let msg = info.payload().downcast_ref::<&str>().map(|s| s.to_string()).or_else(|| info.payload().downcast_ref::<String>().cloned()).unwrap_or_default();
        let loc = info.location().map(|l| format!("{}:{}", l.file(), l.line())).unwrap_or_default();
        LAST_PANIC.with(|p| *p.borrow_mut() = format!("{msg} at {loc}"));
    }));
    let args: Vec<String> = std::env::args().collect();
    if args.len() < 2 {
        eprintln!("usage: {comp_name} run --seed S --cases N --tier T --out DIR | exec <ops-file> --out DIR");
        std::process::exit(2);
    }
    let mode = args[1].as_str();
    let out_dir = parse_flag(&args, "--out").unwrap_or_else(|| ".".into());
    std::fs::create_dir_all(&out_dir).unwrap();

    let cases: Vec<Vec<String>> = match mode {
        "run" => {
            let seed: u64 = parse_flag(&args, "--seed")
                .and_then(|s| s.parse().ok())
                .unwrap_or(1);
            let n: usize = parse_flag(&args, "--cases")
                .and_then(|s| s.parse().ok())
                .unwrap_or(100);
            let tier = match parse_flag(&args, "--tier").as_deref() {
                Some("thorough") => Tier::Thorough,
                _ => Tier::Quick,
            };
            let mut master = Rng::new(seed ^ fnv(comp_name));
            let mut cases = Vec::with_capacity(n);
            if let Some(which) = parse_flag(&args, "--exhaustive") {
                match comp.exhaustive(&which) {
                    Some(c) => cases = c,
                    None => {
                        eprintln!("component {comp_name} has no exhaustive sub-space `{which}`");
                        std::process::exit(2);
                    }
                }
            } else {
                for k in 0..n {
                    let mut r = master.fork(k as u64);
                    cases.push(comp.gen_case(&mut r, tier, k));
                }
            }
            let mut f = std::io::BufWriter::new(
                std::fs::File::create(format!("{out_dir}/{comp_name}.ops")).unwrap(),
            );
            for (k, c) in cases.iter().enumerate() {
                writeln!(f, "case {k}").unwrap();
                for l in c {
                    writeln!(f, "{l}").unwrap();
                }
            }
            cases
        }
        "exec" => {
            let path = &args[2];
            let text = std::fs::read_to_string(path).expect("read ops file");
            let mut cases: Vec<Vec<String>> = Vec::new();
            for line in text.lines() {
                let t = line.trim();
                if t.is_empty() || t.starts_with('#') {
                    continue;
                }
                if t.starts_with("case") {
                    cases.push(Vec::new());
                } else {
                    if cases.is_empty() {
                        cases.push(Vec::new());
                    }
                    cases.last_mut().unwrap().push(t.to_string());
                }
            }
            cases
        }
        _ => {
            eprintln!("unknown mode {mode}");
            std::process::exit(2);
        }
    };

    let mut mon = Mon::default();
    let mut impl_out = std::io::BufWriter::new(
        std::fs::File::create(format!("{out_dir}/{comp_name}.impl")).unwrap(),
    );
    let mut op_hist: BTreeMap<String, u64> = BTreeMap::new();
    let mut distinct_nontrivial: BTreeSet<u64> = BTreeSet::new();
    let mut samples: Vec<Vec<String>> = Vec::new();
    let (mut min_len, mut max_len, mut tot_len) = (usize::MAX, 0usize, 0usize);
    for (k, case) in cases.iter().enumerate() {
        writeln!(impl_out, "case {k}").unwrap();
        mon.cur_case = k;
        mon.case_nontrivial = false;
        let _ = catch_unwind(AssertUnwindSafe(|| comp.start_case()));
        for (li, line) in case.iter().enumerate() {
            mon.cur_line = li;
            let toks: Vec<&str> = line.split_whitespace().collect();
            if let Some(t) = toks.first() {
                *op_hist.entry((*t).to_string()).or_insert(0) += 1;
            }
            let obs = match catch_unwind(AssertUnwindSafe(|| comp.exec(&toks, &mut mon))) {
                Ok(o) => o,
                Err(_) => {
                    mon.count("panic");
                    // C09 / C15: processing an arbitrary datagram / decoding an arbitrary byte string never panics.
                    // A panic of the REAL code under this harness (arithmetic overflow included: the harness is built
                    // with overflow checks) is a failing input for those two, whatever the model says.
                    if let Ok(p) = std::env::var("VERIF_PROP") {
                        if p == "C09" || p == "C15" {
                            let what = LAST_PANIC.with(|p| p.borrow().clone());
                            mon.fail(&p, "panic", format!("the real code panicked on `{}`: {}", &line[..line.len().min(200)], &what[..what.len().min(300)]));
                        }
                    }
                    "PANIC".to_string()
                }
            };
            writeln!(impl_out, "{obs}").unwrap();
        }
        let _ = catch_unwind(AssertUnwindSafe(|| comp.end_case(&mut mon)));
        min_len = min_len.min(case.len());
        max_len = max_len.max(case.len());
        tot_len += case.len();
        if mon.case_nontrivial {
            let h = fnv(&case.join("\n"));
            if distinct_nontrivial.insert(h) && samples.len() < 3 {
                samples.push(
                    case.iter()
                        .take(40)
                        .map(|l| {
                            if l.len() > 160 {
                                let mut e = 160;
                                while !l.is_char_boundary(e) {
                                    e -= 1;
                                }
                                format!("{}...(+{} chars)", &l[..e], l.len() - e)
                            } else {
                                l.clone()
                            }
                        })
                        .collect(),
                );
            }
        }
    }
    impl_out.flush().unwrap();

    let mut mon_out = std::io::BufWriter::new(
        std::fs::File::create(format!("{out_dir}/{comp_name}.mon.jsonl")).unwrap(),
    );
    for (c, l, f) in &mon.fails {
        let j = serde_json::json!({"prop": f.prop, "sig": f.sig, "case": c, "line": l, "desc": f.desc});
        writeln!(mon_out, "{j}").unwrap();
    }
    mon_out.flush().unwrap();

    let stats = serde_json::json!({
        "component": comp_name,
        "cases": cases.len(),
        "ops": tot_len,
        "case_len": {"min": if cases.is_empty() {0} else {min_len}, "max": max_len,
                     "avg": if cases.is_empty() {0.0} else {tot_len as f64 / cases.len() as f64}},
        "distinct_nontrivial": distinct_nontrivial.len(),
        "op_histogram": op_hist,
        "branch_counters": mon.counters,
        "monitor_failures": mon.fails.len(),
        "rule": comp.rule(),
        "samples": samples,
    });
    std::fs::write(
        format!("{out_dir}/{comp_name}.stats.json"),
        serde_json::to_string_pretty(&stats).unwrap(),
    )
    .unwrap();
    println!(
        "{comp_name}: cases={} ops={} nontrivial={} monitor_failures={}",
        cases.len(),
        tot_len,
        distinct_nontrivial.len(),
        mon.fails.len()
    );
}
